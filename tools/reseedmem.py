#!/venv/bin/python
"""reseedmem.py [root]: every stored seed applied IN MEMORY to the tree at root (default /repo) and judged by its own property's
rules (16-wide).  Prints one line per seed that is not reported as a violation, and the totals.
(tools/reseed.py does the same through the registered command on the real tree, one seed at a time.)"""
import glob, json, os, sys
sys.path.insert(0, '/verif')
from txsa.selftest import apply_unified_diff
from txsa.index import Index
from txsa.report import Run
from txsa import rules as rules_pkg
root = sys.argv[1] if len(sys.argv) > 1 else '/repo'


def work(job):
    name, prop, ov = job
    try:
        r = Run(prop, Index(root, overrides=ov), 'quick')
        rules_pkg.run_rules(r)
        return name, prop, sorted(set(f.key for f in r.findings)), [u['what'][:160] for u in r.undecided]
    except Exception as e:
        return name, prop, [], ['ERROR %s: %s' % (type(e).__name__, e)]


def main():
    base = {}
    jobs = []
    for d in sorted(glob.glob('/verif/seeded/*/')):
        name = d.rstrip('/').split('/')[-1]
        prop = json.load(open(d + 'meta.json'))['property']
        ov = apply_unified_diff(root, open(d + 'patch.diff').read())
        if ov is None:
            print('%-8s patch does not apply in memory' % name)
            continue
        jobs.append((name, prop, ov))
    for p in sorted(set(j[1] for j in jobs)):
        r = Run(p, Index(root), 'quick')
        rules_pkg.run_rules(r)
        base[p] = set(f.key for f in r.findings)
    import multiprocessing as mp
    from concurrent.futures import ProcessPoolExecutor
    v = u = s = 0
    with ProcessPoolExecutor(max_workers=16, mp_context=mp.get_context('fork')) as ex:
        for name, prop, keys, und in ex.map(work, jobs, chunksize=2):
            new = [k for k in keys if k not in base[prop]]
            if new:
                v += 1
            elif und:
                u += 1
                print('%-8s %s UNDECIDED %s' % (name, prop, und[0]))
            else:
                s += 1
                print('%-8s %s SILENT' % (name, prop))
    print('seeds %d: violation %d, undecided only %d, silent %d' % (len(jobs), v, u, s))


main()
