#!/venv/bin/python
"""Maintain /verif/known_findings.json by hand (never called by a check).
  kf.py fixed C03 <commit> "<rule|key>" "<what failed>"
  kf.py known C06 "<key>" "<what fails>"
"""
import json, sys
p = '/verif/known_findings.json'
d = json.load(open(p))
kind, prop = sys.argv[1], sys.argv[2]
if kind == 'fixed':
    commit, key, what = sys.argv[3:6]
    d['findings'].append(dict(property=prop, status='fixed', commit=commit, key=key, rule=key.split('|')[0], what=what,
                              record='fixed: property=%s %s %s' % (prop, commit, what)))
else:
    key, what = sys.argv[3:5]
    d['findings'].append(dict(property=prop, status='known', key=key, rule=key.split('|')[0], what=what))
json.dump(d, open(p, 'w'), indent=1)
