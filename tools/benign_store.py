#!/venv/bin/python
"""benign_store.py <src dir with Cxx/n/{patch.diff,notes.md}>: confirm each behaviour-preserving patch keeps the pinned suite green
(scratch worktrees, 8 at a time, removed afterwards) and copy it to /verif/benign/<Cxx>-b<n>/ with meta.json.
The patches are then used as in-memory twins by the thorough tier (txsa/selftest.py: patch_twins)."""
import glob, json, os, shutil, subprocess, sys, tempfile
from concurrent.futures import ThreadPoolExecutor
src = sys.argv[1]
dst = '/verif/benign'


def sh(cmd, cwd=None):
    p = subprocess.run(cmd, shell=True, cwd=cwd, capture_output=True, text=True)
    return p.returncode, p.stdout + p.stderr


def one(pf):
    d = os.path.dirname(pf)
    prop, n = d.split(os.sep)[-2:]
    name = '%s-b%d' % (prop, int(n) + int(os.environ.get('BENIGN_OFFSET', '0')))
    wt = tempfile.mkdtemp(prefix='benwt-', dir='/tmp')
    os.rmdir(wt)
    rc, o = sh('git -C /repo worktree add -q --detach %s HEAD' % wt)
    if rc != 0:
        return name, False, 'worktree: ' + o[-200:]
    try:
        rc, o = sh('git apply %s' % pf, cwd=wt)
        if rc != 0:
            return name, False, 'does not apply'
        rc, o = sh('/verif/tools/baseline.py %s' % wt)
        suite = o.strip().splitlines()[0] if o.strip() else '?'
        ok = rc == 0
    finally:
        sh('git -C /repo worktree remove --force %s' % wt)
    if ok:
        out = os.path.join(dst, name)
        os.makedirs(out, exist_ok=True)
        shutil.copy(pf, os.path.join(out, 'patch.diff'))
        if os.path.exists(os.path.join(d, 'notes.md')):
            shutil.copy(os.path.join(d, 'notes.md'), os.path.join(out, 'notes.md'))
        head = subprocess.run('git -C /repo rev-parse --short HEAD', shell=True, capture_output=True, text=True).stdout.strip()
        json.dump({'property': prop, 'pinned_suite': suite, 'repo_head': head,
                   'origin': 'behaviour-preserving clean-up written by an independent sub-agent given only the property text'},
                  open(os.path.join(out, 'meta.json'), 'w'), indent=1)
    return name, ok, suite


pats = sorted(glob.glob(os.path.join(src, 'C*', '[0-9]', 'patch.diff')))
with ThreadPoolExecutor(max_workers=8) as ex:
    for name, ok, info in ex.map(one, pats):
        print(name, 'OK' if ok else 'REJECTED', info)
sh('git -C /repo worktree prune')
