#!/venv/bin/python
"""Development aid (NOT a registered check): systematic first-order mutants of the functions the
rules analyse, to find where the rules are blind.

  mutscan.py gen                  -> /tmp/mutscan/mutants.json   (all mutants of analysed functions)
  mutscan.py static               -> adds 'flagged': {prop: [rules]} by running the static checks in memory
  mutscan.py tests                -> for mutants no check flagged: run the pinned suite in scratch worktrees
  mutscan.py report [PROP]        -> survivors (unflagged + suite passes), grouped by function

Mutants whose suite run fails are "killed by the tests" and of no interest (a change must pass the
tests to count).  Survivors are triaged by hand: equivalent / harmless, or a gap to close with a rule.
"""
import ast, json, os, subprocess, sys, copy, glob
sys.path.insert(0, '/verif')
OUT = '/tmp/mutscan'
GITBASE = os.environ.get('MUTSCAN_BASE', 'c957cba')
ROOT = '/repo'


def analysed():
    """qual -> set(props)"""
    out = {}
    for f in sorted(glob.glob('/verif/evidence/C*.json')):
        e = json.load(open(f))
        for q in e['coverage']['functions_analysed']:
            out.setdefault(q, set()).add(e['property_id'])
    return out


def span(src_lines, node):
    return (node.lineno, node.col_offset, node.end_lineno, node.end_col_offset)


def replace_span(text, sp, new):
    lines = text.split('\n')
    l1, c1, l2, c2 = sp
    # col offsets are utf8 byte offsets; sources are ascii enough - convert per line
    def cut(line, col):
        return len(line.encode('utf-8')[:col].decode('utf-8', 'ignore'))
    pre = lines[l1 - 1][:cut(lines[l1 - 1], c1)]
    post = lines[l2 - 1][cut(lines[l2 - 1], c2):]
    return '\n'.join(lines[:l1 - 1] + [pre + new + post] + lines[l2:])


CMP_SWAP = {ast.Eq: ast.NotEq, ast.NotEq: ast.Eq, ast.Lt: ast.LtE, ast.LtE: ast.Lt, ast.Gt: ast.GtE, ast.GtE: ast.Gt,
            ast.Is: ast.IsNot, ast.IsNot: ast.Is, ast.In: ast.NotIn, ast.NotIn: ast.In}


def mutants_of(fn, text):
    """yield (op, lineno, span, new_text)"""
    noise = ('txtorlog', 'log', 'warnings', 'warn', 'print')
    for n in ast.walk(fn):
        if isinstance(n, (ast.If, ast.While)):
            yield ('NEG', n.test.lineno, span(None, n.test), 'not (%s)' % ast.unparse(n.test))
        if isinstance(n, ast.Compare) and len(n.ops) == 1 and type(n.ops[0]) in CMP_SWAP:
            m = copy.deepcopy(n)
            m.ops = [CMP_SWAP[type(n.ops[0])]()]
            yield ('CMP', n.lineno, span(None, n), ast.unparse(m))
        if isinstance(n, ast.BoolOp):
            m = copy.deepcopy(n)
            m.op = ast.Or() if isinstance(n.op, ast.And) else ast.And()
            yield ('BOOL', n.lineno, span(None, n), '(%s)' % ast.unparse(m))
        if isinstance(n, ast.Constant) and isinstance(n.value, bool):
            yield ('CONST', n.lineno, span(None, n), str(not n.value))
        elif isinstance(n, ast.Constant) and isinstance(n.value, int) and not isinstance(n.value, bool):
            yield ('CONST', n.lineno, span(None, n), str(n.value + 1))
        if isinstance(n, ast.Break):
            yield ('BRK', n.lineno, span(None, n), 'continue')
        if isinstance(n, ast.Continue):
            yield ('BRK', n.lineno, span(None, n), 'break')
        if isinstance(n, (ast.Expr, ast.Assign, ast.AugAssign, ast.Raise, ast.Delete)):
            if isinstance(n, ast.Expr) and isinstance(n.value, ast.Constant):
                continue   # docstring
            d = None
            if isinstance(n, ast.Expr) and isinstance(n.value, ast.Call):
                f = n.value.func
                while isinstance(f, ast.Attribute):
                    f = f.value
                d = f.id if isinstance(f, ast.Name) else None
            if d in noise:
                continue
            yield ('DEL', n.lineno, span(None, n), 'pass')
        if isinstance(n, ast.Return) and n.value is not None and not (isinstance(n.value, ast.Constant) and n.value.value is None):
            yield ('RETNONE', n.lineno, span(None, n), 'return None')
        if isinstance(n, ast.Yield) and n.value is not None:
            yield ('UNYIELD', n.lineno, span(None, n), ast.unparse(n.value))
        if isinstance(n, ast.If) and n.orelse and not (len(n.orelse) == 1 and isinstance(n.orelse[0], ast.If)):
            first, last = n.orelse[0], n.orelse[-1]
            yield ('DELELSE', first.lineno, (first.lineno, first.col_offset, last.end_lineno, last.end_col_offset), 'pass')


def gen():
    from txsa.index import Index
    os.makedirs(OUT, exist_ok=True)
    idx = Index(ROOT)
    an = analysed()
    out = []
    seen = set()
    for u in idx.all_units():
        if not isinstance(u.node, (ast.FunctionDef, ast.AsyncFunctionDef)):
            continue
        props = set()
        q = u
        while q is not None:
            props |= an.get(q.qual, set())
            q = q.parent
        if not props:
            continue
        # skip nested units whose parent is also analysed (ast.walk of the parent covers them)
        p = u.parent
        cov = False
        while p is not None:
            if isinstance(p.node, (ast.FunctionDef, ast.AsyncFunctionDef)):
                cov = True
            p = p.parent
        if cov:
            continue
        text = open(os.path.join(ROOT, u.file)).read()
        for op, ln, sp, new in mutants_of(u.node, text):
            key = (u.file, sp, new)
            if key in seen:
                continue
            seen.add(key)
            try:
                mt = replace_span(text, sp, new)
                compile(mt, u.file, 'exec')
            except SyntaxError:
                continue
            if mt == text:
                continue
            out.append(dict(id=len(out), file=u.file, qual=u.qual, op=op, line=ln, span=sp, new=new, props=sorted(props)))
    # carry suite verdicts over from an earlier round for files unchanged since that round's base (MUTSCAN_CARRY=<old json>)
    carry = os.environ.get('MUTSCAN_CARRY')
    if carry:
        old = {}
        for m in json.load(open(carry)):
            if 'suite' in m:
                old[(m['file'], tuple(m['span']), m['new'])] = m['suite']
        same = set()
        for f in set(m['file'] for m in out):
            a = subprocess.run(['git', '-C', ROOT, 'show', GITBASE + ':' + f], capture_output=True, text=True).stdout
            if a == open(os.path.join(ROOT, f)).read():
                same.add(f)
        n = 0
        for m in out:
            k = (m['file'], tuple(m['span']), m['new'])
            if m['file'] in same and k in old:
                m['suite'] = old[k]
                n += 1
        print('carried', n, 'suite verdicts; unchanged files', sorted(same))
    json.dump(out, open(OUT + '/mutants.json', 'w'))
    print('mutants', len(out), 'functions', len(set(m['qual'] for m in out)))


def _static_one(m):
    from txsa.index import Index, AnchorVanished
    from txsa.report import Run
    from txsa import rules as rules_pkg
    text = open(os.path.join(ROOT, m['file'])).read()
    mt = replace_span(text, tuple(m['span']), m['new'])
    res = {}
    for prop in m['props']:
        try:
            idx = Index(ROOT, overrides={m['file']: mt})
            r = Run(prop, idx, 'quick')
            rules_pkg.run_rules(r)
            base = BASE.get(prop, set())
            new = sorted(set(f.rule for f in r.findings if f.key not in base))
            und = sorted(set(u['rule'] for u in r.undecided))
            if new:
                res[prop] = new
            elif und:
                res[prop] = ['UNDECIDED:' + ','.join(und)]
        except AnchorVanished as e:
            res[prop] = ['ANCHOR']
        except Exception as e:
            res[prop] = ['ERROR:%s' % type(e).__name__]
    return m['id'], res


BASE = {}


def static():
    from txsa.index import Index
    from txsa.report import Run
    from txsa import rules as rules_pkg
    ms = json.load(open(OUT + '/mutants.json'))
    for prop in sorted(set(p for m in ms for p in m['props'])):
        r = Run(prop, Index(ROOT), 'quick')
        rules_pkg.run_rules(r)
        BASE[prop] = set(f.key for f in r.findings)
    import multiprocessing as mp
    from concurrent.futures import ProcessPoolExecutor
    with ProcessPoolExecutor(max_workers=16, mp_context=mp.get_context('fork')) as ex:
        for i, (mid, res) in enumerate(ex.map(_static_one, ms, chunksize=4)):
            ms[mid]['flagged'] = res
            if i % 200 == 0:
                print('static', i, '/', len(ms), flush=True)
    json.dump(ms, open(OUT + '/mutants.json', 'w'))
    fl = sum(1 for m in ms if any(not v[0].startswith(('UNDECIDED', 'ERROR')) for v in m['flagged'].values()))
    print('flagged', fl, 'of', len(ms))


def _test_worker(args):
    wid, batch = args
    wt = '%s/w%d' % (OUT, wid)
    if not os.path.isdir(wt):
        subprocess.run('git -C /repo worktree add -q --detach %s HEAD' % wt, shell=True, check=True)
    out = []
    for m in batch:
        path = os.path.join(wt, m['file'])
        text = subprocess.run(['git', '-C', wt, 'show', 'HEAD:' + m['file']], capture_output=True, text=True).stdout
        mt = replace_span(text, tuple(m['span']), m['new'])
        open(path, 'w').write(mt)
        import signal
        pr = subprocess.Popen(['/verif/tools/baseline.py', wt], stdout=subprocess.PIPE, stderr=subprocess.STDOUT, text=True, start_new_session=True)
        try:
            pr.communicate(timeout=int(os.environ.get('MUTSCAN_TIMEOUT', '60')))
            ok = pr.returncode == 0
        except subprocess.TimeoutExpired:
            os.killpg(pr.pid, signal.SIGKILL)
            pr.wait()
            ok = False
        with open('%s/res%d.txt' % (OUT, wid), 'a') as rf:
            rf.write('%d %d\n' % (m['id'], 1 if ok else 0))
        open(path, 'w').write(text)
        out.append((m['id'], ok))
    return out


def tests():
    ms = json.load(open(OUT + '/mutants.json'))
    for rf in glob.glob(OUT + '/res*.txt'):
        for line in open(rf):
            a, b = line.split()
            ms[int(a)]['suite'] = bool(int(b))
    todo = [m for m in ms if 'suite' not in m and not any(not v[0].startswith(('UNDECIDED', 'ERROR')) for v in m.get('flagged', {}).values())]
    print('to test', len(todo))
    import multiprocessing as mp
    from concurrent.futures import ProcessPoolExecutor
    N = int(os.environ.get('MUTSCAN_N', '14'))
    batches = [(i, todo[i::N]) for i in range(N)]
    with ProcessPoolExecutor(max_workers=N, mp_context=mp.get_context('fork')) as ex:
        for res in ex.map(_test_worker, batches):
            for mid, ok in res:
                ms[mid]['suite'] = ok
    json.dump(ms, open(OUT + '/mutants.json', 'w'))
    for i in range(N):
        subprocess.run('git -C /repo worktree remove --force %s/w%d' % (OUT, i), shell=True)
    subprocess.run('git -C /repo worktree prune', shell=True)
    print('survivors', sum(1 for m in ms if m.get('suite')))


def report(prop=None):
    ms = json.load(open(OUT + '/mutants.json'))
    isfl = lambda m: any(not v[0].startswith(('UNDECIDED', 'ERROR')) for v in m.get('flagged', {}).values())
    sv = [m for m in ms if m.get('suite') and not isfl(m) and (prop is None or prop in m['props'])]
    print('total', len(ms), 'flagged', sum(1 for m in ms if any(not v[0].startswith(('UNDECIDED', 'ERROR')) for v in m.get('flagged', {}).values())),
          'killed-by-tests', sum(1 for m in ms if m.get('suite') is False and not isfl(m)), 'survivors', len([m for m in ms if m.get('suite') and not isfl(m)]))
    cur = None
    for m in sorted(sv, key=lambda m: (m['file'], m['line'])):
        if m['qual'] != cur:
            cur = m['qual']
            print('\n## %s  %s' % (cur, m['props']))
        text = subprocess.run(['git', '-C', ROOT, 'show', GITBASE + ':' + m['file']], capture_output=True, text=True).stdout.split('\n')
        l1, c1, l2, c2 = m['span']
        old = '\n'.join(text[l1 - 1:l2]).strip()
        print('  #%d %s L%d: %s  ==>  %s %s' % (m['id'], m['op'], m['line'], ' '.join(old.split())[:110], m['new'][:80],
                                               ('[%s]' % m['flagged']) if m.get('flagged') else ''))


if __name__ == '__main__':
    cmd = sys.argv[1]
    if cmd == 'gen':
        gen()
    elif cmd == 'static':
        static()
    elif cmd == 'tests':
        tests()
    elif cmd == 'report':
        report(sys.argv[2] if len(sys.argv) > 2 else None)
