#!/venv/bin/python
"""seedbatch.py /tmp/seed3 C01 C02 ... : validate + check every seed of the given properties, compact output."""
import json, os, subprocess, sys
base = sys.argv[1]
for p in sys.argv[2:]:
    for n in ('1', '2', '3'):
        d = os.path.join(base, p, n)
        if not os.path.exists(os.path.join(d, 'patch.diff')):
            continue
        out = subprocess.run(['/verif/tools/seedcheck.py', d, p], capture_output=True, text=True).stdout
        try:
            r = json.loads(out[out.index('{'):out.rindex('}') + 1])
        except Exception:
            print('%s/%s seedcheck failed: %s' % (p, n, out[-300:]))
            continue
        v = r['detected_by'].get(p)
        tgt = 'MISSED' if v is None else ('rc=%d %s' % (v['rc'], [l[l.index('['):][:110] for l in v['lines'] if l.startswith('txtorcon')][:1]))
        others = [k for k in r['detected_by'] if k != p]
        print('%s/%s valid=%s apply=%s suite=%s | %s | others=%s | demo: %s' % (
            p, n, r['valid'], r.get('apply_rc'), r['suite'].split()[-1], tgt, others, str(r.get('demo_patched_tail'))[:100]))
