#!/venv/bin/python
"""Fill the FINDINGS and SEEDS tables of DESIGN.md from known_findings.json and seeded/*/meta.json."""
import glob, json, re
p = '/verif/DESIGN.md'
s = open(p).read()
kf = json.load(open('/verif/known_findings.json'))['findings']
rows = ['| property | rule | status | commit | what fails |', '|---|---|---|---|---|']
for e in sorted(kf, key=lambda e: (e['property'], e['status'])):
    rows.append('| %s | %s | %s | %s | %s |' % (e['property'], e['rule'], e['status'], e.get('commit', '-'), e['what'].replace('|', '/')))
body = '<!-- FINDINGS:BEGIN -->\n' + '\n'.join(rows) + '\n<!-- FINDINGS:END -->'
s = re.sub(r'<!-- FINDINGS:BEGIN -->.*?<!-- FINDINGS:END -->', lambda m: body, s, flags=re.S)
rows = ['| seed | property | change (from the author\'s notes) | caught by | first run |', '|---|---|---|---|---|']
n = y = 0
for f in sorted(glob.glob('/verif/seeded/*/meta.json')):
    m = json.load(open(f))
    name = f.split('/')[-2]
    notes = ' '.join(m.get('needs_to_manifest', '').split())
    notes = re.sub(r'^#+\s*', '', notes)[:160].replace('|', '/')
    rules = sorted(set(re.findall(r'\[(R[0-9A-Z.\-]+)\]', ' '.join(l for ls in m['detected_by'].values() for l in ls))))
    fr = m.get('detected_on_first_run') or '?'
    n += 1
    y += 1 if fr.startswith('yes') else 0
    rows.append('| %s | %s | %s | %s (%s) | %s |' % (name, m['property'], notes, ', '.join(sorted(m['detected_by'])), ', '.join(rules), fr))
rows.append('')
rows.append('%d seeds, %d flagged by the rules as they stood before the seed was seen, all flagged now.' % (n, y))
body2 = '<!-- SEEDS:BEGIN -->\n' + '\n'.join(rows) + '\n<!-- SEEDS:END -->'
s = re.sub(r'<!-- SEEDS:BEGIN -->.*?<!-- SEEDS:END -->', lambda m: body2, s, flags=re.S)
import sys
sys.path.insert(0, '/verif')
from txsa import rules as _r
rows = ['| property | rule | what it decides | self-test mutants / twins |', '|---|---|---|---|']
for pid in _r.PROPS:
    m = _r.load(pid)
    nm, nt = len(getattr(m, 'MUTANTS', [])), len(getattr(m, 'TWINS', []))
    for i, (rid, text, fn) in enumerate(sorted(m.RULES, key=lambda x: x[0])):
        rows.append('| %s | %s | %s | %s |' % (pid if i == 0 else '', rid, text.replace('|', '/'), ('%d / %d (+3 automatic twins)' % (nm, nt)) if i == 0 else ''))
body3 = '<!-- RULES:BEGIN -->\n' + '\n'.join(rows) + '\n<!-- RULES:END -->'
s = re.sub(r'<!-- RULES:BEGIN -->.*?<!-- RULES:END -->', lambda m_: body3, s, flags=re.S)
open(p, 'w').write(s)
print('findings', len(kf), 'seeds', n, 'first-run', y)
