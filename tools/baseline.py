#!/venv/bin/python
"""Run the pinned test-suite command of /root/.vp/BASELINE.json against a tree
(default /repo) and compare with its stable_pass list.  Used by hand after every
fix: commit; not part of any registered check (checks never run repo code)."""
import json, subprocess, sys, tempfile, os, xml.etree.ElementTree as ET
root = sys.argv[1] if len(sys.argv) > 1 else '/repo'
base = json.load(open('/root/.vp/BASELINE.json'))
with tempfile.TemporaryDirectory() as td:
    out = os.path.join(td, 'j.xml')
    p = subprocess.run(['/venv/bin/python', '-m', 'pytest', '-ra', '-q', '-p', 'no:cacheprovider',
                        '--timeout=900', '--continue-on-collection-errors', '--junitxml=' + out],
                       cwd=root, capture_output=True, text=True)
    passed = set()
    for tc in ET.parse(out).getroot().iter('testcase'):
        if not list(tc):
            passed.add('%s::%s' % (tc.get('classname'), tc.get('name')))
        elif all(c.tag in ('system-out', 'system-err', 'properties') for c in tc):
            passed.add('%s::%s' % (tc.get('classname'), tc.get('name')))
want = set(base['stable_pass'])
missing = sorted(want - passed)
print('stable_pass=%d passed_now=%d missing=%d' % (len(want), len(passed), len(missing)))
for m in missing:
    print('  MISSING', m)
print(p.stdout.strip().splitlines()[-1])
sys.exit(1 if missing else 0)
