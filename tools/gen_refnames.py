#!/venv/bin/python
"""Write /verif/txsa/refnames.json: the private-name vocabulary (with pairing features) of the tree the rules were confirmed on.
Run on a CLEAN /repo (after a fix: commit, then regenerate)."""
import ast, json, os, sys
sys.path.insert(0, '/verif')
from txsa.canon import snapshot, REF
root = sys.argv[1] if len(sys.argv) > 1 else '/repo'
trees = {}
for sub, pkg in (('txtorcon', 'txtorcon'), ('twisted/plugins', 'twisted.plugins')):
    d = os.path.join(root, sub)
    if not os.path.isdir(d):
        continue
    for fn in sorted(os.listdir(d)):
        if fn.endswith('.py'):
            trees[pkg + '.' + fn[:-3]] = ast.parse(open(os.path.join(d, fn)).read())
ref = snapshot(trees)
json.dump(ref, open(REF, 'w'), indent=0, sort_keys=True)
print('recorded', sum(len(m['classes']) for m in ref.values()), 'classes,', sum(len(c['methods']) for m in ref.values() for c in m['classes'].values()), 'methods,',
      sum(len(c['attrs']) for m in ref.values() for c in m['classes'].values()), 'attributes,', sum(len(m['functions']) for m in ref.values()), 'functions,',
      sum(len(v) for m in ref.values() for v in m['nested'].values()), 'nested functions')
