#!/venv/bin/python
"""benigncheck.py /tmp/benign C01 C02 ... : for every behaviour-preserving patch of the given properties
(<dir>/<prop>/<n>/patch.diff) confirm the pinned suite still passes (scratch worktree), then apply it to /repo,
run the quick check of EVERY property, revert, and print any non-zero verdict (= false alarm or lost anchor)."""
import json, os, subprocess, sys, tempfile
base = sys.argv[1]
props_all = ['C%02d' % i for i in range(1, 21)]


def sh(cmd, cwd=None):
    p = subprocess.run(cmd, shell=True, cwd=cwd, capture_output=True, text=True)
    return p.returncode, p.stdout + p.stderr


out = {}
for p in sys.argv[2:]:
    for n in ('1', '2', '3', '4'):
        d = os.path.join(base, p, n)
        patch = os.path.join(d, 'patch.diff')
        if not os.path.exists(patch):
            continue
        key = '%s/%s' % (p, n)
        wt = tempfile.mkdtemp(prefix='benwt-', dir='/tmp')
        os.rmdir(wt)
        rc, o = sh('git -C /repo worktree add -q --detach %s HEAD' % wt)
        assert rc == 0, o
        try:
            rc, o = sh('git apply %s' % patch, cwd=wt)
            if rc != 0:
                print('%s PATCH DOES NOT APPLY: %s' % (key, o[-200:]))
                continue
            rc, o = sh('/verif/tools/baseline.py %s' % wt)
            suite = o.strip().splitlines()[0] if o.strip() else '?'
            suite_ok = rc == 0
        finally:
            sh('git -C /repo worktree remove --force %s' % wt)
        rc, o = sh('git -C /repo apply %s' % patch)
        assert rc == 0, o
        alarms = []
        try:
            for q in props_all:
                rc, o = sh('./tx check %s --tier quick --no-evidence' % q, cwd='/verif')
                if rc != 0:
                    lines = [l for l in o.splitlines() if l.startswith(('txtorcon', 'ANALYSIS', 'VIOLATION')) and 'replay=' not in l]
                    alarms.append((q, rc, [l[:260] for l in lines[:3]]))
        finally:
            sh('git -C /repo reset -q; git -C /repo checkout -- .')
        out[key] = dict(suite=suite, suite_ok=suite_ok, alarms=alarms)
        print('%s suite=%s | %s' % (key, suite.split()[-1], 'SILENT' if not alarms else ''))
        for q, rc, lines in alarms:
            print('    %s rc=%d' % (q, rc))
            for l in lines:
                print('        ' + l)
        sys.stdout.flush()
json.dump(out, open(os.path.join(base, 'benigncheck.json'), 'a'))
