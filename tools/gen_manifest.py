#!/venv/bin/python
"""Regenerate /verif/MANIFEST.json from tools/manifest_meta.py and the rule modules present."""
import json, os, sys
here = os.path.dirname(os.path.abspath(__file__))
sys.path.insert(0, os.path.dirname(here))
sys.path.insert(0, here)
from manifest_meta import META, NOT_APPLICABLE, NOTES
from txsa import rules

base = json.load(open('/root/.vp/BASELINE.json'))
checks = []
claimed = []
for p in rules.PROPS:
    if p in NOT_APPLICABLE or p not in META:
        continue
    try:
        rules.load(p)
    except ImportError:
        continue
    m = META[p]
    claimed.append(p)
    checks.append(dict(
        property_id=p,
        quick_cmd='./tx check %s --tier quick' % p,
        thorough_cmd='./tx check %s --tier thorough' % p,
        evidence_file='/verif/evidence/%s.json' % p,
        replay_cmd_template='./tx replay {path}',
        engine='txsa',
        level_claimed=dict(category='other', text=m['level'], design_ref='DESIGN.md section 5, %s' % p),
        level_note=m['note'],
        technique=m['technique'],
    ))
na = []
for p in rules.PROPS:
    if p in claimed:
        continue
    na.append(dict(property_id=p, reason=NOT_APPLICABLE.get(p, 'check not built yet in this session (rules designed in DESIGN.md section 5; work in progress)')))
man = dict(
    version=1,
    setup_cmd='/venv/bin/python -m compileall -q /verif/txsa >/dev/null 2>&1; ./tx check C01 --tier quick --no-evidence >/dev/null 2>&1; true',
    hooks=dict(guard='TXTORCON_VERIF', enable='none needed: the checks read /repo sources with ast and never import or run them; no instrumentation hooks exist',
               baseline_off_cmd='cd /repo && /venv/bin/python -m pytest -ra -q -p no:cacheprovider --timeout=900 --continue-on-collection-errors',
               source_commits=[], add_only=True),
    engines=[dict(name='txsa', path='/verif/txsa', serves_properties=claimed,
                  kind_free_text='repository-specific static analyser on the Python ast: source index with class/method resolution, '
                                 'statement CFG with short-circuit test atoms and typed exception edges, dominance and must-pass-through, '
                                 'bounded path enumeration with consistent atom valuation, table extraction (spaghetti/automat), '
                                 'constant/shape folding; the sources are first brought into a normal form in memory (private names canonicalised against a recorded '
                                 'vocabulary, un-anchored helpers inlined, extracted variables written back, three idioms desugared) so that behaviour-preserving '
                                 'clean-ups keep what the rules look at; thorough tier adds an in-memory self-test of every rule: hand-written mutants, '
                                 'benign twins, and 199 behaviour-preserving patches written by independent sub-agents; a rule that lost an anchor in a run reports what it misses as undecided (exit 2), not as a violation')],
    checks=checks,
    notes=NOTES,
    not_applicable=na,
)
json.dump(man, open('/verif/MANIFEST.json', 'w'), indent=1)
print('claimed', claimed, 'na', [x['property_id'] for x in na])
