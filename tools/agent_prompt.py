#!/venv/bin/python
"""Print the prompt for a seeding sub-agent: property text + scratch worktree only."""
import json, sys
pid = sys.argv[1]
for l in open('/verif/properties.jsonl'):
    p = json.loads(l)
    if p['id'] == pid:
        break
print('''You are helping to evaluate a verification tool by writing realistic *regressions* for an open-source Python project (meejah/txtorcon, a Twisted client for Tor's control protocol).

Your scratch copy of the repository is the git worktree at /tmp/wt/{id} . Work ONLY there and in /tmp/seed/{id}/ . Do not read, list or modify anything under /repo or /verif (those are off limits), and do not commit anything.

The property under attack:

  Title: {title}
  Statement: {statement}
  Quantified over: {quant}

Task: produce TWO different, independent source changes to the library code under /tmp/wt/{id}/txtorcon/ (not the tests), each of which
  (a) breaks the property above for some input / history / schedule / fault in its quantifier,
  (b) still imports, and still passes the ENTIRE existing test suite unchanged (run it: `cd /tmp/wt/{id} && /venv/bin/python -m pytest -q -p no:cacheprovider --timeout=900 test/` ; 678 tests pass on the unmodified tree, 3 fail for unrelated reasons (root user) - the same set must pass after your change),
  (c) is the kind of plausible mistake or "simplification" a contributor might really make (an off-by-one, a dropped reset, a reordered step, a guard loosened, a cleanup moved, two sites that each look fine alone), NOT an obviously sabotaged line, and
  (d) needs something specific to manifest - a particular interleaving, a fault at a particular point, a multi-step sequence, an unusual input, or two cooperating sites - rather than something ordinary use would expose at once.
Prefer changes located in the mechanisms that implement the property (read the code to find them). The two changes should attack different clauses/mechanisms of the property.

For each change N in (1, 2) write into /tmp/seed/{id}/N/ :
  - patch.diff : output of `git -C /tmp/wt/{id} diff` containing ONLY that change (reset the worktree with `git -C /tmp/wt/{id} checkout -- .` between the two changes),
  - demo.py : a small standalone program (run as `cd <tree> && PYTHONPATH=<tree> /venv/bin/python /tmp/seed/{id}/N/demo.py`, importing txtorcon from the current directory; use twisted test helpers such as twisted.internet.testing.StringTransport / twisted.internet.task.Clock, no network, no real Tor) that exits 0 and prints OK on the unmodified tree and exits non-zero (assertion failure) on the tree with the change applied. Verify both outcomes yourself.
  - notes.md : 5-10 lines: which clause of the property breaks, what exactly is needed for it to manifest, and the test-suite result you observed with the change applied.

Finish by leaving the worktree clean (`git -C /tmp/wt/{id} checkout -- .`). Reply with a short summary of the two changes (file, function, one sentence each).'''.format(
    id=pid, title=p['title'], statement=p['statement'], quant=p['quantifier']['text']))
