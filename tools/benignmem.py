#!/venv/bin/python
"""benignmem.py <dir with Cxx/n/patch.diff, or /verif/benign> [root]: apply every behaviour-preserving patch IN MEMORY and run
the quick rules of all 20 properties on it (16-wide); print every non-silent verdict.  (That the patches keep the pinned suite
green is established once, separately, with tools/benign_suite.py.)"""
import glob
import os
import sys
sys.path.insert(0, '/verif')
from txsa.selftest import apply_unified_diff
from txsa.index import Index, AnchorVanished
from txsa.report import Run
from txsa import rules as rules_pkg
base = sys.argv[1]
root = sys.argv[2] if len(sys.argv) > 2 else '/repo'
PROPS = ['C%02d' % i for i in range(1, 21)]


def work(job):
    name, prop, ov = job
    try:
        r = Run(prop, Index(root, overrides=ov), 'quick')
        rules_pkg.run_rules(r)
        return name, prop, [(f.key, f.message[:200]) for f in r.findings], [u['what'][:200] for u in r.undecided]
    except AnchorVanished as e:
        return name, prop, [], ['anchor vanished: %s' % e] * 50
    except Exception as e:
        return name, prop, [], ['ERROR %s: %s' % (type(e).__name__, e)] * 50


def main():
    base_keys = {}
    for p in PROPS:
        r = Run(p, Index(root), 'quick')
        rules_pkg.run_rules(r)
        base_keys[p] = (set(f.key for f in r.findings), len(r.undecided))
    jobs = []
    pats = sorted(glob.glob(os.path.join(base, '*', '*', 'patch.diff'))) + sorted(glob.glob(os.path.join(base, '*', 'patch.diff')))
    names = []
    for pf in pats:
        name = os.path.relpath(os.path.dirname(pf), base)
        ov = apply_unified_diff(root, open(pf).read())
        if ov is None:
            print('%s: patch does not apply (skipped)' % name)
            continue
        names.append(name)
        for p in PROPS:
            jobs.append((name, p, ov))
    import multiprocessing as mp
    from concurrent.futures import ProcessPoolExecutor
    res = {}
    with ProcessPoolExecutor(max_workers=16, mp_context=mp.get_context('fork')) as ex:
        for name, prop, fs, us in ex.map(work, jobs, chunksize=4):
            new = [f for f in fs if f[0] not in base_keys[prop][0]]
            if new or len(us) > base_keys[prop][1]:
                res.setdefault(name, []).append((prop, new, us))
    silent = 0
    for name in names:
        if name not in res:
            silent += 1
            continue
        print(name)
        for prop, new, us in res[name]:
            for k, m in new[:3]:
                print('    %s VIOLATION %s :: %s' % (prop, k, m[:160]))
            for u in sorted(set(us))[:2]:
                print('    %s UNDECIDED %s' % (prop, u[:200]))
    print('patches %d silent %d noisy %d' % (len(names), silent, len(names) - silent))


main()
