#!/venv/bin/python
"""Re-run every stored seed against the current /repo and checks: apply (3-way if needed), ./tx check, revert."""
import glob, json, os, subprocess, sys
def sh(cmd, cwd=None):
    p = subprocess.run(cmd, shell=True, cwd=cwd, capture_output=True, text=True)
    return p.returncode, p.stdout + p.stderr
rc, out = sh('git -C /repo status --porcelain --untracked-files=no')
assert out.strip() == '', 'repo dirty'
bad = 0
for d in sorted(glob.glob('/verif/seeded/*/')):
    name = d.rstrip('/').split('/')[-1]
    meta = json.load(open(d + 'meta.json'))
    prop = meta['property']
    rc, out = sh('git -C /repo apply %spatch.diff' % d)
    if rc != 0:
        rc, out = sh('git -C /repo apply -3 %spatch.diff' % d)
    if rc != 0:
        print('%-8s PATCH-DOES-NOT-APPLY (tree moved on): %s' % (name, out.strip().splitlines()[-1] if out.strip() else ''))
        sh('git -C /repo reset -q; git -C /repo checkout -- .')
        bad += 1
        continue
    try:
        rc, out = sh('./tx check %s --no-evidence' % prop, cwd='/verif')
        viol = [l for l in out.splitlines() if l.startswith('VIOLATION')]
        print('%-8s %s rc=%d violations=%d' % (name, prop, rc, len(viol)))
        if rc != 1:
            bad += 1
    finally:
        sh('git -C /repo reset -q; git -C /repo checkout -- .')
print('undetected or inapplicable:', bad)
sys.exit(1 if bad else 0)
