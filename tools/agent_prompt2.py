#!/venv/bin/python
"""Round-2 seeding prompt: same as round 1 plus a list of changes already collected (to be avoided)."""
import glob, json, re, subprocess, sys
pid = sys.argv[1]
base = subprocess.run(['/verif/tools/agent_prompt.py', pid], capture_output=True, text=True).stdout
base = base.replace('/tmp/wt/', '/tmp/wt9/').replace('/tmp/seed/', '/tmp/seed9/')
known = []
for f in sorted(glob.glob('/verif/seeded/%s-*/meta.json' % pid)):
    m = json.load(open(f))
    notes = ' '.join(m.get('needs_to_manifest', '').split())
    known.append('  - ' + re.sub(r'^#+\s*', '', notes)[:330])
extra = '''
Changes of the following kinds have ALREADY been collected for this property; do not repeat them or close variants of them - attack other clauses, other functions, or other mechanisms of the property:
%s
Do NOT use `git stash` (the stash is shared by all worktrees of the repository and other agents are working in sibling worktrees): to go back and forth between the clean and the changed tree, save your change with `git diff > file` and use `git apply file` / `git apply -R file` or `git checkout -- .`.
Also avoid simply reverting a recent "fix:" commit of the repository (see `git -C /tmp/wt9/%s log --oneline | head -40`): those are known too.
''' % ('\n'.join(known), pid)
print(base.replace('For each change N in (1, 2) write', extra + '\nFor each change N in (1, 2) write'))
