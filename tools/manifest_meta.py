"""Per-property manifest texts."""
NOTES = ('All checks are static: ./tx parses /repo/txtorcon/*.py with ast on every run and decides structural '
         'necessary conditions of each property (see DESIGN.md). Exit 0 holds / known finding, 1 VIOLATION, '
         '2 ANALYSIS-INCOMPLETE (anchor vanished or shape outside the recognised idioms; never reported as a violation).')
NOT_APPLICABLE = {}
_L = ('Static decision of the structural clauses of the property (necessary conditions visible in the code shape on every path); '
      'not a proof of the behaviour. ')
_N = ('Trusted: CPython ast; the txsa engine; stated Twisted/automat semantics (DESIGN 3.3); spec oracles (DESIGN App. A). '
      'Not decided: ')
META = {
 'C01': dict(technique='who-may-call + mutation-site enumeration + dominance + path enumeration over status-code ordering classes + FSM table x abstract line classes',
             level=_L + 'All paths of queue_command/_maybe_issue_command/_broadcast_response/lineReceived and the accumulate handlers are enumerated; '
                   'the status code is covered by one representative per ordering class of the constants it is compared with.',
             note=_N + 'byte-exact reply text, behaviour on ill-formed server output, segmentation (delegated to LineOnlyReceiver).'),
 'C02': dict(technique='path reachability under 6xx code class + iteration-snapshot rule + guarded store/delete pairing with SETEVENTS',
             level=_L + 'Every handler that can call a per-line callback is enumerated under the 6xx class; Event fan-out, isolation, and the SETEVENTS name set are checked at every site.',
             note=_N + 'exact event payload slicing, delivery order among listeners.'),
 'C03': dict(technique='handler post-condition by path enumeration + slot typestate (must-pass-through) + dominance + one-shot latch shape',
             level=_L + 'connectionLost consults neither byte offset nor machine state, so a per-call post-condition on all its paths covers every crash point; the in-flight slot typestate is inductive over later submissions.',
             note=_N + 'timing; Twisted calling connectionLost exactly once.'),
}

META.update({
 'C04': dict(technique='call-graph command vocabulary + exhaustive path/valuation enumeration of method selection + dominance (proof behind verified hash) + taint of the raw cookie',
             level=_L + 'All subsets of advertised methods x cookie-read outcome x password provider are covered through the tests _do_authenticate applies; HMAC keys/message compared with control-spec 3.24.',
             note=_N + 'hash arithmetic, unescaping of particular paths, nonce freshness beyond os.urandom(32), server behaviour beyond failed Deferreds.'),
 'C05': dict(technique='automat transition-table obligations + dominance of buffer consumption by length tests + sibling agreement of reply parsers + one-shot latch shape',
             level=_L + 'Every upon() row, every parser path and every consumption site is examined; segmentation shows up only as "how many bytes are buffered when a parser runs", which the length-guard rule covers.',
             note=_N + 'byte-for-byte relaying inside Twisted/portforward.'),
 'C06': dict(technique='constant folding of struct formats and headers against RFC 1928 under every request type x address family (path enumeration over the family atom)',
             level=_L + 'Each packer is evaluated for IPv4/IPv6/hostname targets; format width, ATYP, CMD, byte order and encoder family must agree.',
             note=_N + 'nothing value-level beyond constants; struct.pack semantics trusted. One known finding (CONNECT/IPv6 truncation pinned by test_socks_ipv6).'),
 'C07': dict(technique='abstract interpretation of Stream.update over (circuit None/Some x listed/unlisted) for every stream state incl. exceptional exits + who-writes + index-maintenance call graph',
             level=_L + 'Each event is one update() call; the attachment invariant is shown preserved by every path from every invariant state, which is inductive over all histories.',
             note=_N + 'field values (purpose, addresses); Tor re-attaching without DETACHED.'),
 'C08': dict(technique='path enumeration over state names: multiset of listener fan-outs vs oracle + Deferred-chain shape of close() + one-shot latch + pending-waiter overwrite rule',
             level=_L + 'One update() per transition; close() return values are classified structurally (chained on the closing event or not).',
             note=_N + 'order of notifications among listeners, circuit_extend counts.'),
 'C09': dict(technique='path enumeration over the product of attacher-answer classes (None / marker / circuit x known x built) + slot discipline valuations + key agreement of the via-circuit registry',
             level=_L + 'All attacher answers are classified by exactly the tests the code applies, immediate and Deferred alike (one callback).',
             note=_N + 'interleavings of concurrent connections; PriorityAttacher heap order.'),
 'C10': dict(technique='effect analysis on the call graph (setters send nothing) + wrapped-mutator table + path enumeration of save() emission incl. zero-iteration loops + Deferred-chain rule for the pending set',
             level=_L + 'Every unit reachable from attribute access and list wrappers is checked for command effects; save() emission is enumerated per pending entry kind.',
             note=_N + 'validated values, SETCONF semantics inside Tor. One known finding (emptied list not emitted; pinned by test_log_set_pop/remove).'),
 'C11': dict(technique='store-site typing with reaching definitions and excluding-edge reachability + name-routing rule + sentinel flow to scalar parsers',
             level=_L + 'Every store into the option table is classified (wrapped / excluded by a dominating or intervening test / copied from the wrapped pending set).',
             note=_N + 'parsed values themselves.'),
 'C12': dict(technique='recognised-idiom check of the quoter (trigger characters, escape order) + sanitiser-on-path (CR/LF test before the write) + shape of the joined command',
             level=_L + 'Decides whether an escaping step exists for each critical character and whether a line break is ever rejected - facts that do not depend on the particular value.',
             note=_N + 'that Tor parses the escaped form back identically (round-trip over values).'),
 'C13': dict(technique='narrow structural claim: dot-unstuffing on the data-line path, key_hints agreement, parse_keywords leg shapes, maxsplit rule',
             level='Only the clauses visible in the code shape are decided (see DESIGN 5/C13); the core value-level claim (exact values for all printable text) is NOT decided by this technique.',
             note=_N + 'exact parsed values (unquote strips quotes, multi-line values gain a leading newline).'),
})

META.update({
 'C14': dict(technique='path enumeration over the full option product (key kind x version x detach x single-hop x auth) of _add_ephemeral_service: flags sent vs requested, key custody stores, command shape; dominance of the CR/LF guard',
             level=_L + 'All 64 option combinations are enumerated through the tests the code applies; the command is shown to be built from "ADD_ONION <key>" by appends only.',
             note=_N + 'port-string formatting over all port forms (_validate_ports).'),
 'C15': dict(technique='guard agreement across the legs of the HS_DESC handler + CFG with exception edges at yields (subscription removed on both continuations) + dominance (wait armed before the creating command)',
             level=_L + 'Each event is one call of the handler and the obligations are per leg, so every ordering of UPLOAD/UPLOADED/FAILED for own and foreign services is covered structurally.',
             note=_N + 'progress values. Known finding: the UPLOADED leg is not keyed on the service address (pinned by the tests).'),
 'C16': dict(technique='writer/resetter set agreement + reuse-hygiene rule for re-used Router objects + FSM table x line classes against dir-spec order (matcher ASTs interpreted on class representatives) + inverse-codec shape',
             level=_L + 'A document is "reset + one _create_router per entry", so a per-document post-condition is inductive over document sequences; the parser table is compared class-by-class with r a* s [w] [p].',
             note=_N + 'field values, nickname uniqueness semantics inside Tor.'),
 'C17': dict(technique='constant folding of the listener description + sibling agreement of the four create() legs + release-on-failure on the CFG with exception edges + refuse-before-start ordering',
             level=_L + 'Every yield after the local bind is a failure point with an exception edge; each must reach the exit only through stopListening.',
             note=_N + 'that Twisted binds what the endpoint string says.'),
 'C18': dict(technique='integrity (identity-preserving) flow from the GETCONF answer to the SETCONF arguments by reaching definitions + loop-shape rule for the fallback ports + sibling agreement of port matching',
             level=_L + 'The flow is per element and the content is never inspected except for the first token, so the check covers all existing SOCKSPort lists.',
             note=_N + 'connect outcomes themselves.'),
 'C19': dict(technique='guard-and-latch shape of the launch notifier + who-may-call + dominance (success under PROGRESS=100 after post_bootstrap, timeout cancelled) + path enumeration of timeout/exit handlers + guarded deletion registration',
             level=_L + 'Every ordering of {100%, exit, timeout, connect failure} ends in the same guard-and-latch function, so at-most-once follows from its shape and from nobody else firing the waiters.',
             note=_N + 'orderings of reactor events, Tor honouring TAKEOWNERSHIP.'),
 'C20': dict(technique='local type inference (timedelta) for scheduler delays + insert/remove key agreement + path enumeration over (pending timer x new mapping kind) for timer discipline',
             level=_L + 'Each ADDRMAP line is one update() call; its effect on the pending timer and on the key set is decided by the tests the code applies.',
             note=_N + 'clock arithmetic, local-time vs UTC forms.'),
})
