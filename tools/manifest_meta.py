"""Per-property manifest texts."""
NOTES = ('All checks are static: ./tx parses /repo/txtorcon/*.py with ast on every run and decides structural '
         'necessary conditions of each property (see DESIGN.md). Exit 0 holds / known finding, 1 VIOLATION, '
         '2 ANALYSIS-INCOMPLETE (anchor vanished or shape outside the recognised idioms; never reported as a violation).')
NOT_APPLICABLE = {}
_L = ('Static decision of the structural clauses of the property (necessary conditions visible in the code shape on every path); '
      'not a proof of the behaviour. ')
_N = ('Trusted: CPython ast; the txsa engine; stated Twisted/automat semantics (DESIGN 3.3); spec oracles (DESIGN App. A). '
      'Not decided: ')
META = {
 'C01': dict(technique='who-may-call + mutation-site enumeration + dominance + path enumeration over status-code ordering classes + FSM table x abstract line classes',
             level=_L + 'All paths of queue_command/_maybe_issue_command/_broadcast_response/lineReceived and the accumulate handlers are enumerated; '
                   'the status code is covered by one representative per ordering class of the constants it is compared with.',
             note=_N + 'byte-exact reply text, behaviour on ill-formed server output, segmentation (delegated to LineOnlyReceiver).'),
 'C02': dict(technique='path reachability under 6xx code class + iteration-snapshot rule + guarded store/delete pairing with SETEVENTS',
             level=_L + 'Every handler that can call a per-line callback is enumerated under the 6xx class; Event fan-out, isolation, and the SETEVENTS name set are checked at every site.',
             note=_N + 'exact event payload slicing, delivery order among listeners.'),
 'C03': dict(technique='handler post-condition by path enumeration + slot typestate (must-pass-through) + dominance + one-shot latch shape',
             level=_L + 'connectionLost consults neither byte offset nor machine state, so a per-call post-condition on all its paths covers every crash point; the in-flight slot typestate is inductive over later submissions.',
             note=_N + 'timing; Twisted calling connectionLost exactly once.'),
}
