#!/venv/bin/python
"""Validate a sub-agent seed and run the checks against it.
  seedcheck.py /tmp/seed/C03/1 C03 [name]
Steps (in a scratch worktree, never in /repo): demo passes on HEAD; apply patch; demo fails; pinned suite still passes.
Then apply the patch to /repo, run ./tx check <prop> (quick) and every other property, and revert /repo.
With a name, copy into /verif/seeded/<name>/ with meta.json."""
import json, os, shutil, subprocess, sys, tempfile
seed, prop = sys.argv[1], sys.argv[2]
name = sys.argv[3] if len(sys.argv) > 3 else None
first = sys.argv[4] if len(sys.argv) > 4 else None
patch = os.path.join(seed, 'patch.diff')
demo = os.path.join(seed, 'demo.py')
def sh(cmd, cwd=None, env=None):
    p = subprocess.run(cmd, shell=True, cwd=cwd, capture_output=True, text=True, env=env)
    return p.returncode, (p.stdout + p.stderr)
wt = tempfile.mkdtemp(prefix='seedwt-', dir='/tmp')
os.rmdir(wt)
rc, out = sh('git -C /repo worktree add -q --detach %s HEAD' % wt)
assert rc == 0, out
res = {}
try:
    env = dict(os.environ, PYTHONPATH=wt)
    rc, out = sh('/venv/bin/python %s' % demo, cwd=wt, env=env)
    res['demo_clean_rc'] = rc
    rc, out = sh('git apply %s' % patch, cwd=wt)
    if rc != 0:
        rc, out = sh('git apply -3 %s' % patch, cwd=wt)
    res['apply_rc'] = rc
    if rc != 0:
        print('PATCH DOES NOT APPLY', out)
    rc, out = sh('/venv/bin/python %s' % demo, cwd=wt, env=env)
    res['demo_patched_rc'] = rc
    res['demo_patched_tail'] = out.strip().splitlines()[-1:] if out.strip() else []
    rc, out = sh('/verif/tools/baseline.py %s' % wt)
    res['suite_rc'] = rc
    res['suite'] = out.strip().splitlines()[0]
    rc, diff = sh('git diff', cwd=wt)
finally:
    sh('git -C /repo worktree remove --force %s' % wt)
valid = res.get('demo_clean_rc') == 0 and res.get('apply_rc') == 0 and res.get('demo_patched_rc') != 0 and res.get('suite_rc') == 0
res['valid'] = valid
# run checks against /repo with the patch
tmpd = tempfile.mkdtemp()
pf = os.path.join(tmpd, 'p.diff')
open(pf, 'w').write(diff)
rc, out = sh('git -C /repo status --porcelain --untracked-files=no')
assert out.strip() == '', 'repo dirty: ' + out
rc, out = sh('git -C /repo apply %s' % pf)
assert rc == 0, out
detect = {}
try:
    for p in ['C%02d' % i for i in range(1, 21)]:
        if not os.path.exists('/verif/txsa/rules/%s.py' % p.lower()):
            continue
        rc, out = sh('./tx check %s --no-evidence' % p, cwd='/verif')
        lines = [l for l in out.splitlines() if l.startswith('VIOLATION') or 'ANALYSIS-INCOMPLETE' in l or '[R' in l]
        if rc != 0:
            detect[p] = dict(rc=rc, lines=lines[:6])
finally:
    sh('git -C /repo checkout -- .')
shutil.rmtree(tmpd)
res['detected_by'] = detect
print(json.dumps(res, indent=1))
if name and valid:
    dst = '/verif/seeded/%s' % name
    os.makedirs(dst, exist_ok=True)
    open(os.path.join(dst, 'patch.diff'), 'w').write(diff)
    shutil.copy(demo, os.path.join(dst, 'demo.py'))
    notes = open(os.path.join(seed, 'notes.md')).read() if os.path.exists(os.path.join(seed, 'notes.md')) else ''
    meta = dict(property=prop, needs_to_manifest=notes, verified=dict(
        demo_on_clean_tree='exit 0', demo_with_patch='exit %s' % res['demo_patched_rc'], pinned_suite=res['suite'],
        commands=['git worktree add <scratch> HEAD', 'PYTHONPATH=<scratch> /venv/bin/python demo.py  (clean: 0, patched: non-zero)',
                  '/verif/tools/baseline.py <scratch>  (678 stable tests pass)',
                  'git -C /repo apply patch.diff; ./tx check <each property>; git -C /repo checkout -- .']),
        detected_by=dict((k, v['lines']) for k, v in detect.items() if v['rc'] == 1),
        repo_head=sh('git -C /repo rev-parse --short HEAD')[1].strip(),
        detected_on_first_run=first)
    json.dump(meta, open(os.path.join(dst, 'meta.json'), 'w'), indent=1)
    print('stored', dst)
