#!/venv/bin/python
"""Print the prompt for a *benign-refactoring* sub-agent: property text + scratch worktree only.
The changes it returns must PRESERVE the property; they are used to measure false alarms of the checks."""
import json, sys
pid = sys.argv[1]
root = sys.argv[2] if len(sys.argv) > 2 else '/tmp/wtb'
out = sys.argv[3] if len(sys.argv) > 3 else '/tmp/benign'
for l in open('/verif/properties.jsonl'):
    p = json.loads(l)
    if p['id'] == pid:
        break
import glob
known = []
for d in sorted(glob.glob('/verif/benign/%s-b*' % pid)):
    try:
        t = ' '.join(open(d + '/notes.md').read().split())
    except OSError:
        continue
    known.append('  - ' + t[:320])
KNOWN = ''
if known:
    KNOWN = """
Clean-ups of the following kinds have ALREADY been collected for this property; do not repeat them or close variants - pick other functions of the mechanism, other kinds of restructuring (be inventive: split a function in two, merge two functions, turn a method into a property or a module-level function, replace a flag variable by control flow or the reverse, change a data structure's spelling (dict <-> attribute, tuple <-> small class), swap inlineCallbacks and explicit callbacks, reorder branches, change loop forms, introduce or remove intermediate variables, rename private names), and larger ones (20-80 changed lines) as long as they stay behaviour-preserving:
""" + '\n'.join(known) + '\n'
print('''You are helping to evaluate a verification tool for an open-source Python project (meejah/txtorcon, a Twisted client for Tor's control protocol). The tool is supposed to stay SILENT on code changes that keep a given property true. Your job is to write realistic, behaviour-preserving clean-up changes ("refactorings") of the code that implements the property, so that we can see whether the tool raises false alarms.

Your scratch copy of the repository is the git worktree at {root}/{id} . Work ONLY there and in {out}/{id}/ . Do not read, list or modify anything under /repo or /verif (those are off limits), do not commit anything, and do NOT use `git stash` (the stash is shared with other people's worktrees): to move between the clean and a changed tree use `git diff > file`, `git apply file`, `git apply -R file` or `git checkout -- .`.

The property that must KEEP holding:

  Title: {title}
  Statement: {statement}
  Quantified over: {quant}

First read the library code under {root}/{id}/txtorcon/ and find the functions / classes that implement this property (the "mechanism").

Task: produce THREE different, independent source changes to that mechanism code (library code only, not the tests), each of which
  (a) is the kind of clean-up a maintainer would plausibly merge: for example extracting a repeated block into a helper function or method, inlining a tiny helper, renaming locals / private attributes / private methods consistently, replacing an idiom by an equivalent one (if/else <-> early return, a loop <-> a comprehension, `not a == b` <-> `a != b`, try/except KeyError <-> membership test, % formatting <-> str.format, addCallback chains <-> inlineCallbacks or the reverse), re-ordering statements that are independent of each other, splitting or merging conditionals, moving a nested function to module level, adding logging / comments / type checks that cannot fire, replacing a dict-dispatch by if/elif or the reverse,
  (b) PRESERVES the behaviour the property talks about for EVERY input / history / schedule / fault in its quantifier - not just for the tests. Be strict with yourself: if you cannot argue equivalence for every case the property quantifies over, pick a different change. Do not change public API names or signatures.
  (c) still imports and still passes the ENTIRE existing test suite unchanged (run it: `cd {root}/{id} && /venv/bin/python -m pytest -q -p no:cacheprovider --timeout=900 test/` ; about 677-678 tests pass on the unmodified tree and 3 fail for unrelated reasons (root user) - the same set must pass after your change),
  (d) touches between roughly 5 and 60 lines, inside the mechanism of the property (a change somewhere unrelated tells us nothing).
{known}
Make the three changes different in kind (e.g. one helper extraction, one idiom replacement, one re-ordering/renaming) and, if the mechanism spans several functions, in different functions.

For each change N in (1, 2, 3) write into {out}/{id}/N/ :
  - patch.diff : output of `git -C {root}/{id} diff` containing ONLY that change (reset the worktree with `git -C {root}/{id} checkout -- .` between changes),
  - notes.md : 5-12 lines: what was changed, and the argument why every behaviour the property quantifies over is unchanged (mention the cases you considered: error paths, re-entrancy, ordering, empty / unusual inputs), plus the test-suite result you observed with the change applied.

Finish by leaving the worktree clean (`git -C {root}/{id} checkout -- .`, and delete untracked files your test runs created). Reply with a short summary of the three changes (file, function, one sentence each).'''.format(
    id=pid, root=root, out=out, known=KNOWN, title=p['title'], statement=p['statement'], quant=p['quantifier']['text']))
