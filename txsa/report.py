"""Run context: obligations, findings, known findings, evidence, exit protocol."""
import hashlib
import json
import os
import time

from .match import src

VERIF = os.path.dirname(os.path.dirname(os.path.abspath(__file__)))
KNOWN_FILE = os.path.join(VERIF, 'known_findings.json')

HOLDS, VIOLATION, UNDECIDED = 'holds', 'violation', 'undecided'


class Finding(object):
    def __init__(self, prop, rule, file, func, slot, line, message, path=None):
        self.prop, self.rule, self.file, self.func, self.slot = prop, rule, file, func, slot
        self.line, self.message, self.path = line, message, path

    @property
    def key(self):
        return '%s|%s::%s|%s' % (self.rule, self.file, self.func, self.slot)

    def as_dict(self):
        return dict(property=self.prop, rule=self.rule, file=self.file, function=self.func,
                    slot=self.slot, line=self.line, message=self.message, path=self.path,
                    key=self.key)


class Run(object):
    """One property check on one tree."""

    def __init__(self, prop, idx, tier='quick', seed=0):
        self.prop = prop
        self.idx = idx
        self.tier = tier
        self.seed = seed
        self.t0 = time.time()
        self.obligations = []      # dicts
        self.findings = []
        self.undecided = []
        self.counters = {}
        self.rules = {}            # rule id -> description
        self.units_analysed = set()
        self.paths_enumerated = 0
        self.floors = []           # (rule, what, found, floor)
        self.selftest = None
        self.notes = []

    # ---------------------------------------------------------------- API
    def rule(self, rid, text):
        self.rules[rid] = text

    def touch(self, unit):
        if unit is not None:
            self.units_analysed.add(getattr(unit, 'qual', str(unit)))

    def count(self, name, n=1):
        self.counters[name] = self.counters.get(name, 0) + n

    def floor(self, rid, what, found, floor):
        """instance floor: fewer matches than confirmed by hand => analysis broken."""
        self.floors.append((rid, what, found, floor))
        if found < floor:
            self.undecided.append(dict(rule=rid, where='-', what='instance floor: %s: found %d < %d'
                                       % (what, found, floor), found=found, floor=floor))

    def ob(self, rid, unit, node, what, verdict, slot=None, message=None, path=None, detail=None, absence=None):
        """Record one obligation. verdict: True (holds) / False (violation) / None (undecided)."""
        file = unit.file if hasattr(unit, 'file') else str(unit)
        func = unit.short if hasattr(unit, 'short') else '-'
        line = getattr(node, 'lineno', None) or getattr(unit, 'lineno', 0) or 0
        self.touch(unit if hasattr(unit, 'qual') else None)
        if verdict is not None and not isinstance(verdict, bool):
            raise TypeError('rule %s passed a non-boolean verdict %r for %r' % (rid, verdict, what))
        v = HOLDS if verdict is True else (VIOLATION if verdict is False else UNDECIDED)
        o = dict(rule=rid, where='%s:%d' % (file, line), function=func, obligation=what, verdict=v)
        if detail:
            o['detail'] = detail
        self.obligations.append(o)
        if verdict is False:
            f_ = Finding(self.prop, rid, file, func, slot or what, line, message or what, path)
            # "something is missing from this function" (reported at the function itself) vs. "this construct is wrong"
            # (absence=True: the rule says so itself - 'no dominating test found in front of this call' is a missing thing too)
            f_.absence = absence if absence is not None else (node is None or node is getattr(unit, 'node', object()))
            self.findings.append(f_)
        elif verdict is None:
            self.undecided.append(dict(rule=rid, where=o['where'], what=(message or what)))
        return verdict

    def undecide(self, rid, where, what):
        if any(u['rule'] == rid and u['what'] == what for u in self.undecided):
            return
        self.undecided.append(dict(rule=rid, where=where, what=what))

    # ------------------------------------------------------------- finish
    def settle(self):
        """A rule that lost an anchor or fell below an instance floor in this run did not recognise the code it judges: what it
        would report as *missing* from a function ("no X in f", reported at f itself) is then not asserted but handed on as
        undecided (exit 2), together with the reason.  A finding that points at a specific wrong construct stands."""
        def base(r):
            return set([r] + r.split('/'))
        lost = set()
        for u in self.undecided:
            # an instance floor missed by exactly one, with instances left, is what a *deletion* looks like (the regression itself);
            # losing all or several instances is what a restructuring the rule does not read looks like
            if 'floor' in u and u['found'] > 0 and u['floor'] - u['found'] == 1:
                continue
            lost |= base(u['rule'])
        lost.discard('-')
        if not lost:
            return
        keep = []
        seen = set()
        for f in self.findings:
            if base(f.rule) & lost and (getattr(f, 'absence', True) or os.environ.get('TXSA_DEMOTE_ALL')):
                if f.key not in seen:
                    seen.add(f.key)
                    self.undecided.append(dict(rule=f.rule, where='%s:%d' % (f.file, f.line),
                                               what='not asserted (the rule lost an anchor in this run): %s' % f.message[:300], demoted=f.key))
            else:
                keep.append(f)
        self.findings = keep

    def load_known(self):
        if not os.path.exists(KNOWN_FILE):
            return []
        with open(KNOWN_FILE) as f:
            data = json.load(f)
        return [e for e in data.get('findings', []) if e.get('property') == self.prop]

    def finish(self, write_evidence=True, quiet=False, evidence_dir=None, reports_dir=None):
        known = self.load_known()
        known_keys = dict((e['key'], e) for e in known if e.get('status') == 'known')
        out = []
        new, listed = [], []
        seen = set()
        for f in self.findings:
            if f.key in seen:
                continue
            seen.add(f.key)
            if f.key in known_keys:
                listed.append(f)
            else:
                new.append(f)
        stale = [k for k in known_keys if k not in seen]
        for f in listed:
            out.append('KNOWN-FINDING: property=%s %s %s::%s %s' % (self.prop, f.rule, f.file, f.func,
                                                                   known_keys[f.key].get('what', f.message)))
        for k in stale:
            out.append('STALE-KNOWN-FINDING: property=%s %s (listed but no longer occurs)' % (self.prop, k))
        reports_dir = reports_dir or os.path.join(VERIF, 'reports')
        for f in new:
            out.append('%s:%d: [%s] %s: %s' % (f.file, f.line, f.rule, f.func, f.message))
            if f.path:
                out.append('    path: %s' % f.path)
            digest = hashlib.sha256(f.key.encode()).hexdigest()[:12]
            rp = os.path.join(reports_dir, '%s-%s.json' % (self.prop, digest))
            try:
                os.makedirs(reports_dir, exist_ok=True)
                with open(rp, 'w') as fh:
                    json.dump(dict(finding=f.as_dict(), root=self.idx.root, tier=self.tier,
                                   files=self.idx.files_digest()), fh, indent=1, sort_keys=True)
            except OSError:
                pass
            out.append('VIOLATION property=%s replay=%s' % (self.prop, rp))
        for u in self.undecided:
            out.append('ANALYSIS-INCOMPLETE property=%s [%s] %s: %s' % (self.prop, u['rule'], u['where'], u['what']))
        if new:
            code = 1
        elif self.undecided:
            code = 2
        else:
            code = 0
        wall = time.time() - self.t0
        n_ob = len(self.obligations)
        n_ok = sum(1 for o in self.obligations if o['verdict'] == HOLDS)
        summary = ('%s tier=%s rules=%d obligations=%d discharged=%d violations=%d known=%d '
                   'undecided=%d units=%d paths=%d wall=%.2fs' %
                   (self.prop, self.tier, len(self.rules), n_ob, n_ok, len(new), len(listed),
                    len(self.undecided), len(self.units_analysed), self.paths_enumerated, wall))
        for n in self.notes:
            out.append('note: ' + n)
        out.append(summary)
        if not quiet:
            print('\n'.join(out))
        if write_evidence:
            self._write_evidence(evidence_dir or os.path.join(VERIF, 'evidence'), wall, new, listed, n_ob, n_ok)
        self.exit_code = code
        self.new, self.listed = new, listed
        return code

    def _write_evidence(self, evdir, wall, new, listed, n_ob, n_ok):
        os.makedirs(evdir, exist_ok=True)
        distinct = len(set((o['rule'], o['where'], o['obligation']) for o in self.obligations))
        # samples: spread over rules
        samples, per_rule = [], {}
        for o in self.obligations:
            c = per_rule.get(o['rule'], 0)
            if c < 2:
                samples.append(o)
                per_rule[o['rule']] = c + 1
        for o in self.obligations:
            if o['verdict'] != HOLDS and o not in samples:
                samples.append(o)
        cov = dict(
            explanation=('Static analysis of the current source of %s (ast parse, per-function CFG, '
                         'path enumeration, call resolution; nothing imported or executed). Rules applied: '
                         % self.idx.root) +
            ' | '.join('%s: %s' % (k, v) for k, v in sorted(self.rules.items())),
            rule=('one obligation = one rule instance at one construct (site x valuation x path); '
                  'distinct = distinct (rule, file:line, obligation text)'),
            obligations=n_ob, discharged=n_ok,
            undecided=len(self.undecided),
            known_findings=[f.key for f in listed],
            new_violations=[f.as_dict() for f in new],
            evaluations=max(n_ob, 1), distinct_nontrivial=distinct,
            samples=samples[:40],
            rules=sorted(self.rules),
            instance_floors=[dict(rule=r, what=w, found=f, floor=fl) for r, w, f, fl in self.floors],
            functions_analysed=sorted(self.units_analysed),
            paths_enumerated=self.paths_enumerated,
            counters=self.counters,
            files=self.idx.files_digest(),
            checker_cmd='./tx check %s --tier %s' % (self.prop, self.tier),
            trusted_base=['CPython ast parser',
                          'txsa CFG/path engine (this repository, /verif/txsa)',
                          'reading of Twisted/automat/spaghetti semantics stated in DESIGN.md 3.3',
                          'the behaviour-preserving source normalisation in txsa/canon.py + txsa/normalize.py (conservative by construction; checked against 279 seeded regressions, 2825 mutants and 114 behaviour-preserving patches)',
                          'spec oracles transcribed in DESIGN.md Appendix A'],
            exhaustive=False,
        )
        # what the normal form did to the sources of this run before the rules looked at them (DESIGN 3.1 / 11.5)
        cov['normal_form'] = dict(
            names_canonicalised=[list(x) for x in getattr(self.idx, 'canonicalised', [])],
            helpers_inlined=[list(x) for x in getattr(self.idx, 'inlined_helpers', [])],
            extracted_locals_written_back=[list(x) for x in getattr(self.idx, 'unextracted', [])],
            constants_propagated=[list(x) for x in getattr(self.idx, 'propagated_constants', [])],
            namedtuples_desugared=[list(x) for x in getattr(self.idx, 'namedtuples', [])],
            statements_desugared=getattr(self.idx, 'desugared', 0),
        )
        if self.selftest is not None:
            cov['selftest'] = self.selftest
        if self.notes:
            cov['notes'] = self.notes
        ev = dict(property_id=self.prop, tier=self.tier, seed=self.seed, level='other', coverage=cov,
                  assumptions=['Necessary structural conditions of the property are decided, not the '
                               'behaviour itself; see MANIFEST level_note and DESIGN.md section 5 for '
                               'the clauses not decided.'],
                  wall_s=round(wall, 3), violations=len(new))
        tmp = os.path.join(evdir, '%s.json.tmp' % self.prop)
        with open(tmp, 'w') as f:
            json.dump(ev, f, indent=1, sort_keys=True, default=str)
        os.replace(tmp, os.path.join(evdir, '%s.json' % self.prop))


def node_text(node, limit=100):
    t = src(node).replace('\n', ' ')
    return t if len(t) <= limit else t[:limit - 3] + '...'
