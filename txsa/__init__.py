"""txsa - repository-specific static analysis for txtorcon's 20 semantic properties.

Pure standard library.  Nothing under the analysed root is imported or executed:
all facts come from `ast` parses of the files `setup.py` ships.
"""
__all__ = ["index", "cfg", "match", "report"]
