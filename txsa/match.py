"""AST helpers: dotted names, local walks, constant folding, string shapes."""
import ast

FUNC_TYPES = (ast.FunctionDef, ast.AsyncFunctionDef, ast.Lambda)


def src(node):
    if node is None:
        return ''
    try:
        return ast.unparse(node)
    except Exception:
        return '<%s>' % type(node).__name__


def dotted(node):
    """'self.transport.write' for Name/Attribute chains; None otherwise.
    self.__dict__['x'] is read as self.x."""
    parts = []
    while True:
        if isinstance(node, ast.Attribute):
            parts.append(node.attr)
            node = node.value
        elif isinstance(node, ast.Name):
            parts.append(node.id)
            break
        elif (isinstance(node, ast.Subscript) and isinstance(node.value, ast.Attribute)
              and node.value.attr == '__dict__'
              and isinstance(node.slice, ast.Constant) and isinstance(node.slice.value, str)):
            parts.append(node.slice.value)
            node = node.value.value
        else:
            return None
    return '.'.join(reversed(parts))


def walk_local(root, descend_root=True):
    """ast.walk that does not descend into nested function/lambda/class bodies
    (the nested def node itself is yielded).  The root is descended into when
    `descend_root` (so passing a FunctionDef walks its own body)."""
    stack = [(root, True)]
    while stack:
        n, is_root = stack.pop()
        yield n
        if isinstance(n, FUNC_TYPES + (ast.ClassDef,)) and not (is_root and descend_root):
            continue
        for c in ast.iter_child_nodes(n):
            stack.append((c, False))


def walk_unit(unit):
    """All nodes of a unit's own body (not nested units)."""
    for st in unit.body:
        for n in walk_local(st, descend_root=False):
            yield n


def calls_in(unit_or_node, name=None, suffix=None):
    """Call nodes in a unit (own body only), optionally filtered by the dotted
    callee text (exact `name`) or its last component(s) (`suffix`)."""
    it = walk_unit(unit_or_node) if hasattr(unit_or_node, 'body') and hasattr(unit_or_node, 'qual') \
        else walk_local(unit_or_node)
    out = []
    for n in it:
        if isinstance(n, ast.Call):
            d = dotted(n.func)
            if name is not None and d != name:
                continue
            if suffix is not None and not (d is not None and (d == suffix or d.endswith('.' + suffix))):
                continue
            out.append(n)
    out.sort(key=lambda c: (c.lineno, c.col_offset))
    return out


def callee_attr(call):
    """last attribute / name of the callee ('write' for a.b.write(...))."""
    f = call.func
    if isinstance(f, ast.Attribute):
        return f.attr
    if isinstance(f, ast.Name):
        return f.id
    return None


def receiver(call):
    f = call.func
    if isinstance(f, ast.Attribute):
        return f.value
    return None


NOCONST = object()


def const(node, env=None):
    """Fold a constant expression. Returns NOCONST when not constant."""
    if isinstance(node, ast.Constant):
        return node.value
    if isinstance(node, ast.Name) and env and node.id in env:
        return env[node.id]
    if isinstance(node, ast.UnaryOp):
        v = const(node.operand, env)
        if v is NOCONST:
            return NOCONST
        try:
            if isinstance(node.op, ast.USub):
                return -v
            if isinstance(node.op, ast.Not):
                return not v
            if isinstance(node.op, ast.UAdd):
                return +v
        except Exception:
            return NOCONST
        return NOCONST
    if isinstance(node, ast.BinOp):
        l, r = const(node.left, env), const(node.right, env)
        if l is NOCONST or r is NOCONST:
            return NOCONST
        try:
            if isinstance(node.op, ast.Add):
                return l + r
            if isinstance(node.op, ast.Sub):
                return l - r
            if isinstance(node.op, ast.Mult):
                if isinstance(l, (str, bytes)) or isinstance(r, (str, bytes)):
                    if max(abs(x) for x in (l, r) if isinstance(x, int)) > 4096:
                        return NOCONST
                return l * r
            if isinstance(node.op, ast.Pow):
                if isinstance(r, int) and abs(r) > 64:
                    return NOCONST
                return l ** r
            if isinstance(node.op, ast.LShift):
                return l << r
            if isinstance(node.op, ast.FloorDiv):
                return l // r
            if isinstance(node.op, ast.Mod) and isinstance(l, int):
                return l % r
        except Exception:
            return NOCONST
        return NOCONST
    if isinstance(node, (ast.List, ast.Tuple)):
        vals = [const(e, env) for e in node.elts]
        if any(v is NOCONST for v in vals):
            return NOCONST
        return vals if isinstance(node, ast.List) else tuple(vals)
    if isinstance(node, ast.JoinedStr):
        out = ''
        for v in node.values:
            c = const(v, env)
            if c is NOCONST or not isinstance(c, str):
                return NOCONST
            out += c
        return out
    return NOCONST


class Hole(object):
    """A non-constant piece of a string shape."""
    def __init__(self, node):
        self.node = node

    def __repr__(self):
        return '{%s}' % src(self.node)


def shape(node, defs=None, depth=0):
    """String/bytes *shape*: list of constant pieces and Holes.
    `defs` maps a local name to the list of expressions that may define it
    (only used when there is exactly one)."""
    if depth > 8:
        return [Hole(node)]
    c = const(node)
    if c is not NOCONST and isinstance(c, (str, bytes)):
        return [c.decode('latin-1') if isinstance(c, bytes) else c]
    if isinstance(node, ast.BinOp) and isinstance(node.op, ast.Add):
        return _merge(shape(node.left, defs, depth + 1) + shape(node.right, defs, depth + 1))
    if isinstance(node, ast.BinOp) and isinstance(node.op, ast.Mod):
        fmt = const(node.left)
        if isinstance(fmt, (str, bytes)):
            if isinstance(fmt, bytes):
                fmt = fmt.decode('latin-1')
            args = node.right.elts if isinstance(node.right, ast.Tuple) else [node.right]
            return _percent_shape(fmt, args)
    if isinstance(node, ast.JoinedStr):
        out = []
        for v in node.values:
            if isinstance(v, ast.Constant):
                out.append(v.value)
            elif isinstance(v, ast.FormattedValue):
                out.append(Hole(v.value))
        return _merge(out)
    if isinstance(node, ast.Call) and isinstance(node.func, ast.Attribute):
        if node.func.attr == 'format':
            fmt = const(node.func.value)
            if isinstance(fmt, (str, bytes)):
                if isinstance(fmt, bytes):
                    fmt = fmt.decode('latin-1')
                return _format_shape(fmt, node)
        if node.func.attr in ('encode', 'decode'):
            return shape(node.func.value, defs, depth + 1)
    if isinstance(node, ast.Name) and defs is not None:
        d = defs.get(node.id)
        if d is not None and len(d) == 1:
            return shape(d[0], defs, depth + 1)
    return [Hole(node)]


def _merge(pieces):
    out = []
    for p in pieces:
        if isinstance(p, str) and out and isinstance(out[-1], str):
            out[-1] += p
        elif isinstance(p, str) and p == '':
            continue
        else:
            out.append(p)
    return out


def _percent_shape(fmt, args):
    out, i, ai = [], 0, 0
    buf = ''
    while i < len(fmt):
        ch = fmt[i]
        if ch == '%' and i + 1 < len(fmt):
            if fmt[i + 1] == '%':
                buf += '%'
                i += 2
                continue
            j = i + 1
            while j < len(fmt) and fmt[j] in '0123456789.-+ #':
                j += 1
            if buf:
                out.append(buf)
                buf = ''
            out.append(Hole(args[ai]) if ai < len(args) else Hole(None))
            ai += 1
            i = j + 1
            continue
        buf += ch
        i += 1
    if buf:
        out.append(buf)
    return _merge(out)


def _format_shape(fmt, call):
    out, i, auto = [], 0, 0
    buf = ''
    kw = dict((k.arg, k.value) for k in call.keywords if k.arg)
    while i < len(fmt):
        ch = fmt[i]
        if ch == '{':
            if fmt[i:i + 2] == '{{':
                buf += '{'
                i += 2
                continue
            j = fmt.index('}', i)
            field = fmt[i + 1:j].split(':')[0].split('!')[0]
            if buf:
                out.append(buf)
                buf = ''
            if field == '':
                arg = call.args[auto] if auto < len(call.args) else None
                auto += 1
            elif field.isdigit():
                arg = call.args[int(field)] if int(field) < len(call.args) else None
            else:
                arg = kw.get(field.split('.')[0].split('[')[0])
            out.append(Hole(arg))
            i = j + 1
            continue
        if ch == '}' and fmt[i:i + 2] == '}}':
            buf += '}'
            i += 2
            continue
        buf += ch
        i += 1
    if buf:
        out.append(buf)
    return _merge(out)


def shape_prefix(sh):
    """Leading constant text of a shape ('' if it starts with a hole)."""
    if sh and isinstance(sh[0], str):
        return sh[0]
    return ''


def shape_text(sh):
    return ''.join(p if isinstance(p, str) else repr(p) for p in sh)


def names_in(node):
    return set(n.id for n in ast.walk(node) if isinstance(n, ast.Name))


def mentions(node, text):
    """does any Name/Attribute chain inside `node` equal `text` or start with text + '.'?"""
    for n in ast.walk(node):
        if isinstance(n, (ast.Attribute, ast.Name, ast.Subscript)):
            d = dotted(n)
            if d is not None and (d == text or d.startswith(text + '.')):
                return True
    return False


def assigned_targets(stmt):
    """dotted texts (or unparse for subscripts) written by a simple statement."""
    out = []

    def tgt(t):
        if isinstance(t, (ast.Tuple, ast.List)):
            for e in t.elts:
                tgt(e)
        elif isinstance(t, ast.Starred):
            tgt(t.value)
        else:
            d = dotted(t)
            out.append(d if d is not None else src(t))
    if isinstance(stmt, ast.Assign):
        for t in stmt.targets:
            tgt(t)
    elif isinstance(stmt, (ast.AugAssign, ast.AnnAssign)):
        tgt(stmt.target)
    elif isinstance(stmt, ast.For):
        tgt(stmt.target)
    elif isinstance(stmt, ast.With):
        for it in stmt.items:
            if it.optional_vars is not None:
                tgt(it.optional_vars)
    elif isinstance(stmt, ast.Delete):
        for t in stmt.targets:
            tgt(t)
    for n in ast.walk(stmt) if not isinstance(stmt, FUNC_TYPES) else []:
        if isinstance(n, ast.NamedExpr):
            tgt(n.target)
    return out


NOISE_ROOTS = ('log', 'txtorlog', 'logging', 'logger', 'print', 'warnings', 'warn')


def is_noise(stmt):
    """a statement with no bearing on any rule: docstring, pass, or a bare logging call"""
    if isinstance(stmt, ast.Pass):
        return True
    if isinstance(stmt, ast.Expr):
        v = stmt.value
        if isinstance(v, ast.Constant):
            return True
        if isinstance(v, ast.Call):
            d = dotted(v.func)
            return d is not None and d.split('.')[0] in NOISE_ROOTS
    return False


def is_none(node):
    return isinstance(node, ast.Constant) and node.value is None


def loc(unit_or_file, node):
    f = unit_or_file.file if hasattr(unit_or_file, 'file') else unit_or_file
    return '%s:%d' % (f, getattr(node, 'lineno', 0))


# ---------------------------------------------------------------- tiny evaluator
class Unknown(object):
    def __repr__(self):
        return '?'


UNKNOWN = Unknown()


def eval_small(e, env):
    """Evaluate a comparison-style expression over an environment mapping dotted
    texts to concrete representative values. Returns UNKNOWN when the
    expression consults anything else.  Used to decide tests that look at a
    value *only through comparisons with constants* for one representative of
    each ordering class."""
    if isinstance(e, ast.Constant):
        return e.value
    if isinstance(e, (ast.Call, ast.Subscript)):
        k = src(e)
        if k in env:
            return env[k]
        if isinstance(e, ast.Call) and isinstance(e.func, ast.Name) and e.func.id in ('bool', 'len', 'int', 'str', 'abs') \
                and len(e.args) == 1 and not e.keywords:
            v = eval_small(e.args[0], env)
            if v is UNKNOWN:
                return UNKNOWN
            try:
                return {'bool': bool, 'len': len, 'int': int, 'str': str, 'abs': abs}[e.func.id](v)
            except Exception:
                return UNKNOWN
        if isinstance(e, ast.Call) and isinstance(e.func, ast.Name) and e.func.id == 'range' and 1 <= len(e.args) <= 3 and not e.keywords:
            vs = [eval_small(a, env) for a in e.args]
            if any(v is UNKNOWN or not isinstance(v, int) or isinstance(v, bool) for v in vs):
                return UNKNOWN
            try:
                return range(*vs)
            except Exception:
                return UNKNOWN
    d = dotted(e)
    if d is not None:
        if d in env:
            return env[d]
        return UNKNOWN
    if isinstance(e, ast.UnaryOp) and isinstance(e.op, ast.Not):
        v = eval_small(e.operand, env)
        return UNKNOWN if v is UNKNOWN else (not v)
    if isinstance(e, ast.UnaryOp) and isinstance(e.op, ast.USub):
        v = eval_small(e.operand, env)
        return UNKNOWN if v is UNKNOWN else -v
    if isinstance(e, ast.BoolOp):
        vals = [eval_small(v, env) for v in e.values]
        if isinstance(e.op, ast.And):
            for v in vals:
                if v is UNKNOWN:
                    break
                if not v:
                    return v
            else:
                return vals[-1]
            if any(v is not UNKNOWN and not v for v in vals):
                return False
            return UNKNOWN
        for v in vals:
            if v is UNKNOWN:
                break
            if v:
                return v
        else:
            return vals[-1]
        if any(v is not UNKNOWN and v for v in vals):
            return True
        return UNKNOWN
    if isinstance(e, ast.Compare):
        left = eval_small(e.left, env)
        if left is UNKNOWN:
            return UNKNOWN
        for op, right in zip(e.ops, e.comparators):
            r = eval_small(right, env)
            if r is UNKNOWN:
                return UNKNOWN
            try:
                if isinstance(op, ast.Eq):
                    ok = left == r
                elif isinstance(op, ast.NotEq):
                    ok = left != r
                elif isinstance(op, ast.Lt):
                    ok = left < r
                elif isinstance(op, ast.LtE):
                    ok = left <= r
                elif isinstance(op, ast.Gt):
                    ok = left > r
                elif isinstance(op, ast.GtE):
                    ok = left >= r
                elif isinstance(op, ast.Is):
                    ok = left is r
                elif isinstance(op, ast.IsNot):
                    ok = left is not r
                elif isinstance(op, ast.In):
                    ok = left in r
                elif isinstance(op, ast.NotIn):
                    ok = left not in r
                else:
                    return UNKNOWN
            except TypeError:
                return UNKNOWN
            if not ok:
                return False
            left = r
        return True
    if isinstance(e, (ast.Tuple, ast.List, ast.Set)):
        vals = [eval_small(x, env) for x in e.elts]
        if any(v is UNKNOWN for v in vals):
            return UNKNOWN
        return vals
    if isinstance(e, ast.BinOp) and isinstance(e.op, (ast.FloorDiv, ast.Div, ast.Mod, ast.Sub, ast.Add)):
        l, r = eval_small(e.left, env), eval_small(e.right, env)
        if l is UNKNOWN or r is UNKNOWN:
            return UNKNOWN
        try:
            if isinstance(e.op, ast.FloorDiv):
                return l // r
            if isinstance(e.op, ast.Div):
                return l / r
            if isinstance(e.op, ast.Mod):
                return l % r
            if isinstance(e.op, ast.Sub):
                return l - r
            return l + r
        except Exception:
            return UNKNOWN
    return UNKNOWN


