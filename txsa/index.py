"""SourceIndex: parse the shipped package, table of modules / classes / units.

A *unit* is a FunctionDef, AsyncFunctionDef or Lambda.  Nested functions are
separate units linked to their parent.
"""
import ast
import hashlib
import os


class AnchorVanished(Exception):
    """A construct a rule is anchored in no longer exists: analysis broken (exit 2)."""


class Undecided(Exception):
    """A rule met a shape outside what it recognises: neither pass nor violation."""


FUNC_TYPES = (ast.FunctionDef, ast.AsyncFunctionDef, ast.Lambda)


class Unit(object):
    def __init__(self, node, module, cls, parent, name):
        self.node = node
        self.module = module
        self.cls = cls
        self.parent = parent
        self.name = name
        self.children = []
        if parent is not None:
            self.short = parent.short + '.' + name
        elif cls is not None:
            self.short = cls.name + '.' + name
        else:
            self.short = name
        self.qual = module.name + '.' + self.short
        self.file = module.rel

    @property
    def lineno(self):
        return self.node.lineno

    @property
    def body(self):
        if isinstance(self.node, ast.Lambda):
            return [ast.Expr(value=self.node.body, lineno=self.node.lineno,
                             col_offset=self.node.col_offset)]
        return self.node.body

    @property
    def params(self):
        a = self.node.args
        names = [x.arg for x in getattr(a, 'posonlyargs', [])] + [x.arg for x in a.args]
        return names

    def decorators(self):
        if isinstance(self.node, ast.Lambda):
            return []
        out = []
        for d in self.node.decorator_list:
            out.append(ast.unparse(d))
        return out

    def is_inline_callbacks(self):
        return any('inlineCallbacks' in d for d in self.decorators())

    def child(self, name):
        for c in self.children:
            if c.name == name:
                return c
        raise AnchorVanished('%s: nested function %s not found' % (self.qual, name))

    def __repr__(self):
        return '<Unit %s>' % self.qual


class ClassInfo(object):
    def __init__(self, node, module, outer=None):
        self.node = node
        self.module = module
        self.name = node.name if outer is None else outer.name + '.' + node.name
        self.simple = node.name
        self.qual = module.name + '.' + self.name
        self.bases = [ast.unparse(b) for b in node.bases]
        self.methods = {}
        self.attrs = {}          # class-level simple assignments name -> value node
        self.file = module.rel

    def __repr__(self):
        return '<Class %s>' % self.qual


class ModuleInfo(object):
    def __init__(self, name, path, rel, src):
        self.name = name
        self.path = path
        self.rel = rel
        self.src = src
        self.sha256 = hashlib.sha256(src.encode('utf-8')).hexdigest()
        self.tree = ast.parse(src, filename=path)
        self.imports = {}        # local alias -> dotted origin
        self.functions = {}
        self.classes = {}
        self.assigns = {}        # module-level NAME -> value node
        self.units = []


class Index(object):
    """Parses <root>/txtorcon/*.py and <root>/twisted/plugins/*.py."""

    PACKAGE_DIRS = (('txtorcon', 'txtorcon'), ('twisted/plugins', 'twisted.plugins'))

    def __init__(self, root, overrides=None):
        """overrides: {relative path: source text} replacing files in memory
        (used by the self-test so that variants never touch the disk)."""
        overrides = overrides or {}
        self.root = os.path.abspath(root)
        self.modules = {}
        self.units = {}
        self.classes = {}       # simple/outer-qualified name -> [ClassInfo]
        self.parse_errors = []
        for sub, pkg in self.PACKAGE_DIRS:
            d = os.path.join(self.root, sub)
            if not os.path.isdir(d):
                if pkg == 'txtorcon':
                    raise AnchorVanished('package directory %s missing' % d)
                continue
            for fn in sorted(os.listdir(d)):
                if not fn.endswith('.py'):
                    continue
                path = os.path.join(d, fn)
                rel = os.path.join(sub, fn)
                if rel in overrides:
                    raw = overrides[rel].encode('utf-8')
                else:
                    with open(path, 'rb') as f:
                        raw = f.read()
                try:
                    src = raw.decode('utf-8')
                    m = ModuleInfo(pkg + '.' + fn[:-3], path, rel, src)
                except (SyntaxError, UnicodeDecodeError) as e:
                    self.parse_errors.append('%s: %s' % (rel, e))
                    continue
                self.modules[m.name] = m
        if self.parse_errors:
            raise AnchorVanished('unparsable source: ' + '; '.join(self.parse_errors))
        # normal form: un-anchored private helpers are seen inlined (txsa/normalize.py)
        self.inlined_helpers = []
        self.canonicalised = []
        if not os.environ.get('TXSA_NO_NORMALIZE'):
            from .canon import canonicalise
            from .normalize import normalize_package, propagate_constants, desugar
            trees = dict((m.name, m.tree) for m in self.modules.values())
            from .normalize import deproperty
            from .canon import load_ref as _lr
            from .normalize import renest_callback_methods
            self.renested = renest_callback_methods(trees, _lr())
            self.depropertied = deproperty(trees, _lr())
            from .normalize import destatic
            self.destaticed = destatic(trees, _lr())
            from .normalize import unroll_literal_tables
            self.unrolled = unroll_literal_tables(trees)
            from .normalize import desugar_dict_dispatch
            self.dict_dispatch = desugar_dict_dispatch(trees)
            from .normalize import inline_struct_constants
            self.struct_constants = inline_struct_constants(trees)
            self.canonicalised = canonicalise(trees)
            from .canon import canonicalise_locals
            self.canonicalised += canonicalise_locals(trees)
            self.propagated_constants = propagate_constants(trees)
            from .normalize import desugar_namedtuples
            self.namedtuples = desugar_namedtuples(trees)
            from .normalize import undo_extracted_locals
            from .canon import load_ref
            ref = load_ref()
            self.unextracted = undo_extracted_locals(trees, ref) if ref else []
            self.inlined_helpers = normalize_package(trees, ref)
            from .normalize import tidy_inlined_temps
            # (the clean-up passes only look at the modules in which something was inlined)
            touched = dict((mn, trees[mn]) for mn in set(x[0] for x in self.inlined_helpers) if mn in trees)
            self.tidied = tidy_inlined_temps(touched) if touched else 0
            from .normalize import thread_optional_locals
            self.threaded = thread_optional_locals(touched) if touched else 0
            if touched and ref:
                # temporaries the inliner left that are used once in the next statement fold back into it
                self.unextracted += undo_extracted_locals(touched, ref)
            self.desugared = desugar(trees)
        for m in self.modules.values():
            self._scan_module(m)
        self._parents = {}

    # ------------------------------------------------------------------ scan
    def _scan_module(self, m):
        for st in m.tree.body:
            if isinstance(st, ast.Import):
                for a in st.names:
                    m.imports[a.asname or a.name.split('.')[0]] = a.name
            elif isinstance(st, ast.ImportFrom):
                base = st.module or ''
                if st.level:
                    pkg = m.name.rsplit('.', st.level)[0]
                    base = pkg + ('.' + base if base else '')
                for a in st.names:
                    m.imports[a.asname or a.name] = base + '.' + a.name
            elif isinstance(st, ast.Assign):
                for t in st.targets:
                    if isinstance(t, ast.Name):
                        m.assigns[t.id] = st.value
        self._scan_body(m.tree.body, m, None, None)

    def _scan_body(self, body, m, cls, parent):
        for st in body:
            self._scan_stmt(st, m, cls, parent)

    def _scan_stmt(self, st, m, cls, parent):
        if isinstance(st, (ast.FunctionDef, ast.AsyncFunctionDef)):
            u = self._add_unit(st, m, cls if parent is None else None, parent, st.name)
            if parent is None and cls is not None:
                cls.methods[st.name] = u
            elif parent is None:
                m.functions[st.name] = u
            self._scan_inner(st, m, u)
        elif isinstance(st, ast.ClassDef):
            if parent is None:
                ci = ClassInfo(st, m, cls)
                m.classes[ci.name] = ci
                self.classes.setdefault(ci.simple, []).append(ci)
                for s2 in st.body:
                    if isinstance(s2, ast.Assign):
                        for t in s2.targets:
                            if isinstance(t, ast.Name):
                                ci.attrs[t.id] = s2.value
                self._scan_body(st.body, m, ci, None)
            else:
                # class nested in a function: its methods are units nested in parent
                for s2 in st.body:
                    self._scan_stmt(s2, m, None, parent)
        else:
            # lambdas / defs nested in compound statements at this level
            for child in ast.iter_child_nodes(st):
                self._scan_expr(child, m, cls, parent)

    def _scan_expr(self, node, m, cls, parent):
        if isinstance(node, (ast.FunctionDef, ast.AsyncFunctionDef, ast.ClassDef)):
            self._scan_stmt(node, m, cls, parent)
            return
        if isinstance(node, ast.Lambda):
            u = self._add_unit(node, m, None if parent else cls, parent,
                               '<lambda@%d:%d>' % (node.lineno, node.col_offset))
            self._scan_inner(node, m, u)
            return
        for child in ast.iter_child_nodes(node):
            self._scan_expr(child, m, cls, parent)

    def _scan_inner(self, fnode, m, unit):
        if isinstance(fnode, ast.Lambda):
            self._scan_expr(fnode.body, m, None, unit)
            for d in fnode.args.defaults + [x for x in fnode.args.kw_defaults if x]:
                self._scan_expr(d, m, None, unit)
            return
        for d in fnode.args.defaults + [x for x in fnode.args.kw_defaults if x]:
            self._scan_expr(d, m, unit.cls, unit)
        for st in fnode.body:
            self._scan_stmt(st, m, None, unit)

    def _add_unit(self, node, m, cls, parent, name):
        if parent is not None and cls is None:
            pass
        u = Unit(node, m, cls if parent is None else None, parent, name)
        if parent is not None:
            parent.children.append(u)
            u.owner_cls = parent.owner_cls
        else:
            u.owner_cls = cls
        u.idx = self
        self.units[u.qual] = u
        m.units.append(u)
        return u

    # ------------------------------------------------------------- accessors
    def module(self, name):
        full = name if name in self.modules else 'txtorcon.' + name
        if full not in self.modules:
            raise AnchorVanished('module %s not found' % name)
        return self.modules[full]

    def unit(self, short):
        """short: 'torcontrolprotocol.TorControlProtocol.queue_command' (module.path)"""
        for pre in ('', 'txtorcon.'):
            if pre + short in self.units:
                return self.units[pre + short]
        raise AnchorVanished('function %s not found' % short)

    def has_unit(self, short):
        return any(pre + short in self.units for pre in ('', 'txtorcon.'))

    def cls(self, name, module=None):
        cands = self.classes.get(name.split('.')[-1], [])
        cands = [c for c in cands if c.name == name or c.simple == name]
        if module:
            cands = [c for c in cands if c.module.name.endswith(module)]
        if not cands:
            raise AnchorVanished('class %s not found' % name)
        if len(cands) > 1:
            raise Undecided('class name %s ambiguous: %s' % (name, cands))
        return cands[0]

    def resolve_class_name(self, text, module):
        """Resolve a base-class / constructor expression text in `module` to ClassInfo or None."""
        head = text.split('.')[0]
        simple = text.split('.')[-1]
        if text in module.classes:
            return module.classes[text]
        origin = module.imports.get(head)
        if origin is not None:
            dotted = origin + text[len(head):]
            modname, _, cname = dotted.rpartition('.')
            if modname in self.modules and cname in self.modules[modname].classes:
                return self.modules[modname].classes[cname]
            if dotted in self.modules:
                return None
            # from txtorcon import X  (re-exported through __init__)
            if modname == 'txtorcon' or modname.startswith('txtorcon'):
                c = [c for c in self.classes.get(cname, []) if c.simple == cname]
                if len(c) == 1:
                    return c[0]
        return None

    def mro(self, ci):
        """Repo classes in (approximate, depth-first) method resolution order."""
        out, seen = [], set()

        def go(c):
            if c.qual in seen:
                return
            seen.add(c.qual)
            out.append(c)
            for b in c.bases:
                bc = self.resolve_class_name(b, c.module)
                if bc is not None:
                    go(bc)
        go(ci)
        return out

    def external_bases(self, ci):
        out = []
        for c in self.mro(ci):
            for b in c.bases:
                if self.resolve_class_name(b, c.module) is None:
                    head = b.split('.')[0]
                    origin = c.module.imports.get(head)
                    out.append((origin + b[len(head):]) if origin else b)
        return out

    def find_method(self, ci, name):
        for c in self.mro(ci):
            if name in c.methods:
                return c.methods[name]
        return None

    def subclasses(self, ci):
        out = []
        for lst in self.classes.values():
            for c in lst:
                if c is not ci and ci in self.mro(c):
                    out.append(c)
        return out

    def all_units(self):
        return list(self.units.values())

    def files_digest(self):
        return dict((m.rel, m.sha256) for m in self.modules.values())
