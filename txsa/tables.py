"""Extractors for the two state-machine DSLs used in the repository."""
import ast

from .match import dotted, src
from .index import AnchorVanished, Undecided


class AutomatTable(object):
    def __init__(self, ci):
        self.ci = ci
        self.states, self.inputs, self.outputs = {}, {}, {}
        self.initial = None
        self.rows = []   # dict(state, input, enter, outputs[list of names], node)
        machine = None
        for name, val in ci.attrs.items():
            if isinstance(val, ast.Call) and (dotted(val.func) or '').endswith('MethodicalMachine'):
                machine = name
        if machine is None:
            raise AnchorVanished('%s: no automat.MethodicalMachine attribute' % ci.name)
        self.machine = machine
        for mname, u in ci.methods.items():
            for d in getattr(u.node, 'decorator_list', []):
                if isinstance(d, ast.Call) and isinstance(d.func, ast.Attribute) and dotted(d.func.value) == machine:
                    role = d.func.attr
                    if role == 'state':
                        self.states[mname] = u
                        for kw in d.keywords:
                            if kw.arg == 'initial' and getattr(kw.value, 'value', False) is True:
                                self.initial = mname
                    elif role == 'input':
                        self.inputs[mname] = u
                    elif role == 'output':
                        self.outputs[mname] = u
        for st in ci.node.body:
            if isinstance(st, ast.Expr) and isinstance(st.value, ast.Call) and isinstance(st.value.func, ast.Attribute) \
                    and st.value.func.attr == 'upon':
                c = st.value
                state = dotted(c.func.value)
                inp = dotted(c.args[0]) if c.args else None
                enter, outs = None, None
                for kw in c.keywords:
                    if kw.arg == 'enter':
                        enter = dotted(kw.value)
                    elif kw.arg == 'outputs':
                        if not isinstance(kw.value, (ast.List, ast.Tuple)):
                            raise Undecided('upon(outputs=%s) is not a literal list' % src(kw.value))
                        outs = [dotted(e) for e in kw.value.elts]
                if len(c.args) >= 2 and enter is None:
                    enter = dotted(c.args[1])
                if len(c.args) >= 3 and outs is None and isinstance(c.args[2], (ast.List, ast.Tuple)):
                    outs = [dotted(e) for e in c.args[2].elts]
                if None in (state, inp, enter) or outs is None:
                    raise Undecided('upon row not understood: %s' % src(c))
                self.rows.append(dict(state=state, input=inp, enter=enter, outputs=outs, node=c))

    def row(self, state, inp):
        for r in self.rows:
            if r['state'] == state and r['input'] == inp:
                return r
        return None

    def rows_with_output(self, out):
        return [r for r in self.rows if out in r['outputs']]

    def rows_entering(self, state, from_other=True):
        return [r for r in self.rows if r['enter'] == state and (not from_other or r['state'] != state)]


class SpaghettiTable(object):
    """State(name) / Transition(next, matcher, handler) / X.add_transition(s) in one function."""

    def __init__(self, unit):
        self.unit = unit
        self.states = {}      # var -> display name
        self.trans = []       # dict(state(var), next(var), matcher(node), handler(node), node)
        from .match import walk_unit
        stmts = sorted([n for n in walk_unit(unit) if isinstance(n, (ast.Assign, ast.Expr))],
                       key=lambda n: (n.lineno, n.col_offset))
        for n in stmts:
            if isinstance(n, ast.Assign) and isinstance(n.value, ast.Call) and (dotted(n.value.func) or '').split('.')[-1] == 'State' \
                    and len(n.targets) == 1:
                var = dotted(n.targets[0])
                nm = n.value.args[0].value if n.value.args and isinstance(n.value.args[0], ast.Constant) else var
                self.states[var] = nm
        for n in stmts:
            if isinstance(n, ast.Expr) and isinstance(n.value, ast.Call) and isinstance(n.value.func, ast.Attribute):
                c = n.value
                if c.func.attr == 'add_transition' and c.args:
                    self._add(dotted(c.func.value), c.args[0])
                elif c.func.attr == 'add_transitions' and c.args and isinstance(c.args[0], (ast.List, ast.Tuple)):
                    for t in c.args[0].elts:
                        self._add(dotted(c.func.value), t)

    def _add(self, state, t):
        if not (isinstance(t, ast.Call) and (dotted(t.func) or '').split('.')[-1] == 'Transition' and len(t.args) >= 2):
            raise Undecided('transition not understood: %s' % src(t))
        nxt = dotted(t.args[0])
        matcher = t.args[1]
        handler = t.args[2] if len(t.args) > 2 else None
        for kw in t.keywords:
            if kw.arg == 'handler':
                handler = kw.value
            if kw.arg == 'matcher':
                matcher = kw.value
        self.trans.append(dict(state=state, next=nxt, matcher=matcher, handler=handler, node=t))

    def of_state(self, var):
        return [t for t in self.trans if t['state'] == var]
