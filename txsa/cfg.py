"""Statement-level control-flow graph, dominance and bounded path enumeration.

Tests are decomposed into short-circuit atoms (`a or b` => test a; on false test
b) so that every atom is decided individually.  Exception edges leave only:
explicit `raise`; `yield`/`await` in generator-style coroutines; statements the
caller's `may_raise` policy names; `assert` when enabled.
"""
import ast
from .match import src, dotted, walk_local, assigned_targets, mentions, FUNC_TYPES, eval_small, UNKNOWN, const, NOCONST
from .index import Undecided

MUTATORS = frozenset(('append', 'pop', 'remove', 'clear', 'extend', 'insert', 'add', 'discard',
                      'update', 'setdefault', 'popleft', 'appendleft', 'sort', 'reverse',
                      'popitem', '__setitem__', '__delitem__'))

# minimal builtin exception hierarchy: child -> parent
EXC_PARENT = {
    'OSError': 'Exception', 'IOError': 'OSError', 'EnvironmentError': 'OSError',
    'FileNotFoundError': 'OSError', 'PermissionError': 'OSError', 'ConnectionError': 'OSError',
    'RuntimeError': 'Exception', 'NotImplementedError': 'RuntimeError',
    'ValueError': 'Exception', 'UnicodeError': 'ValueError', 'UnicodeEncodeError': 'UnicodeError',
    'UnicodeDecodeError': 'UnicodeError',
    'LookupError': 'Exception', 'KeyError': 'LookupError', 'IndexError': 'LookupError',
    'TypeError': 'Exception', 'AttributeError': 'Exception', 'AssertionError': 'Exception',
    'ArithmeticError': 'Exception', 'ZeroDivisionError': 'ArithmeticError',
    'StopIteration': 'Exception', 'ImportError': 'Exception',
    'Exception': 'BaseException', 'GeneratorExit': 'BaseException',
    'KeyboardInterrupt': 'BaseException', 'SystemExit': 'BaseException',
}
EXC_ALIAS = {'IOError': 'OSError', 'EnvironmentError': 'OSError'}


def _canon(n):
    n = n.split('.')[-1]
    return EXC_ALIAS.get(n, n)


def _ancestors(n, extra_parent=None):
    n = _canon(n)
    out = [n]
    seen = set(out)
    while True:
        p = EXC_PARENT.get(n)
        if p is None and extra_parent is not None:
            p = extra_parent(n)
        if p is None:
            break
        p = _canon(p)
        if p in seen:
            break
        out.append(p)
        seen.add(p)
        n = p
    return out


class Node(object):
    __slots__ = ('id', 'kind', 'ast', 'succ', 'pred', 'exit_kind', 'owner', 'note')

    def __init__(self, nid, kind, node=None, owner=None):
        self.id = nid
        self.kind = kind
        self.ast = node
        self.succ = []       # list of (label, Node)
        self.pred = []
        self.exit_kind = None
        self.owner = owner   # enclosing compound statement for tests / iters
        self.note = None

    @property
    def lineno(self):
        return getattr(self.ast, 'lineno', 0) if self.ast is not None else 0

    def text(self):
        if self.kind == 'iter':
            return 'for %s in %s' % (src(self.ast.target), src(self.ast.iter))
        if self.kind == 'handler':
            return 'except %s' % (src(self.ast.type) if self.ast.type else '')
        if self.kind == 'with':
            return 'with ' + ', '.join(src(i) for i in self.ast.items)
        if self.ast is not None:
            t = src(self.ast)
            return t.split('\n')[0] if self.kind == 'def' else t
        return self.kind + (':' + self.exit_kind if self.exit_kind else '')

    def __repr__(self):
        return '<N%d %s %s>' % (self.id, self.kind, self.text()[:50])


class _Ctx(object):
    __slots__ = ('ret', 'brk', 'cnt', 'raise_to', 'in_handler')

    def __init__(self, ret, brk, cnt, raise_to, in_handler=None):
        self.ret, self.brk, self.cnt, self.raise_to, self.in_handler = ret, brk, cnt, raise_to, in_handler


class CFG(object):
    def __init__(self, unit, may_raise=None, assert_raises=False, class_parent=None, inline=None):
        """may_raise(ast_node) -> iterable of exception kind names ('*' = any Exception) or None.
        inline(call_ast) -> expression to decompose in place of a boolean helper call, or None."""
        self.unit = unit
        self._inline = inline
        self.nodes = []
        self._may_raise = may_raise
        self._assert_raises = assert_raises
        self._class_parent = class_parent
        self._gen = unit.is_inline_callbacks() or isinstance(unit.node, ast.AsyncFunctionDef)
        self.entry = self._new('entry')
        self.exit_return = self._new('exit')
        self.exit_return.exit_kind = 'return'
        self.exit_raise = self._new('exit')
        self.exit_raise.exit_kind = 'raise'
        self.exit_fall = self._new('exit')
        self.exit_fall.exit_kind = 'fall'
        ctx = _Ctx(lambda: self.exit_return, None, None, lambda kinds: [self.exit_raise])
        first = self._block(unit.body, self.exit_fall, ctx)
        self._edge(self.entry, '', first)
        self._prune_unreachable()
        self._dom = None

    # ------------------------------------------------------------ building
    def _new(self, kind, node=None, owner=None):
        n = Node(len(self.nodes), kind, node, owner)
        self.nodes.append(n)
        return n

    def _edge(self, a, label, b):
        a.succ.append((label, b))

    def _kinds_of(self, node):
        """exception kinds an expression/statement may raise under the policy."""
        kinds = set()
        if self._gen:
            for n in walk_local(node):
                if isinstance(n, (ast.Yield, ast.YieldFrom, ast.Await)):
                    kinds.add('*')
                    break
        if self._may_raise is not None:
            k = self._may_raise(node)
            if k:
                kinds.update(k)
        return kinds

    def _block(self, stmts, k, ctx):
        for st in reversed(stmts):
            k = self._stmt(st, k, ctx)
        return k

    def _simple(self, st, k, ctx, kind='stmt', kinds=None):
        n = self._new(kind, st)
        self._edge(n, '', k)
        kinds = self._kinds_of(st) if kinds is None else kinds
        if kinds:
            for t in ctx.raise_to(frozenset(kinds)):
                self._edge(n, 'exc', t)
        return n

    def _stmt(self, st, k, ctx):
        if isinstance(st, ast.If):
            return self._cond(st.test, self._block(st.body, k, ctx), self._block(st.orelse, k, ctx), ctx, st)
        if isinstance(st, ast.While):
            head = self._new('join')
            head.note = 'while'
            head.owner = st
            after = self._block(st.orelse, k, ctx)
            ctx2 = _Ctx(ctx.ret, lambda: k, lambda: head, ctx.raise_to, ctx.in_handler)
            body = self._block(st.body, head, ctx2)
            self._edge(head, '', self._cond(st.test, body, after, ctx, st))
            return head
        if isinstance(st, (ast.For, ast.AsyncFor)):
            it = self._new('iter', st, st)
            after = self._block(st.orelse, k, ctx)
            ctx2 = _Ctx(ctx.ret, lambda: k, lambda: it, ctx.raise_to, ctx.in_handler)
            body = self._block(st.body, it, ctx2)
            self._edge(it, 'body', body)
            self._edge(it, 'exit', after)
            kinds = self._kinds_of(st.iter)
            if kinds:
                for t in ctx.raise_to(frozenset(kinds)):
                    self._edge(it, 'exc', t)
            return it
        if isinstance(st, ast.Try) or st.__class__.__name__ == 'TryStar':
            return self._try(st, k, ctx)
        if isinstance(st, (ast.With, ast.AsyncWith)):
            n = self._new('with', st, st)
            self._edge(n, '', self._block(st.body, k, ctx))
            kinds = set()
            for item in st.items:
                kinds |= self._kinds_of(item.context_expr)
            if kinds:
                for t in ctx.raise_to(frozenset(kinds)):
                    self._edge(n, 'exc', t)
            return n
        if isinstance(st, ast.Return):
            n = self._new('stmt', st)
            self._edge(n, '', ctx.ret())
            kinds = self._kinds_of(st)
            if kinds:
                for t in ctx.raise_to(frozenset(kinds)):
                    self._edge(n, 'exc', t)
            return n
        if isinstance(st, ast.Raise):
            n = self._new('stmt', st)
            if st.exc is None:
                kinds = frozenset(ctx.in_handler or ('*',))
            else:
                e = st.exc.func if isinstance(st.exc, ast.Call) else st.exc
                d = dotted(e)
                if d is not None and d.split('.')[-1][:1].isupper():
                    kinds = frozenset((d.split('.')[-1],))
                else:
                    kinds = frozenset(('*',))
            for t in ctx.raise_to(kinds):
                self._edge(n, 'exc', t)
            return n
        if isinstance(st, ast.Break):
            n = self._new('join')
            n.note = 'break'
            self._edge(n, '', ctx.brk())
            return n
        if isinstance(st, ast.Continue):
            n = self._new('join')
            n.note = 'continue'
            self._edge(n, '', ctx.cnt())
            return n
        if isinstance(st, FUNC_TYPES + (ast.ClassDef,)):
            n = self._new('def', st)
            self._edge(n, '', k)
            return n
        if isinstance(st, ast.Assert):
            kinds = set(self._kinds_of(st))
            if self._assert_raises:
                kinds.add('AssertionError')
            return self._simple(st, k, ctx, kinds=kinds)
        if st.__class__.__name__ == 'Match':
            raise Undecided('match statement not modelled in %s' % self.unit.qual)
        return self._simple(st, k, ctx)

    def _cond(self, e, kt, kf, ctx, owner):
        if isinstance(e, ast.BoolOp):
            vals = list(e.values)
            if isinstance(e.op, ast.And):
                cur = kt
                for v in reversed(vals):
                    cur = self._cond(v, cur, kf, ctx, owner)
                return cur
            cur = kf
            for v in reversed(vals):
                cur = self._cond(v, kt, cur, ctx, owner)
            return cur
        if isinstance(e, ast.UnaryOp) and isinstance(e.op, ast.Not):
            return self._cond(e.operand, kf, kt, ctx, owner)
        if self._inline is not None and isinstance(e, ast.Call):
            body = self._inline(e)
            if body is not None:
                return self._cond(body, kt, kf, ctx, owner)
        n = self._new('test', e, owner)
        self._edge(n, 'T', kt)
        self._edge(n, 'F', kf)
        kinds = self._kinds_of(e)
        if kinds:
            for t in ctx.raise_to(frozenset(kinds)):
                self._edge(n, 'exc', t)
        return n

    def _handler_types(self, h):
        if h.type is None:
            return None
        ts = h.type.elts if isinstance(h.type, ast.Tuple) else [h.type]
        out = []
        for t in ts:
            d = dotted(t)
            out.append(_canon(d) if d else '?')
        return out

    def _catches(self, h, kind):
        """'yes' / 'no' / 'maybe': does handler h catch an exception of `kind`?"""
        types = self._handler_types(h)
        if types is None:
            return 'yes'
        if 'BaseException' in types:
            return 'yes'
        if kind == '*':
            return 'yes' if 'Exception' in types else 'maybe'
        anc = _ancestors(kind, self._class_parent)
        if any(t in anc for t in types):
            return 'yes'
        known = (anc[-1] in ('BaseException', 'Exception'))
        if '?' in types or not known:
            # unknown class on either side: may be related
            if 'Exception' in types:
                return 'yes'
            return 'maybe'
        return 'no'

    def _try(self, st, k, ctx):
        memo = {}
        if st.finalbody:
            kf = self._block(st.finalbody, k, ctx)

            def through(key, make_target):
                if key not in memo:
                    memo[key] = self._block(st.finalbody, make_target(), ctx)
                return memo[key]

            def f_raise_to(kinds):
                def mk():
                    j = self._new('join')
                    j.note = 'reraise'
                    for t in ctx.raise_to(kinds):
                        self._edge(j, 'exc', t)
                    return j
                return [through(('raise', kinds), mk)]
            ctx_f = _Ctx(lambda: through('ret', ctx.ret),
                         (lambda: through('brk', ctx.brk)) if ctx.brk else None,
                         (lambda: through('cnt', ctx.cnt)) if ctx.cnt else None,
                         f_raise_to, ctx.in_handler)
        else:
            kf = k
            ctx_f = ctx
        hentries = []
        for h in st.handlers:
            hn = self._new('handler', h, st)
            types = self._handler_types(h)
            hctx = _Ctx(ctx_f.ret, ctx_f.brk, ctx_f.cnt, ctx_f.raise_to,
                        tuple(types) if types else ('*',))
            self._edge(hn, '', self._block(h.body, kf, hctx))
            hentries.append((h, hn))

        def body_raise_to(kinds):
            targets = []
            escaping = set()
            for kind in kinds:
                caught = False
                for h, hn in hentries:
                    c = self._catches(h, kind)
                    if c in ('yes', 'maybe') and hn not in targets:
                        targets.append(hn)
                    if c == 'yes':
                        caught = True
                        break
                if not caught:
                    escaping.add(kind)
            if escaping:
                for t in ctx_f.raise_to(frozenset(escaping)):
                    if t not in targets:
                        targets.append(t)
            return targets
        ctx_b = _Ctx(ctx_f.ret, ctx_f.brk, ctx_f.cnt, body_raise_to, ctx.in_handler)
        after_body = self._block(st.orelse, kf, ctx_f)
        return self._block(st.body, after_body, ctx_b)

    def _prune_unreachable(self):
        seen = set()
        stack = [self.entry]
        while stack:
            n = stack.pop()
            if n.id in seen:
                continue
            seen.add(n.id)
            for _, s in n.succ:
                stack.append(s)
        self.live = [n for n in self.nodes if n.id in seen]
        for n in self.live:
            for lab, s in n.succ:
                s.pred.append((lab, n))

    # ------------------------------------------------------------- queries
    @property
    def exits(self):
        return [e for e in (self.exit_return, self.exit_raise, self.exit_fall) if e in self.live]

    def normal_exits(self):
        return [e for e in (self.exit_return, self.exit_fall) if e in self.live]

    def real_nodes(self):
        return [n for n in self.live if n.kind in ('stmt', 'test', 'iter', 'with', 'handler', 'def')]

    def nodes_containing(self, astnode):
        """live CFG nodes whose own expression/statement contains `astnode`."""
        out = []
        for n in self.real_nodes():
            if n.ast is None:
                continue
            if n.kind == 'iter':
                roots = [n.ast.iter, n.ast.target]
            elif n.kind == 'with':
                roots = [i.context_expr for i in n.ast.items] + \
                        [i.optional_vars for i in n.ast.items if i.optional_vars is not None]
            elif n.kind == 'handler':
                roots = [n.ast.type] if n.ast.type is not None else []
            elif n.kind == 'def':
                roots = []
                if n.ast is astnode:
                    out.append(n)
            else:
                roots = [n.ast]
            for r in roots:
                if any(x is astnode for x in ast.walk(r)):
                    out.append(n)
                    break
        return out

    def nodes_where(self, pred):
        return [n for n in self.real_nodes() if pred(n)]

    def reachable(self, starts, avoid=None, skip_edges=None, follow_exc=True):
        """set of nodes reachable from `starts` (inclusive) not passing *through* nodes
        satisfying `avoid` (an avoided node is not entered) nor via skip_edges
        {(node_id, label)}."""
        seen = set()
        stack = list(starts)
        while stack:
            n = stack.pop()
            if n.id in seen:
                continue
            if avoid is not None and avoid(n):
                continue
            seen.add(n.id)
            for lab, s in n.succ:
                if not follow_exc and lab == 'exc':
                    continue
                if skip_edges and (n.id, lab) in skip_edges:
                    continue
                stack.append(s)
        return set(self.nodes[i] for i in seen)

    def successors_of(self, n, labels=None):
        return [s for lab, s in n.succ if labels is None or lab in labels]

    def escapes(self, start, through, exits=None, follow_exc=True, after=True):
        """Exit nodes reachable from `start` without passing a node satisfying
        `through`.  If `after`, the search begins at start's successors."""
        exits = self.exits if exits is None else exits
        starts = [s for _, s in start.succ] if after else [start]
        r = self.reachable(starts, avoid=through, follow_exc=follow_exc)
        return [e for e in exits if e in r]

    def witness_path(self, start, goal, avoid=None, after=True):
        """a shortest node path start -> goal avoiding `avoid` nodes (for reports)."""
        from collections import deque
        starts = [s for _, s in start.succ] if after else [start]
        prev = {}
        dq = deque()
        for s in starts:
            if avoid is not None and avoid(s):
                continue
            if s.id not in prev:
                prev[s.id] = None
                dq.append(s)
        while dq:
            n = dq.popleft()
            if n is goal:
                out = []
                cur = n
                while cur is not None:
                    out.append(cur)
                    cur = prev[cur.id]
                return list(reversed(out))
            for _, s in n.succ:
                if s.id in prev:
                    continue
                if avoid is not None and avoid(s) and s is not goal:
                    continue
                prev[s.id] = n
                dq.append(s)
        return None

    def dominators(self):
        if self._dom is not None:
            return self._dom
        live = self.live
        allids = set(n.id for n in live)
        dom = dict((n.id, set(allids)) for n in live)
        dom[self.entry.id] = set([self.entry.id])
        changed = True
        order = live
        while changed:
            changed = False
            for n in order:
                if n is self.entry:
                    continue
                ps = [p for _, p in n.pred]
                if not ps:
                    continue
                new = set.intersection(*[dom[p.id] for p in ps]) | set([n.id])
                if new != dom[n.id]:
                    dom[n.id] = new
                    changed = True
        self._dom = dom
        return dom

    def dominates(self, a, b):
        return a.id in self.dominators()[b.id]

    def edge_dominates(self, test, label, b):
        """every entry->b path takes edge (test,label): b becomes unreachable when
        that edge is the only one of `test` kept removed."""
        if b not in self.live:
            return False
        r = self.reachable([self.entry], skip_edges=set([(test.id, label)]))
        return b not in r

    def guarded_by(self, b, match_test):
        """list of (test node, label) such that the edge dominates b and
        match_test(test_ast) is true."""
        out = []
        for t in self.live:
            if t.kind != 'test' or not match_test(t.ast):
                continue
            for lab in ('T', 'F'):
                if self.edge_dominates(t, lab, b):
                    out.append((t, lab))
        return out

    # ----------------------------------------------------- path enumeration
    def paths(self, start=None, loop_bound=1, max_paths=50000, eval_hook=None,
              stop=None, follow_exc=True, pure_calls=(), prune=True):
        """Enumerate paths from `start` (default entry) to an exit (or a node for
        which stop(node) is true).  A path is a list of (node, label_taken); the
        last element has label None.  Tests are forked; the same atom (by source
        text) is evaluated consistently until something it mentions is written.
        eval_hook(node, valuation, trail) may return True/False to decide a test."""
        start = start or self.entry
        out = []
        budget = [max_paths]

        def invalidate(val, node):
            if not val:
                return val
            a = node.ast
            if a is None:
                return val
            killed = set()
            if node.kind == 'iter':
                targets = assigned_targets(a)
                roots = [a.iter]
            elif node.kind == 'with':
                targets = assigned_targets(a)
                roots = [i.context_expr for i in a.items]
            elif node.kind == 'handler':
                targets = [a.name] if a.name else []
                roots = []
            elif node.kind == 'def':
                targets = [getattr(a, 'name', None)]
                roots = []
            else:
                targets = assigned_targets(a) if isinstance(a, ast.stmt) else []
                roots = [a]
            for r in roots:
                for c in walk_local(r, descend_root=False):
                    if isinstance(c, ast.NamedExpr):
                        targets.append(dotted(c.target))
                    if isinstance(c, ast.Call):
                        d = dotted(c.func)
                        if d is None:
                            continue
                        if d in pure_calls:
                            continue
                        parts = d.split('.')
                        if parts[0] == 'self' and len(parts) == 2:
                            targets.append('self')
                        elif len(parts) >= 2 and parts[-1] in MUTATORS:
                            targets.append('.'.join(parts[:-1]))
            if not targets:
                return val
            new = None
            for key, (expr, v) in val.items():
                for t in targets:
                    if t and mentions(expr, t):
                        if new is None:
                            new = dict(val)
                        new.pop(key, None)
                        break
            return val if new is None else new

        def track_consts(val, node):
            """locals assigned a constant are remembered under key '=name' so that a
            later test of the flag is decided instead of forked."""
            a = node.ast
            if node.kind != 'stmt' or not isinstance(a, ast.Assign):
                return val
            new = None
            for t in a.targets:
                if isinstance(t, ast.Name):
                    c = const(a.value)
                    if c is not NOCONST and isinstance(c, (bool, int, str, bytes, type(None))):
                        if new is None:
                            new = dict(val)
                        new['=' + t.id] = (ast.Name(id=t.id, ctx=ast.Load()), c)
            return val if new is None else new

        def const_env(val):
            return dict((k[1:], v[1]) for k, v in val.items() if k.startswith('='))

        def rec(node, trail, val, loops):
            if budget[0] <= 0:
                raise Undecided('path budget exceeded in %s' % self.unit.qual)
            if node.kind == 'exit' or (stop is not None and stop(node) and trail):
                trail.append((node, None))
                out.append((list(trail), dict((k, v[1]) for k, v in val.items() if not k.startswith('='))))
                trail.pop()
                budget[0] -= 1
                return
            if node.kind == 'test':
                key = src(node.ast)
                decided = None
                if prune and key in val:
                    decided = val[key][1]
                if decided is None and prune:
                    ce = const_env(val)
                    if ce:
                        r = eval_small(node.ast, ce)
                        if r is not UNKNOWN:
                            decided = bool(r)
                if decided is None and eval_hook is not None:
                    decided = eval_hook(node, dict((k, v[1]) for k, v in val.items() if not k.startswith('=')), trail)
                for lab, s in node.succ:
                    if lab == 'exc':
                        if not follow_exc:
                            continue
                        trail.append((node, lab))
                        rec(s, trail, val, loops)
                        trail.pop()
                        continue
                    want = (lab == 'T')
                    if decided is not None and decided != want:
                        continue
                    v2 = val
                    if prune and key not in val:
                        v2 = dict(val)
                        v2[key] = (node.ast, want)
                    trail.append((node, lab))
                    rec(s, trail, v2, loops)
                    trail.pop()
                return
            val2 = invalidate(val, node) if prune else val
            if prune:
                val2 = track_consts(val2, node)
            for lab, s in node.succ:
                if lab == 'exc' and not follow_exc:
                    continue
                l2 = loops
                if node.kind == 'iter' and lab == 'body':
                    c = loops.get(node.id, 0)
                    if c >= loop_bound:
                        continue
                    l2 = dict(loops)
                    l2[node.id] = c + 1
                elif node.kind == 'join' and node.note == 'while':
                    c = loops.get(node.id, 0)
                    if c > loop_bound:
                        continue
                    l2 = dict(loops)
                    l2[node.id] = c + 1
                trail.append((node, lab))
                rec(s, trail, val2, l2)
                trail.pop()

        import sys
        old = sys.getrecursionlimit()
        sys.setrecursionlimit(max(old, 10000))
        try:
            rec(start, [], {}, {})
        finally:
            sys.setrecursionlimit(old)
        return [Path(p, v, self) for p, v in out]


class Path(object):
    def __init__(self, steps, valuation, cfg):
        self.steps = steps
        self.valuation = valuation
        self.cfg = cfg

    @property
    def exit(self):
        n = self.steps[-1][0]
        return n.exit_kind if n.kind == 'exit' else 'stop'

    @property
    def last(self):
        return self.steps[-1][0]

    def nodes(self):
        return [n for n, _ in self.steps]

    def stmts(self):
        """real (non-join) nodes in order with the label taken."""
        return [(n, lab) for n, lab in self.steps if n.kind not in ('join', 'entry')]

    def took(self, test_pred):
        """list of (node, bool) decisions for tests matching test_pred(ast)."""
        return [(n, lab == 'T') for n, lab in self.steps
                if n.kind == 'test' and lab in ('T', 'F') and test_pred(n.ast)]

    def describe(self, limit=12):
        parts = []
        for n, lab in self.steps:
            if n.kind == 'test':
                parts.append('[%s]=%s' % (src(n.ast)[:60], lab))
            elif n.kind == 'exit':
                parts.append('<%s>' % n.exit_kind)
            elif n.kind == 'iter':
                parts.append('for:%s' % lab)
            elif n.kind == 'handler':
                parts.append(n.text())
        if len(parts) > limit:
            parts = parts[:limit // 2] + ['...'] + parts[-limit // 2:]
        return ' '.join(parts)
