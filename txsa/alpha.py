"""Behaviour-preserving variant generator: rename every function-local variable.

For each FunctionDef/Lambda scope the names *bound* in that scope by assignment, for/with/except
targets, comprehension targets and nested def names (not parameters, not global/nonlocal names,
not attributes) are renamed to <name>_r in the whole scope including nested scopes that read
them as closure cells (a nested scope that re-binds the same name gets its own renaming).
The result is produced with ast.unparse; it parses to the same program modulo local names.
"""
import ast

FUNC = (ast.FunctionDef, ast.AsyncFunctionDef, ast.Lambda)


def _bound_here(fn):
    """names bound in fn's own scope (excluding params)"""
    out, glob, keep = set(), set(), set()
    params = set()
    a = fn.args
    for x in list(getattr(a, 'posonlyargs', [])) + list(a.args) + list(a.kwonlyargs):
        params.add(x.arg)
    if a.vararg:
        params.add(a.vararg.arg)
    if a.kwarg:
        params.add(a.kwarg.arg)

    def visit(n, top):
        if isinstance(n, FUNC) and not top:
            return      # nested function *names* are kept (they are the anchors people grep for)
        if isinstance(n, ast.ClassDef) and not top:
            return
        if isinstance(n, (ast.Global, ast.Nonlocal)):
            glob.update(n.names)
        if isinstance(n, ast.Name) and isinstance(n.ctx, (ast.Store, ast.Del)):
            out.add(n.id)
        if isinstance(n, ast.ExceptHandler) and n.name:
            out.add(n.name)
        if isinstance(n, (ast.Import, ast.ImportFrom)):
            # names bound by a function-local import keep their spelling (the import statement is not rewritten)
            for al in n.names:
                keep.add((al.asname or al.name).split('.')[0])
        if isinstance(n, (ast.ListComp, ast.SetComp, ast.DictComp, ast.GeneratorExp)):
            # comprehension targets live in their own scope: leave them alone
            for g in n.generators:
                visit(g.iter, False)
            return
        for c in ast.iter_child_nodes(n):
            visit(c, False)
    body = fn.body if isinstance(fn.body, list) else [fn.body]
    for st in body:
        visit(st, False)
    return ((out - glob) - params) - keep, params


class _Renamer(ast.NodeTransformer):
    def __init__(self):
        self.stack = []     # list of dict old->new for enclosing function scopes

    def _lookup(self, name):
        for m, shadow in reversed(self.stack):
            if name in shadow:
                return None
            if name in m:
                return m[name]
        return None

    def _func(self, node):
        bound, params = _bound_here(node)
        # dunder / keyword-argument sensitive names are left alone
        m = dict((b, b + '_r') for b in bound if not (b.startswith('__') and b.endswith('__')))
        # names this scope binds as parameters shadow outer renamings
        self.stack.append((m, set(params)))
        if not isinstance(node, ast.Lambda):
            node.decorator_list = [self.visit(d) for d in node.decorator_list]
        node.args = self.generic_visit(node.args)
        if isinstance(node.body, list):
            node.body = [self.visit(st) for st in node.body]
        else:
            node.body = self.visit(node.body)
        self.stack.pop()
        if not isinstance(node, ast.Lambda):
            new = self._lookup(node.name)
            if new and self.stack:
                node.name = new
        return node

    visit_FunctionDef = _func
    visit_AsyncFunctionDef = _func
    visit_Lambda = _func

    def visit_ClassDef(self, node):
        # class bodies are not function scopes; methods start fresh (no closure over class names)
        saved = self.stack
        self.stack = [] if not saved else saved
        node = self.generic_visit(node)
        self.stack = saved
        return node

    def visit_Name(self, node):
        if self.stack:
            new = self._lookup(node.id)
            if new:
                return ast.copy_location(ast.Name(id=new, ctx=node.ctx), node)
        return node

    def visit_ExceptHandler(self, node):
        if node.name and self.stack:
            new = self._lookup(node.name)
            if new:
                node.name = new
        return self.generic_visit(node)

    def visit_Global(self, node):
        return node

    def visit_alias(self, node):
        return node

    def visit_Import(self, node):
        return node

    def visit_ImportFrom(self, node):
        return node


def alpha_rename(source):
    tree = ast.parse(source)
    # imports inside functions bind names: do not rename those (visit_Import keeps the alias) -> drop them from maps
    tree = _Renamer().visit(tree)
    ast.fix_missing_locations(tree)
    return ast.unparse(tree)


class _Tracer(ast.NodeTransformer):
    """insert a harmless logging call at the top of every function body and after every
    simple statement of function bodies (not after return/raise/break/continue)"""

    def _trace(self):
        return ast.Expr(value=ast.Call(func=ast.Attribute(value=ast.Name(id='log', ctx=ast.Load()), attr='msg', ctx=ast.Load()),
                                       args=[ast.Constant(value='trace')], keywords=[]))

    def _body(self, body, top=False):
        out = []
        start = 0
        if top and body and isinstance(body[0], ast.Expr) and isinstance(body[0].value, ast.Constant) and isinstance(body[0].value.value, str):
            out.append(body[0])
            start = 1
        if top:
            out.append(self._trace())
        for st in body[start:]:
            st = self.visit(st)
            out.append(st)
            if isinstance(st, (ast.Assign, ast.AugAssign, ast.Expr)) and not (isinstance(st, ast.Expr) and isinstance(st.value, (ast.Yield, ast.YieldFrom))):
                out.append(self._trace())
        return out

    def visit_FunctionDef(self, node):
        self.depth = getattr(self, 'depth', 0) + 1
        node.body = self._body(node.body, top=True)
        self.depth -= 1
        return node

    visit_AsyncFunctionDef = visit_FunctionDef

    def generic_visit(self, node):
        if getattr(self, 'depth', 0) > 0:
            for field in ('body', 'orelse', 'finalbody'):
                b = getattr(node, field, None)
                if isinstance(b, list) and b and isinstance(b[0], ast.stmt):
                    setattr(node, field, self._body(b))
            if isinstance(node, ast.Try):
                for h in node.handlers:
                    h.body = self._body(h.body)
                return node
            if isinstance(node, (ast.If, ast.For, ast.While, ast.With, ast.AsyncFor, ast.AsyncWith)):
                return node
        return super(_Tracer, self).generic_visit(node)

    def visit_ClassDef(self, node):
        node.body = [self.visit(st) for st in node.body]
        return node


def add_tracing(source):
    tree = ast.parse(source)
    tree = _Tracer().visit(tree)
    # the inserted calls need a module-level `log`
    bound = set()
    for st in tree.body:
        if isinstance(st, (ast.Import, ast.ImportFrom)):
            bound.update((al.asname or al.name).split('.')[0] for al in st.names)
        elif isinstance(st, ast.Assign):
            bound.update(x.id for t in st.targets for x in ast.walk(t) if isinstance(x, ast.Name))
    if 'log' not in bound:
        at = 0
        for i, st in enumerate(tree.body):
            if (isinstance(st, ast.Expr) and isinstance(st.value, ast.Constant) and isinstance(st.value.value, str) and i == 0) or \
                    (isinstance(st, ast.ImportFrom) and st.module == '__future__'):
                at = i + 1
        tree.body.insert(at, ast.ImportFrom(module='twisted.python', names=[ast.alias(name='log', asname=None)], level=0))
    ast.fix_missing_locations(tree)
    return ast.unparse(tree)


class _IfSwap(ast.NodeTransformer):
    """`if c: A else: B`  ->  `if not c: B else: A` for every if with a non-empty else that is not
    an elif chain link (behaviour-preserving)"""

    def visit_If(self, node):
        self.generic_visit(node)
        if node.orelse and not (len(node.orelse) == 1 and isinstance(node.orelse[0], ast.If)):
            return ast.copy_location(ast.If(test=ast.UnaryOp(op=ast.Not(), operand=node.test), body=node.orelse, orelse=node.body), node)
        return node


def swap_if_else(source):
    tree = ast.parse(source)
    tree = _IfSwap().visit(tree)
    ast.fix_missing_locations(tree)
    return ast.unparse(tree)
