"""Thorough tier: in-memory mutants and benign twins of the current files (see DESIGN section 6)."""


def run_for(run, root):
    run.selftest = dict(mutants=0, mutants_flagged=0, benign_variants=0, benign_silent=0, note='no operators registered yet')
