"""Thorough tier: in-memory mutants and benign twins of the *current* files.

Every rule module may define
    MUTANTS = [M(name, file, old, new, rules=[...])]   # must be flagged by one of `rules`
    TWINS   = [M(name, file, old, new)]                # behaviour-preserving: must stay silent
`old`/`new` are source fragments; a variant whose `old` fragment does not occur
exactly once in today's file is *skipped* (the tree moved on), never failed.
Variants are byte-compiled (no execution) and analysed through Index(overrides=...),
so nothing is written to disk.
"""
import os

from .index import Index, AnchorVanished
from .report import Run
from . import rules as rules_pkg


class M(object):
    def __init__(self, name, file, old, new, rules=None, count=1):
        self.name, self.file, self.old, self.new, self.rules, self.count = name, file, old, new, rules, count

    def apply(self, root):
        path = os.path.join(root, self.file)
        try:
            with open(path, 'rb') as f:
                s = f.read().decode('utf-8')
        except OSError:
            return None
        if isinstance(self.old, (list, tuple)):
            pairs = list(zip(self.old, self.new))
        else:
            pairs = [(self.old, self.new)]
        for o, n in pairs:
            if s.count(o) != self.count:
                return None
            s = s.replace(o, n)
        try:
            compile(s, self.file, 'exec')
        except SyntaxError:
            return None
        return s


def apply_unified_diff(root, diff_text):
    """{file: new text} for a unified diff applied to the files under root, or None if a hunk does not apply (the tree moved on)."""
    import re
    files, cur, hunks = {}, None, None
    for line in diff_text.split('\n'):
        if line.startswith('+++ '):
            cur = line[4:].strip()
            cur = cur[2:] if cur.startswith('b/') else cur
            files[cur] = []
        elif line.startswith('--- ') or line.startswith('diff ') or line.startswith('index '):
            continue
        elif line.startswith('@@') and cur is not None:
            m = re.match(r'@@ -(\d+)(?:,(\d+))? \+(\d+)(?:,(\d+))? @@', line)
            if not m:
                return None
            files[cur].append([int(m.group(1)), []])
        elif cur is not None and files[cur] and (line[:1] in (' ', '+', '-') or line == ''):
            if line.startswith('\\'):
                continue
            files[cur][-1][1].append(line if line else ' ')
    out = {}
    for f, hs in files.items():
        try:
            with open(os.path.join(root, f), 'rb') as fh:
                lines = fh.read().decode('utf-8').split('\n')
        except OSError:
            return None
        shift = 0
        for start, body in hs:
            while body and body[-1] == ' ' and not any(b[1:] for b in body[-1:]):
                # trailing artefact of splitting the diff text on newlines
                body = body[:-1]
            old = [b[1:] for b in body if b[0] in (' ', '-')]
            new = [b[1:] for b in body if b[0] in (' ', '+')]
            at = None
            guess = start - 1 + shift
            for delta in sorted(range(-60, 61), key=abs):
                i = guess + delta
                if 0 <= i <= len(lines) - len(old) and lines[i:i + len(old)] == old:
                    at = i
                    break
            if at is None:
                return None
            lines[at:at + len(old)] = new
            shift += len(new) - len(old) + (at - guess)
        text = '\n'.join(lines)
        try:
            compile(text, f, 'exec')
        except SyntaxError:
            return None
        out[f] = text
    return out


def patch_twins(root, files_of_interest):
    """[(name, overrides)] for the behaviour-preserving patches kept under /verif/benign/ that touch one of the given files"""
    here = os.path.join(os.path.dirname(os.path.dirname(os.path.abspath(__file__))), 'benign')
    out, skipped = [], []
    if not os.path.isdir(here):
        return out, skipped
    for d in sorted(os.listdir(here)):
        pf = os.path.join(here, d, 'patch.diff')
        if not os.path.exists(pf):
            continue
        text = open(pf).read()
        touched = set(l[6:].strip() for l in text.split('\n') if l.startswith('+++ b/'))
        if not (touched & set(files_of_interest)):
            continue
        ov = apply_unified_diff(root, text)
        if ov is None:
            skipped.append(d)
        else:
            out.append((d, ov))
    return out, skipped


class _Res(object):
    def __init__(self, findings, undecided, error=None):
        self.findings, self.undecided, self.error = findings, undecided, error


class _F(object):
    def __init__(self, key, rule):
        self.key, self.rule = key, rule


def _work(args):
    prop, root, overrides = args
    try:
        idx = Index(root, overrides=overrides)
        r = Run(prop, idx, 'quick')
        rules_pkg.run_rules(r)
        return ([(f.key, f.rule) for f in r.findings], [dict(u) for u in r.undecided], None)
    except AnchorVanished as e:
        return ([], [], str(e))


def _analyse_many(jobs):
    """jobs: [(prop, root, overrides)] -> [_Res] (16-wide, fork; falls back to serial)."""
    out = None
    if len(jobs) > 2:
        try:
            import multiprocessing as mp
            from concurrent.futures import ProcessPoolExecutor
            with ProcessPoolExecutor(max_workers=min(16, len(jobs)), mp_context=mp.get_context('fork')) as ex:
                out = list(ex.map(_work, jobs))
        except Exception:
            out = None
    if out is None:
        out = [_work(j) for j in jobs]
    return [_Res([_F(k, r) for k, r in f], u, e) for f, u, e in out]


def run_for(run, root):
    mod = rules_pkg.load(run.prop)
    mutants = getattr(mod, 'MUTANTS', [])
    twins = getattr(mod, 'TWINS', [])
    base_keys = set(f.key for f in run.findings)
    base_und = len(run.undecided)
    st = dict(mutants=0, mutants_flagged=0, mutants_skipped=0, benign_variants=0, benign_silent=0,
              benign_skipped=0, failures=[], flagged_by={})
    jobs, meta = [], []
    for kind, lst in (('mutant', mutants), ('twin', twins)):
        for m in lst:
            src = m.apply(root)
            if src is None:
                st['mutants_skipped' if kind == 'mutant' else 'benign_skipped'] += 1
                st.setdefault('skipped_names', []).append(m.name)
                continue
            jobs.append((run.prop, root, {m.file: src}))
            meta.append((kind, m))
    # automatic behaviour-preserving twin: every function-local variable renamed in every file
    # this property's rules looked at
    try:
        from .alpha import alpha_rename
        files = sorted(set(u.file for u in run.idx.all_units() if u.qual in run.units_analysed))
        ov = {}
        for f in files:
            with open(os.path.join(root, f), 'rb') as fh:
                ov[f] = alpha_rename(fh.read().decode('utf-8'))
        if ov:
            jobs.append((run.prop, root, ov))
            meta.append(('twin', M('alpha-rename-locals(%s)' % ','.join(os.path.basename(f) for f in files), None, None, None)))
        from .alpha import add_tracing
        ov2 = {}
        for f in files:
            with open(os.path.join(root, f), 'rb') as fh:
                ov2[f] = add_tracing(fh.read().decode('utf-8'))
        if ov2:
            jobs.append((run.prop, root, ov2))
            meta.append(('twin', M('trace-logging-inserted(%s)' % ','.join(os.path.basename(f) for f in files), None, None, None)))
        from .alpha import swap_if_else
        ov3 = {}
        for f in files:
            with open(os.path.join(root, f), 'rb') as fh:
                ov3[f] = swap_if_else(fh.read().decode('utf-8'))
        if ov3:
            jobs.append((run.prop, root, ov3))
            meta.append(('twin', M('if-else-swapped(%s)' % ','.join(os.path.basename(f) for f in files), None, None, None)))
    except SyntaxError:
        pass
    # behaviour-preserving clean-up patches written by independent sub-agents (see DESIGN 11.5): every one that touches a file this
    # property analyses must leave this property's check silent
    try:
        files = sorted(set(u.file for u in run.idx.all_units() if u.qual in run.units_analysed))
        pts, pskipped = patch_twins(root, files)
        for name, ov in pts:
            jobs.append((run.prop, root, ov))
            meta.append(('twin', M('patch:%s' % name, None, None, None)))
        for name in pskipped:
            st['benign_skipped'] += 1
            st.setdefault('skipped_names', []).append('patch:%s' % name)
    except OSError:
        pass
    for (kind, m), r in zip(meta, _analyse_many(jobs)):
        if r.error:
            st['failures'].append('%s %s: index failed: %s' % (kind, m.name, r.error))
            continue
        new = [f for f in r.findings if f.key not in base_keys]
        if kind == 'mutant':
            st['mutants'] += 1
            hit = [f for f in new if not m.rules or f.rule in m.rules]
            if hit:
                st['mutants_flagged'] += 1
                st['flagged_by'][m.name] = sorted(set(f.rule for f in hit))
            else:
                st['failures'].append('mutant %s not flagged by %s (new findings: %s; undecided: %s)' % (
                    m.name, m.rules or 'any rule', sorted(set(f.rule for f in new)), [u['what'][:80] for u in r.undecided[:2]]))
        else:
            st['benign_variants'] += 1
            if not new and len(r.undecided) <= base_und:
                st['benign_silent'] += 1
            else:
                st['failures'].append('benign twin %s raised %s %s' % (m.name, [f.key for f in new][:3], [u['what'][:80] for u in r.undecided[:2]]))
    run.selftest = st
    for f in st['failures']:
        run.undecide('SELFTEST', '-', f)
    run.notes.append('selftest: %d/%d mutants flagged (%d skipped), %d/%d benign twins silent (%d skipped)' % (
        st['mutants_flagged'], st['mutants'], st['mutants_skipped'], st['benign_silent'], st['benign_variants'], st['benign_skipped'])
        + (' skipped: %s' % ','.join(st.get('skipped_names', [])) if st.get('skipped_names') else ''))
