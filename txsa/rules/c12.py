"""C12 - SETCONF encodes any keys/values so Tor parses back exactly them, on one line."""
import ast

from .common import *  # noqa
from .c01 import U, proto, WRITE_CALLS

NEED_QUOTE = (' ', '\t', '"')


def quoter(run):
    sc = U(run, 'set_conf')
    for c in sc.children:
        if c.name == 'maybe_quote':
            return sc, c
    # role: the one function applied to each element of a list in set_conf (`[f(v) for v in values]`), nested in set_conf, at module
    # level, or a method of the protocol - a clean-up may move or rename it
    cands = []
    for n in walk_unit(sc):
        if isinstance(n, ast.ListComp) and isinstance(n.elt, ast.Call) and len(n.elt.args) == 1 and isinstance(n.elt.args[0], ast.Name) \
                and isinstance(n.generators[0].target, ast.Name) and n.elt.args[0].id == n.generators[0].target.id:
            f = n.elt.func
            tgt = None
            if isinstance(f, ast.Name):
                tgt = next((c for c in sc.children if c.name == f.id), None) or sc.module.functions.get(f.id)
            elif isinstance(f, ast.Attribute) and dotted(f.value) == 'self':
                tgt = run.idx.find_method(sc.owner_cls, f.attr)
            if tgt is not None and any(isinstance(x, ast.Constant) and x.value in ('"%s"', '"', '\\"') for x in walk_unit(tgt)):
                cands.append(tgt)
    if len(cands) == 1:
        return sc, cands[0]
    raise AnchorVanished('set_conf.maybe_quote')


def trigger_chars(test):
    """characters whose presence in the argument makes the test true (recognised idioms)."""
    out = set()
    always = False
    for n in ast.walk(test):
        if isinstance(n, ast.Compare) and len(n.ops) == 1 and isinstance(n.ops[0], ast.In) and isinstance(const(n.left), str) and len(const(n.left)) == 1:
            out.add(const(n.left))
        if isinstance(n, ast.GeneratorExp) or isinstance(n, ast.ListComp):
            for gen in n.generators:
                it = const(gen.iter)
                if isinstance(it, (str, list, tuple)) and isinstance(n.elt, ast.Compare) and isinstance(n.elt.ops[0], ast.In):
                    out.update(it)
        if isinstance(n, ast.Call) and dotted(n.func) in ('re.search', 're.match') and n.args and isinstance(const(n.args[0]), str):
            pat = const(n.args[0])
            if '\\s' in pat:
                out.update((' ', '\t'))
            for ch in NEED_QUOTE:
                if ch in pat:
                    out.add(ch)
    return out


def r12_1(run):
    sc, q = quoter(run)
    g = cfg_of(q)
    p = q.params[0]
    # quoting branches: returns whose value is a shape starting and ending with a double quote
    rets = [n for n in g.real_nodes() if n.kind == 'stmt' and isinstance(n.ast, ast.Return)]
    quoted, plain = [], []
    for r in rets:
        sh = shape(r.ast.value)
        if sh and isinstance(sh[0], str) and sh[0].startswith('"') and isinstance(sh[-1], str) and sh[-1].endswith('"'):
            quoted.append((r, sh))
        else:
            plain.append(r)
    run.ob('R12.1', q, q.node, 'a quoting branch exists', bool(quoted), slot='has-quote', message='maybe_quote never quotes')
    # (a) the unquoted return is reachable only when no critical character is present
    trig = set()
    tests = [t for t in g.live if t.kind == 'test']
    for t in tests:
        trig |= trigger_chars(t.ast)
    unconditional = bool(quoted) and not plain
    for ch in NEED_QUOTE:
        ok = unconditional or ch in trig
        run.ob('R12.1', q, q.node, 'a value containing %r is quoted' % ch, ok, slot='quotes:%r' % ch,
               message='maybe_quote leaves a value containing %r unquoted: Tor ends the value there / parses it differently' % ch)
    # every plain return must be behind the F edges of all trigger tests
    for r in plain:
        for t in tests:
            if trigger_chars(t.ast):
                ok = g.edge_dominates(t, 'F', r) or not any(r in g.reachable([s_ for lab, s_ in t.succ if lab == 'T']) for _ in (0,))
                run.ob('R12.1', q, r.ast, 'the unquoted form is returned only when no quoting trigger matched', ok, slot='plain-guarded',
                       message='maybe_quote can return the value unquoted although a trigger character matched')
    # (a') an unquoted value is sent exactly as given: Tor takes a run of non-blank characters literally (no unescaping outside
    # quotes), so an "escaped" plain return doubles every backslash
    qdefs = local_defs(q)
    for r in plain:
        v = r.ast.value
        if isinstance(v, ast.Name) and v.id != p and single_def(qdefs, v.id) and single_def(qdefs, v.id)[0] == 'expr':
            v = single_def(qdefs, v.id)[1]
        run.ob('R12.1', q, r.ast, 'the unquoted form is the value itself, untransformed', dotted(v) == p, slot='plain-verbatim',
               message='maybe_quote returns %s for a value that needs no quotes: outside quotes Tor does not unescape, so a backslash in such a value arrives doubled'
                       % src(v)[:50])
    # (b) inside quotes: backslash escaped first, then the double quote
    for r, sh in quoted:
        holes = [h for h in sh if isinstance(h, Hole)]
        ok, why = False, 'no value hole'
        if len(holes) == 1:
            e = holes[0].node
            chain = []
            while isinstance(e, ast.Call) and callee_attr(e) == 'replace' and len(e.args) == 2:
                chain.append((const(e.args[0]), const(e.args[1])))
                e = receiver(e)
            chain.reverse()
            if isinstance(e, ast.Call) and callee_attr(e) == 'translate' and len(e.args) == 1 and dotted(receiver(e)) == p:
                # one pass over a translation table: the table maps exactly backslash -> two backslashes and '"' -> backslash quote
                tbl = e.args[0]
                tv = None
                if isinstance(tbl, ast.Name):
                    for st_ in q.module.tree.body:
                        if isinstance(st_, ast.Assign) and any(isinstance(t_, ast.Name) and t_.id == tbl.id for t_ in st_.targets):
                            tv = st_.value
                else:
                    tv = tbl
                if isinstance(tv, ast.Call) and dotted(tv.func) == 'str.maketrans' and len(tv.args) == 1:
                    tv = tv.args[0]
                m_ = {}
                if isinstance(tv, ast.Dict):
                    for k_, v_ in zip(tv.keys, tv.values):
                        kk = const(k_)
                        if isinstance(k_, ast.Call) and dotted(k_.func) == 'ord' and k_.args:
                            kk = const(k_.args[0])
                        elif isinstance(kk, int):
                            kk = chr(kk)
                        m_[kk] = const(v_)
                ok = m_ == {'\\': '\\\\', '"': '\\"'}
                why = 'translate(%s)' % (sorted(m_.items()) if m_ else src(tbl))
            elif isinstance(e, ast.Call) and dotted(e.func) == 're.sub' and len(e.args) == 3:
                pat, rep = const(e.args[0]), const(e.args[1])
                ok = isinstance(pat, str) and '\\\\' in pat and '"' in pat and isinstance(rep, str) and rep.startswith('\\\\') and dotted(e.args[2]) == p
                why = 're.sub(%r, %r)' % (pat, rep)
            else:
                bs = [i for i, c in enumerate(chain) if c == ('\\', '\\\\')]
                dq = [i for i, c in enumerate(chain) if c == ('"', '\\"')]
                ok = bool(bs) and bool(dq) and bs[0] < dq[0] and dotted(e) == p
                why = 'replace chain %s on %s' % (chain, src(e))
        run.ob('R12.1', q, r.ast, 'inside quotes backslash is escaped, then the double quote', ok, slot='escapes',
               message='quoted value is not C-escaped (backslash first, then double quote): %s' % why)
    # the quoter is applied to every value and to nothing else
    defs = local_defs(sc)
    vq = [n for n in walk_unit(sc) if isinstance(n, ast.ListComp) and isinstance(n.elt, ast.Call) and dotted(n.elt.func) == q.name]
    def _values_iter(it):
        # the values list by name, or the odd positions of the argument list taken in place (X[1::2])
        if isinstance(it, ast.ListComp) and len(it.generators) == 1 and isinstance(it.generators[0].iter, ast.Call) and dotted(it.generators[0].iter.func) == 'range' \
                and len(it.generators[0].iter.args) == 3 and const(it.generators[0].iter.args[0]) == 1 and const(it.generators[0].iter.args[2]) == 2:
            return True         # the odd positions taken in place: [X[i] for i in range(1, len(X), 2)]
        return isinstance(it, ast.Name) or (isinstance(it, ast.Subscript) and isinstance(it.slice, ast.Slice) and const(it.slice.lower) == 1 and it.slice.upper is None
                                            and const(it.slice.step) == 2)
    ok = len(vq) == 1 and _values_iter(vq[0].generators[0].iter)
    run.ob('R12.1', sc, sc.node, 'every value goes through the quoter', ok, slot='applied', message='maybe_quote is not applied to the values list')


def r12_2(run):
    """a CR/LF rejecting test lies on every path from set_conf's arguments to the write"""
    sc = U(run, 'set_conf')
    qc = U(run, 'queue_command')
    mi = U(run, '_maybe_issue_command')

    def crlf_guard(u, sink_pred):
        """some test mentioning both '\\r' and '\\n' whose true leg cannot reach the sink"""
        g = cfg_of(u)
        sinks = g.nodes_where(sink_pred)
        if not sinks:
            return False
        for t in g.live:
            if t.kind != 'test':
                continue
            # group the short-circuit atoms of one statement
            owner_tests = [x for x in g.live if x.kind == 'test' and x.owner is t.owner]
            consts = set()
            for x in owner_tests:
                for n in ast.walk(x.ast):
                    if isinstance(n, ast.Constant) and n.value in ('\r', '\n', b'\r', b'\n', '\r\n', b'\r\n'):
                        consts.add(n.value if isinstance(n.value, str) else n.value.decode())
            if not ({'\r', '\n'} <= set(''.join(consts))):
                continue
            # all atoms true-legs of this statement must not reach a sink
            if all(not any(s in g.reachable([s_ for lab, s_ in x.succ if lab == 'T']) for s in sinks) for x in owner_tests
                   if any(isinstance(n, ast.Constant) and n.value in ('\r', '\n', b'\r', b'\n') for n in ast.walk(x.ast))):
                return True
        return False
    ok_sc = crlf_guard(sc, lambda n: any(isinstance(a, ast.Call) and callee_attr(a) == 'queue_command' for a in node_asts(n)))
    ok_qc = crlf_guard(qc, lambda n: any(is_call_to(a, 'self.commands.append') for a in node_asts(n)))
    ok_mi = crlf_guard(mi, lambda n: any(isinstance(a, ast.Call) and dotted(a.func) in WRITE_CALLS for a in node_asts(n)))
    run.ob('R12.2', sc, sc.node, 'a key or value containing CR or LF is rejected before anything is written', ok_sc or ok_qc or ok_mi, slot='crlf-guard',
           message='no test on both \\r and \\n lies between set_conf\'s arguments and the transport write: a value such as '
                   '"x\\r\\nSIGNAL HALT" puts a second command line on the wire')
    if ok_sc:
        # ... and fires for a value with only a CR as well as for one with only an LF (the two atoms are alternatives)
        gens = [n for n in walk_unit(sc) if isinstance(n, (ast.GeneratorExp, ast.ListComp)) and any(isinstance(c, ast.Constant) and c.value in ('\r', '\n') for c in ast.walk(n))]
        for gn in gens:
            tv = gn.generators[0].target.id if isinstance(gn.generators[0].target, ast.Name) else None
            cond = gn.generators[0].ifs[0] if gn.generators[0].ifs else gn.elt
            for sample, what in (('a\rb', 'CR'), ('a\nb', 'LF'), ('\r', 'CR alone'), ('x\n', 'trailing LF')):
                r = eval_small(cond, {tv: sample})
                run.ob('R12.2', sc, gn, 'the CR/LF test rejects a value containing only %s' % what, None if r is UNKNOWN else bool(r), slot='crlf-either:%s' % what,
                       message='the CR/LF test %s is false for a value containing only %s: that value reaches the wire and splits the command line' % (src(cond)[:50], what))
        g = cfg_of(sc)
        # the guard looks at the stringified arguments (keys and values alike)
        gens = [n for n in walk_unit(sc) if isinstance(n, (ast.GeneratorExp, ast.ListComp)) and any(isinstance(c, ast.Constant) and c.value in ('\r', '\n') for c in ast.walk(n))]
        allargs = set([sc.node.args.vararg.arg if sc.node.args.vararg else '']) | set(names_defined_by(sc, lambda v: isinstance(v, ast.ListComp) and 'str(' in src(v.elt) and dotted(v.generators[0].iter) == (sc.node.args.vararg.arg if sc.node.args.vararg else None)))
        okv = any(dotted(gn.generators[0].iter) in allargs for gn in gens) or not gens
        run.ob('R12.2', sc, sc.node, 'the CR/LF test covers keys and values', okv, slot='crlf-covers', message='the CR/LF test only looks at %s' % [src(gn.generators[0].iter) for gn in gens])


def r12_3(run):
    sc = U(run, 'set_conf')
    defs = local_defs(sc)
    cmds = [c for c in calls_in(sc) if callee_attr(c) == 'queue_command']
    run.floor('R12.3', 'queue_command calls in set_conf', len(cmds), 1)
    for c in cmds:
        sh = shape(c.args[0], expr_defs_for_shape(defs)) if c.args else []
        ok = shape_prefix(sh) == 'SETCONF ' and len([h for h in sh if isinstance(h, Hole)]) == 1 and len(sh) == 2
        run.ob('R12.3', sc, c, 'one command "SETCONF " + items', ok, slot='prefix', message='set_conf sends %s' % shape_text(sh))
    g = cfg_of(sc)
    n_ok = 0
    for p in g.paths(loop_bound=1):
        run.paths_enumerated += 1
        k = sum(1 for n, _ in p.steps for a in node_asts(n) if n.kind == 'stmt' and isinstance(a, ast.Call) and callee_attr(a) == 'queue_command')
        run.ob('R12.3', sc, sc.node, 'at most one command per set_conf call', k <= 1, slot='one-command', message='set_conf issues %d commands on %s' % (k, p.describe()))
    joins = [n for n in walk_unit(sc) if isinstance(n, ast.Call) and callee_attr(n) == 'join' and const(receiver(n)) == ' ']
    run.ob('R12.3', sc, sc.node, 'items separated by exactly one space', len(joins) == 1, slot='join', message='set_conf joins items with %s' % [src(receiver(j)) for j in [n for n in walk_unit(sc) if isinstance(n, ast.Call) and callee_attr(n) == 'join']])
    allnodes = list(walk_unit(sc)) + [n for ch in sc.children if isinstance(ch.node, ast.Lambda) for n in walk_unit(ch)]
    # (an item formatter over zip(keys, values) must use the pair in (key, value) order)
    for n in allnodes:
        if isinstance(n, (ast.ListComp, ast.GeneratorExp)) and isinstance(n.generators[0].iter, ast.Call) and dotted(n.generators[0].iter.func) == 'zip' \
                and isinstance(n.generators[0].target, ast.Tuple) and isinstance(n.elt, ast.BinOp) and isinstance(n.elt.right, ast.Tuple):
            tnames = [dotted(e) for e in n.generators[0].target.elts]
            used = [dotted(e) for e in n.elt.right.elts]
            run.ob('R12.3', sc, n, 'the item formatter writes key before value', tnames == used, slot='item-order', message='items formatted as %s from %s' % (used, tnames))
    fmts = [const(n.left) for n in allnodes if isinstance(n, ast.BinOp) and isinstance(n.op, ast.Mod) and isinstance(const(n.left), str)]
    fmts += [const(receiver(n)) for n in allnodes if isinstance(n, ast.Call) and callee_attr(n) == 'format' and isinstance(const(receiver(n)), str)]
    run.ob('R12.3', sc, sc.node, 'each item is key=value', '%s=%s' in fmts or '{}={}' in fmts, slot='item-format', message='item formats: %s' % fmts)
    # keys = even positions, values = odd positions, same order
    ranges = {}
    for name, ds in defs.items():
        for d in ds:
            if d[0] == 'expr' and isinstance(d[1], ast.ListComp):
                it = d[1].generators[0].iter
                if isinstance(it, ast.Call) and dotted(it.func) == 'range' and len(it.args) == 3:
                    ranges[name] = (const(it.args[0]), const(it.args[2]), src(d[1].elt))
                if isinstance(it, ast.Subscript) and isinstance(it.slice, ast.Slice) and it.slice.upper is None and const(it.slice.step) == 2:
                    ranges[name] = (0 if it.slice.lower is None else const(it.slice.lower), 2, src(it.value))
                if isinstance(it, ast.ListComp) and len(it.generators) == 1 and isinstance(it.generators[0].iter, ast.Call) and dotted(it.generators[0].iter.func) == 'range' \
                        and len(it.generators[0].iter.args) == 3:
                    ranges[name] = (const(it.generators[0].iter.args[0]), const(it.generators[0].iter.args[2]), src(it.elt))
            # the same as an extended slice: X[0::2] / X[::2] and X[1::2]
            if d[0] == 'expr' and isinstance(d[1], ast.Subscript) and isinstance(d[1].slice, ast.Slice) and d[1].slice.upper is None and const(d[1].slice.step) == 2:
                lo = 0 if d[1].slice.lower is None else const(d[1].slice.lower)
                ranges[name] = (lo, 2, src(d[1].value))
    # the item formatter pairs (even-position name, odd-position name) in that order
    even = [n for n, r in ranges.items() if r[:2] == (0, 2)]
    odd = [n for n, r in ranges.items() if r[:2] == (1, 2)]
    pair_ok = False
    for n in allnodes:
        if isinstance(n, ast.Call) and dotted(n.func) in ('map', 'zip') and len(n.args) >= 2:
            tail = [dotted(a) for a in n.args[-2:]]
            if len(even) == 1 and len(odd) == 1 and tail == [even[0], odd[0]]:
                pair_ok = True
    ok = len(even) == 1 and len(odd) == 1 and pair_ok
    run.ob('R12.3', sc, sc.node, 'keys are the even, values the odd arguments, in order', ok, slot='pairing', message='pairing ranges: %s' % ranges)
    # str() conversion of non-string values
    va = sc.node.args.vararg.arg if sc.node.args.vararg else None
    sa = [d for ds in defs.values() for d in ds if d[0] == 'expr' and isinstance(d[1], ast.ListComp) and 'str(' in src(d[1].elt) and dotted(d[1].generators[0].iter) == va]
    ok = bool(sa)
    run.ob('R12.3', sc, sc.node, 'non-string values are converted with str()', ok, slot='str-conversion', message='strargs = %s' % [src(d[1]) for d in sa])
    for d in sa:
        lc = d[1]
        tv = lc.generators[0].target.id if isinstance(lc.generators[0].target, ast.Name) else None
        exact = isinstance(lc.elt, ast.Call) and dotted(lc.elt.func) == 'str' and len(lc.elt.args) == 1 and dotted(lc.elt.args[0]) == tv and not lc.generators[0].ifs
        run.ob('R12.3', sc, lc, 'keys and values are converted with str() and nothing else', exact, slot='str-conversion-exact',
               message='set_conf converts its arguments with %s: what is sent (or refused) is no longer the key / value that was given' % src(lc.elt)[:50])
    # odd number of arguments is refused before anything is sent
    tests = [t for t in g.live if t.kind == 'test' and '% 2' in src(t.ast)]
    sinks = g.nodes_where(lambda n: any(isinstance(a, ast.Call) and callee_attr(a) == 'queue_command' for a in node_asts(n)))
    ok = bool(tests) and all(not any(s in g.reachable([s_ for lab, s_ in t.succ if lab == 'T']) for s in sinks) for t in tests)
    run.ob('R12.3', sc, sc.node, 'an odd number of arguments sends nothing', ok, slot='odd-args', message='odd argument count is not refused')


def r12_4(run):
    """what set_conf hands to queue_command reaches the wire unchanged: the command-text integrity rule of C01 (R01.2)"""
    from . import c01
    borrow(run, c01.r01_2, 'R12.4')


def r12_5(run):
    """a line is produced for *any* keys and values: between set_conf's arguments and the queue the only tests on the text that
    can refuse a command are the CR/LF test, the even-number-of-arguments test and type tests - a "printable only", "ASCII only" or
    length filter refuses values the property covers (a TAB is legal inside a quoted value)"""
    sc = U(run, 'set_conf')
    qc = U(run, 'queue_command')
    k = 0
    for u, sink in ((sc, lambda a: isinstance(a, ast.Call) and callee_attr(a) == 'queue_command'),
                    (qc, lambda a: is_call_to(a, 'self.commands.append'))):
        g = cfg_of(u)
        texty = set(u.params[1:2]) | set([u.node.args.vararg.arg] if u.node.args.vararg else [])
        defs = local_defs(u)
        changed = True
        while changed:
            changed = False
            for nm, ds in defs.items():
                if nm in texty:
                    continue
                for d in ds:
                    if len(d) > 1 and isinstance(d[1], ast.AST) and any(isinstance(x, ast.Name) and x.id in texty for x in ast.walk(d[1])):
                        texty.add(nm)
                        changed = True
                        break
        sinks = g.nodes_where(lambda n: any(sink(a) for a in node_asts(n)))
        if not sinks:
            raise AnchorVanished('%s: command sink' % u.short)
        after = g.reachable(sinks)
        refusals = [n for n in g.real_nodes() if n.kind == 'stmt' and isinstance(n.ast, (ast.Return, ast.Raise)) and n not in after]
        for e in refusals:
            for t, lab in g.guarded_by(e, lambda t_: True):
                a = t.ast
                if not any(isinstance(x, ast.Name) and x.id in texty for x in ast.walk(a)):
                    continue
                k += 1
                consts = set(c.value for c in ast.walk(a) if isinstance(c, ast.Constant) and isinstance(c.value, (str, bytes)))
                crlf = bool(consts) and all(set(c if isinstance(c, str) else c.decode('latin1')) <= set('\r\n') for c in consts)
                typ = isinstance(a, ast.Call) and dotted(a.func) == 'isinstance'
                arity = isinstance(a, ast.BinOp) and isinstance(a.op, ast.Mod) and 'len(' in src(a)
                if isinstance(a, ast.Compare) and len(a.ops) == 1 and isinstance(a.left, ast.BinOp) and isinstance(a.left.op, ast.Mod) and 'len(' in src(a.left) \
                        and isinstance(const(a.comparators[0]), int):
                    arity = True        # len(args) % 2 != 0 / == 1 / ...
                run.ob('R12.5', u, a, 'a command is refused only for CR/LF, an odd argument count or a wrong type', crlf or typ or arity,
                       slot='refusal:%s:%s' % (u.name, src(a)[:30]),
                       message='%s refuses a command when %s%s: values the property covers (any printable text, tabs, quotes, backslashes) produce no SETCONF line'
                               % (u.short, '' if lab == 'T' else 'not ', src(a)[:60]))
    run.floor('R12.5', 'refusing tests on the command text', k, 2)


RULES = [
    ('R12.4', 'the command text set_conf builds is queued, encoded and written unchanged (rule R01.2 borrowed)', r12_4),
    ('R12.1', 'quoting is total over the critical characters (space, tab, double quote) and escapes backslash then quote (recognised idioms)', r12_1),
    ('R12.2', 'sanitiser on the path: a test on both CR and LF rejects before the command can be queued/written', r12_2),
    ('R12.5', 'who-may-refuse: the only tests on the text that refuse a command are CR/LF, argument parity and type tests', r12_5),
    ('R12.3', 'one "SETCONF " command, items key=value joined by one space, even/odd pairing in argument order', r12_3),
]

from ..selftest import M  # noqa: E402
F = 'txtorcon/torcontrolprotocol.py'
MUTANTS = [
    M('unquoted-values-escaped-too', F, "            if ' ' in s or '\\t' in s or '\"' in s:\n                return '\"%s\"' % s.replace('\\\\', '\\\\\\\\').replace('\"', '\\\\\"')\n            return s\n", "            escaped = s.replace('\\\\', '\\\\\\\\').replace('\"', '\\\\\"')\n            if ' ' in s or '\\t' in s or '\"' in s:\n                return '\"%s\"' % escaped\n            return escaped\n", ['R12.1']),
    M('printable-only-filter', F, "        if not isinstance(cmd, bytes):\n            cmd = cmd.encode('ascii')\n        d = defer.Deferred()", "        if not isinstance(cmd, bytes):\n            if not cmd.isprintable():\n                return defer.fail(ValueError('control characters'))\n            cmd = cmd.encode('ascii')\n        d = defer.Deferred()", ['R12.5']),
    M('length-limit', F, "        keys = [strargs[i] for i in range(0, len(strargs), 2)]", "        if any(len(x) > 255 for x in strargs):\n            raise ValueError('too long')\n        keys = [strargs[i] for i in range(0, len(strargs), 2)]", ['R12.5']),
    M('crlf-both-required', F, "if any('\\r' in x or '\\n' in x for x in strargs):", "if any('\\r' in x and '\\n' in x for x in strargs):", ['R12.2']),
    M('args-rstripped', F, "        strargs = [str(x) for x in args]", "        strargs = [str(x).rstrip('\\r\\n') for x in args]", ['R12.3']),
    M('command-whitespace-collapsed', F, "            cmd = cmd.encode('ascii')\n        d = defer.Deferred()", "            cmd = re.sub(r'\\s+', ' ', cmd).encode('ascii')\n        d = defer.Deferred()", ['R12.4/R01.2']),
    M('no-escape', F, "return '\"%s\"' % s.replace('\\\\', '\\\\\\\\').replace('\"', '\\\\\"')", "return '\"%s\"' % s", ['R12.1']),
    M('escape-order-swapped', F, "s.replace('\\\\', '\\\\\\\\').replace('\"', '\\\\\"')", "s.replace('\"', '\\\\\"').replace('\\\\', '\\\\\\\\')", ['R12.1']),
    M('only-space-quoted', F, "if ' ' in s or '\\t' in s or '\"' in s:", "if ' ' in s:", ['R12.1']),
    M('quoter-not-applied', F, "        values = [maybe_quote(v) for v in values]\n", "        values = [v for v in values]\n", ['R12.1']),
    M('no-crlf-guard', F, "        if any('\\r' in x or '\\n' in x for x in strargs):\n            d = defer.Deferred()\n            d.errback(ValueError(\"Keys and values can't contain newlines.\"))\n            return d\n", "", ['R12.2']),
    M('crlf-guard-only-lf', F, "if any('\\r' in x or '\\n' in x for x in strargs):", "if any('\\n\\n' in x or '\\n' in x for x in strargs):", ['R12.2']),
    M('crlf-guard-no-return', F, "            d.errback(ValueError(\"Keys and values can't contain newlines.\"))\n            return d\n", "            d.errback(ValueError(\"Keys and values can't contain newlines.\"))\n", ['R12.2']),
    M('joined-by-comma', F, "args = ' '.join(map(lambda x, y: '%s=%s' % (x, y), keys, values))", "args = ','.join(map(lambda x, y: '%s=%s' % (x, y), keys, values))", ['R12.3']),
    M('pairing-shifted', F, "values = [strargs[i] for i in range(1, len(strargs), 2)]", "values = [strargs[i] for i in range(0, len(strargs), 2)]", ['R12.3']),
    M('setconf-per-pair', F, "        return self.queue_command('SETCONF ' + args)", "        for a in args.split(' ')[:-1]:\n            self.queue_command('SETCONF ' + a)\n        return self.queue_command('SETCONF ' + args)", ['R12.3']),
]
TWINS = [
    M('pairing-by-slices-and-zip', F, ["        keys = [strargs[i] for i in range(0, len(strargs), 2)]\n        values = [strargs[i] for i in range(1, len(strargs), 2)]\n", "        args = ' '.join(map(lambda x, y: '%s=%s' % (x, y), keys, values))\n"], ["        keys = strargs[0::2]\n        values = strargs[1::2]\n", "        args = ' '.join(['%s=%s' % (k, v) for k, v in zip(keys, values)])\n"]),
    M('quoter-at-module-level', F, ["        def maybe_quote(s):\n            # control-spec: a value is either a run of non-space\n            # characters or a QuotedString with C-style escapes\n            if ' ' in s or '\\t' in s or '\"' in s:\n                return '\"%s\"' % s.replace('\\\\', '\\\\\\\\').replace('\"', '\\\\\"')\n            return s\n        values = [maybe_quote(v) for v in values]\n", "class TorControlProtocol(LineOnlyReceiver):\n"],
      ["        values = [_quote_conf_value(v) for v in values]\n", "def _quote_conf_value(s):\n    if ' ' in s or '\\t' in s or '\"' in s:\n        return '\"%s\"' % s.replace('\\\\', '\\\\\\\\').replace('\"', '\\\\\"')\n    return s\n\n\nclass TorControlProtocol(LineOnlyReceiver):\n"]),
    M('any-over-chars', F, "if ' ' in s or '\\t' in s or '\"' in s:", "if any(c in s for c in ' \\t\"'):"),
    M('crlf-in-loop-form', F, "if any('\\r' in x or '\\n' in x for x in strargs):", "if [x for x in strargs if '\\r' in x or '\\n' in x]:"),
]
