"""C09 - each new stream gets exactly one attachment decision, honouring the attacher."""
import ast

from .common import *  # noqa
from .c07 import TS, TU


def _isa(run):
    ma = TU(run, '_maybe_attach')
    for c in ma.children:
        if c.name == 'issue_stream_attach':
            return ma, c
    raise AnchorVanished('TorState._maybe_attach.issue_stream_attach')


def attach_cmd(u, call):
    if callee_attr(call) != 'queue_command' or not call.args:
        return None
    sh = shape(call.args[0], expr_defs_for_shape(local_defs(u)))
    if shape_prefix(sh).startswith('ATTACHSTREAM '):
        return sh
    return None


def _circ_env_classes():
    # abstract classes of the attacher's answer, decided through the tests the code applies
    out = ['none', 'marker', 'falsy']   # falsy: a non-circuit answer that is false in a boolean test (0, '', [], False)
    for i in (False, True):
        for k in (False, True):
            for b in (False, True):
                out.append((i, k, b))
    return out


def _descend(u):
    out = []
    for c in u.children:
        out.append(c)
        out.extend(_descend(c))
    return out


def r09_1_2(run):
    ma, isa = _isa(run)
    g = cfg_of(isa)
    p = isa.params[0]
    cmds = [(c, attach_cmd(isa, c)) for c in calls_in(isa)]
    cmds = [(c, sh) for c, sh in cmds if sh is not None]
    run.floor('R09.2', 'ATTACHSTREAM senders in issue_stream_attach', len(cmds), 1)
    base_defs = expr_defs_for_shape(local_defs(isa))

    def hook_for(cls):
        def hook(node, val, trail):
            a = node.ast
            if isinstance(a, ast.Compare) and dotted(a.left) == p and len(a.ops) == 1:
                r = a.comparators[0]
                if is_none(r):
                    v = cls == 'none'
                elif (dotted(r) or '').endswith('DO_NOT_ATTACH'):
                    v = cls == 'marker'
                else:
                    return None
                if isinstance(a.ops[0], (ast.Is, ast.Eq)):
                    return v
                if isinstance(a.ops[0], (ast.IsNot, ast.NotEq)):
                    return not v
                return None
            if isinstance(a, ast.Call) and dotted(a.func) == 'isinstance' and a.args and dotted(a.args[0]) == p:
                return isinstance(cls, tuple) and cls[0]
            if isinstance(a, ast.Compare) and dotted(a.left) == p + '.id' and dotted(a.comparators[0]) == 'self.circuits':
                known = isinstance(cls, tuple) and cls[1]
                return known if isinstance(a.ops[0], ast.In) else (not known)
            if isinstance(a, ast.Compare) and dotted(a.left) == p + '.state' and const(a.comparators[0]) == 'BUILT':
                built = isinstance(cls, tuple) and cls[2]
                return built if isinstance(a.ops[0], ast.Eq) else (not built)
            if dotted(a) == p:
                return cls not in ('none', 'falsy')
            return None
        return hook
    for cls in _circ_env_classes():
        paths = g.paths(eval_hook=hook_for(cls))
        run.paths_enumerated += len(paths)
        for pth in paths:
            sent = []
            pathdefs = dict(base_defs)
            for n, lab in pth.steps:
                for a in node_asts(n):
                    for c, sh in cmds:
                        if a is c:
                            # a hole that is a local set differently per leg (target = 0 ... target = circ.id) has, on this path, the
                            # value last assigned on it
                            sh2 = []
                            for piece in shape(c.args[0], pathdefs):
                                if isinstance(piece, Hole) and isinstance(piece.node, ast.Name) and len(pathdefs.get(piece.node.id, [])) == 1:
                                    v_ = pathdefs[piece.node.id][0]
                                    cv = const(v_)
                                    piece = str(cv) if cv is not NOCONST and isinstance(cv, (int, str)) else Hole(v_)
                                if isinstance(piece, str) and sh2 and isinstance(sh2[-1], str):
                                    sh2[-1] += piece
                                else:
                                    sh2.append(piece)
                            sent.append(sh2)
                if n.kind == 'stmt' and isinstance(n.ast, ast.Assign) and lab != 'exc':
                    for t_ in n.ast.targets:
                        if isinstance(t_, ast.Name):
                            pathdefs[t_.id] = [n.ast.value]
            desc = 'answer=%s: %s' % (cls, pth.describe(8))
            if cls == 'marker':
                run.ob('R09.1', isa, isa.node, 'do-not-attach sends nothing', not sent and pth.exit != 'raise', slot='do-not-attach',
                       message='the DO_NOT_ATTACH answer sends %s (Tor is told to attach the stream itself)' % [shape_text(s) for s in sent], path=desc)
            elif cls == 'none':
                ok = len(sent) == 1 and shape_text(sent[0]).rstrip().endswith(' 0') and pth.exit != 'raise'
                run.ob('R09.2', isa, isa.node, '"no preference" sends exactly ATTACHSTREAM <id> 0', ok, slot='none-attach0',
                       message='a None answer sends %s' % [shape_text(s) for s in sent], path=desc)
            elif cls == (True, True, True):
                ok = len(sent) == 1 and pth.exit != 'raise'
                if ok:
                    holes = [h for h in sent[0] if isinstance(h, Hole)]
                    ok = len(holes) == 2 and dotted(holes[0].node) == 'stream.id' and dotted(holes[1].node) == p + '.id'
                run.ob('R09.2', isa, isa.node, 'a BUILT known circuit sends exactly ATTACHSTREAM <stream id> <circuit id>', ok, slot='good-attach',
                       message='a valid circuit answer sends %s' % [shape_text(s) for s in sent], path=desc)
            elif cls == 'falsy':
                run.ob('R09.4', isa, isa.node, 'a falsy non-circuit answer (0, "", [], False) is reported and sends nothing', not sent and pth.exit == 'raise', slot='invalid:falsy',
                       message='an attacher answer such as 0 or "" %s: only None means "no preference"' % ('sends %s' % [shape_text(s_) for s_ in sent] if sent else 'is silently accepted'), path=desc)
            else:
                cls_s = 'circuit=%s known=%s built=%s' % cls
                run.ob('R09.4', isa, isa.node, 'invalid answer (%s) is reported and sends nothing' % cls_s, not sent and pth.exit == 'raise', slot='invalid:%s' % cls_s,
                       message='an invalid attacher answer (%s) %s' % (cls_s, 'sends %s' % [shape_text(s) for s in sent] if sent else 'is silently accepted'), path=desc)
    # one decision means one: nothing nested in the decision callback (an errback on the ATTACHSTREAM Deferred, a retry) sends a
    # second ATTACHSTREAM - "let Tor choose" after Tor refused the chosen circuit replaces the attacher's decision by another one
    extra = []
    for ch in _descend(isa):
        for c in calls_in(ch):
            if callee_attr(c) == 'queue_command' and c.args and 'ATTACHSTREAM' in src(c.args[0]):
                extra.append((ch, c))
    for ch, c in extra:
        run.ob('R09.2', ch, c, 'no second ATTACHSTREAM from a callback nested in the decision', False, slot='second-decision@%s' % ch.name,
               message='%s (nested in issue_stream_attach) sends %s: a stream whose attach command Tor refused gets a second, different decision' % (ch.name, src(c.args[0])[:50]))
    run.ob('R09.2', isa, isa.node, 'nested callbacks of the decision examined (%d senders)' % len(extra), True)
    # chain shape in _maybe_attach
    gm = cfg_of(ma)
    cbs = [(callee_attr(c), dotted(c.args[0]) if c.args else None, c) for c in calls_in(ma) if callee_attr(c) in ('addCallback', 'addErrback', 'addBoth')]
    names = [(k, a) for k, a, _ in cbs]
    ok = ('addCallback', 'issue_stream_attach') in names and names[-1] == ('addErrback', 'self._attacher_error') and \
        names.count(('addCallback', 'issue_stream_attach')) == 1
    run.ob('R09.2', ma, ma.node, 'one decision callback, chain ends in addErrback(self._attacher_error)', ok, slot='chain', message='attacher chain is %s' % names)
    okc = ('addCallback', 'maybe_coroutine') in names and ('addCallback', 'issue_stream_attach') in names and \
        names.index(('addCallback', 'maybe_coroutine')) < names.index(('addCallback', 'issue_stream_attach'))
    run.ob('R09.2', ma, ma.node, "an answer that is (or fires with) a coroutine is awaited before it is judged", okc, slot='chain-coroutine',
           message='the attacher chain %s no longer passes the answer through maybe_coroutine before issue_stream_attach: an attacher whose Deferred fires with a '
                   'coroutine gets its (valid) answer reported as "not a Circuit" and nothing is sent' % names)
    md = [c for c in calls_in(ma) if dotted(c.func) in ('defer.maybeDeferred', 'maybeDeferred')]
    ok = len(md) == 1 and md[0].args and dotted(md[0].args[0]) == 'self._attacher.attach_stream' and len(md[0].args) >= 3 and dotted(md[0].args[1]) == ma.params[1]
    run.ob('R09.2', ma, ma.node, 'the attacher is consulted exactly once with the stream', ok, slot='consult-once', message='_maybe_attach consults the attacher %d times' % len(md))
    # called only for new streams
    su = TU(run, '_stream_update')
    gs = cfg_of(su)
    calls = [c for c in calls_in(su, 'self._maybe_attach')]
    run.floor('R09.2', '_maybe_attach call sites', len(calls), 1)
    for c in calls:
        for n in gs.nodes_containing(c):
            flagnames = names_defined_by(su, lambda v: const(v) is True or (isinstance(v, ast.Compare) and is_none(v.comparators[0])) or
                                         (isinstance(v, ast.Compare) and len(v.ops) == 1 and isinstance(v.ops[0], ast.NotIn) and dotted(v.comparators[0]) == 'self.streams'))
            # a flag computed as "not yet in self.streams" means "new" only if it is computed before the stream is entered
            ins = gs.nodes_where(lambda x: x.kind == 'stmt' and isinstance(x.ast, ast.Assign) and any(isinstance(t_, ast.Subscript) and dotted(t_.value) == 'self.streams' for t_ in x.ast.targets))
            for fn_ in list(flagnames):
                dn = gs.nodes_where(lambda x: x.kind == 'stmt' and isinstance(x.ast, ast.Assign) and fn_ in assigned_targets(x.ast) and isinstance(x.ast.value, ast.Compare)
                                    and isinstance(x.ast.value.ops[0], ast.NotIn))
                late = [d_ for d_ in dn if any(d_ in gs.reachable([s_ for _, s_ in i_.succ], follow_exc=False) for i_ in ins)]
                if late:
                    flagnames = [x for x in flagnames if x != fn_]
            gd = gs.guarded_by(n, lambda t: dotted(t) in flagnames)
            by_flag = any(lab == 'T' for _, lab in gd)
            # the same fact without a flag: every path to the call passes the creation of the stream object, and the creation
            # itself happens only where "id not in self.streams" is established
            by_flow = any(gs.dominates(i_, n) and established(gs, i_, 'member', lambda t_: dotted(t_.comparators[0]) == 'self.streams', positive=False) for i_ in ins)
            run.ob('R09.2', su, c, 'attachment decided only when the stream is first seen', by_flag or by_flow, slot='wasnew',
                   message='_maybe_attach reachable for streams that are not new (a second decision per stream)')
    for c in calls:
        for n in gs.nodes_containing(c):
            gd1 = gs.guarded_by(n, lambda t: isinstance(t, ast.Compare) and isinstance(t.ops[0], (ast.In, ast.NotIn)) and dotted(t.comparators[0]) == 'self.streams')
            still = any((lab == 'T') == isinstance(t.ast.ops[0], ast.In) for t, lab in gd1)
            gd2 = gs.guarded_by(n, lambda t: isinstance(t, ast.Compare) and (dotted(t.left) or '').endswith('.state'))
            alive = any(True for t, lab in gd2 if any(x in src(t.ast) for x in ('CLOSED', 'FAILED')))
            run.ob('R09.2', su, c, 'no decision for a stream the same event already closed (still listed after update)', still or alive, slot='still-listed',
                   message='_maybe_attach is called even if the update removed the stream again (first sight of an id in state CLOSED/FAILED): '
                           'the attacher is asked about a dead stream and an ATTACHSTREAM is sent for it')
    wn = [(st, v) for fl in names_defined_by(su, lambda v: const(v) is True) for st, v in writes_of(su, fl)]
    for st, v in wn:
        if const(v) is True:
            for n in gs.nodes_containing(st):
                gd = gs.guarded_by(n, lambda t: isinstance(t, ast.Compare) and isinstance(t.ops[0], ast.NotIn) and dotted(t.comparators[0]) == 'self.streams')
                run.ob('R09.2', su, st, '"new" means the id was not in self.streams', any(lab == 'T' for _, lab in gd), slot='wasnew-def', message='wasnew set outside the first-sight leg')
    for u in class_units(run.idx, TS(run)):
        if u is su:
            continue
        for c in calls_in(u, 'self._maybe_attach'):
            run.ob('R09.2', u, c, '_maybe_attach called only from _stream_update', False, slot='caller@%s' % u.short, message='%s calls _maybe_attach' % u.short)
    # R09.3: .exit early return precedes consulting the attacher
    for c in md:
        for n in gm.nodes_containing(c):
            ets = [t for t in gm.live if t.kind == 'test' and isinstance(t.ast, ast.Compare) and const(t.ast.left) == '.exit'
                   and isinstance(t.ast.ops[0], ast.In)]
            ok = bool(ets) and all(n not in gm.reachable([s_ for lab, s_ in t.succ if lab == 'T']) for t in ets)
            run.ob('R09.3', ma, c, '.exit targets are never offered to the attacher', ok, slot='exit-skip',
                   message='the attacher is consulted for .exit addresses')
            gd = gm.guarded_by(n, lambda t: isinstance(t, ast.Compare) and dotted(t.left) == 'self._attacher' and is_none(t.comparators[0]))
            run.ob('R09.3', ma, c, 'no attacher installed: nothing is decided', any((lab == 'F') == isinstance(t.ast.ops[0], ast.Is) for t, lab in gd), slot='no-attacher',
                   message='attacher consulted without testing that one is installed')


def r09_5(run):
    sa = TU(run, 'set_attacher')
    g = cfg_of(sa)

    def setconf(a):
        if isinstance(a, ast.Call) and callee_attr(a) == 'set_conf' and a.args and const(a.args[0]) == '__LeaveStreamsUnattached':
            return str(const(a.args[1])) if len(a.args) > 1 else '?'
        if is_call_to(a, 'self.undo_attacher'):
            return 'undo'
        return None
    ua = TU(run, 'undo_attacher')
    vals = [setconf(c) for c in calls_in(ua) if setconf(c)]
    run.ob('R09.5', ua, ua.node, 'undo_attacher sets __LeaveStreamsUnattached to 0', vals == ['0'], slot='undo', message='undo_attacher issues %s' % vals)
    for arg_truthy in (True, False):
        for same in ((True, False) if arg_truthy else (False,)):
            for slot_empty in (True, False):
                if same and slot_empty:
                    continue

                def hook(node, val, trail, arg_truthy=arg_truthy, same=same, slot_empty=slot_empty):
                    a = node.ast
                    cur_none = slot_empty
                    installed = None
                    for n, lab in trail:
                        if n.kind == 'stmt' and isinstance(n.ast, ast.Assign):
                            v = assign_to(n.ast, 'self._attacher')
                            if v is not None:
                                cur_none = is_none(v)
                    if dotted(a) == sa.params[1]:
                        return arg_truthy
                    if isinstance(a, ast.Compare) and dotted(a.left) == 'self._attacher' and len(a.ops) == 1:
                        r = a.comparators[0]
                        if is_none(r):
                            return cur_none if isinstance(a.ops[0], ast.Is) else (not cur_none)
                        if dotted(r) == sa.params[1]:
                            return same if isinstance(a.ops[0], ast.Is) else (not same)
                    return None
                for p in g.paths(eval_hook=hook):
                    run.paths_enumerated += 1
                    eff = [e for e, _, _ in path_effects(p, setconf)]
                    tag = 'attacher=%s same=%s slot_empty=%s' % ('given' if arg_truthy else 'None', same, slot_empty)
                    if arg_truthy and same:
                        run.ob('R09.5', sa, sa.node, 're-installing the same attacher changes nothing', not eff and p.exit != 'raise', slot='same',
                               message='set_attacher(same) issues %s' % eff, path=tag)
                    elif arg_truthy and not slot_empty:
                        run.ob('R09.5', sa, sa.node, 'a second, different attacher is refused before anything is sent', p.exit == 'raise' and not eff, slot='second-refused',
                               message='installing a second attacher %s' % ('issues %s' % eff if eff else 'is accepted'), path=tag)
                    elif arg_truthy:
                        run.ob('R09.5', sa, sa.node, 'installing tells Tor to leave streams unattached', eff == ['1'] and p.exit != 'raise', slot='install',
                               message='installing an attacher issues %s' % eff, path=tag)
                    else:
                        run.ob('R09.5', sa, sa.node, 'removing tells Tor to attach streams itself again', eff == ['undo'] and p.exit != 'raise', slot='remove',
                               message='removing the attacher issues %s' % eff, path=tag)
    for st, v in writes_of(sa, 'self._attacher'):
        pass
    for u in class_units(run.idx, TS(run)):
        for st, v in writes_of(u, 'self._attacher'):
            ok = u.name in ('__init__', 'set_attacher')
            run.ob('R09.5', u, st, 'attacher slot written only by set_attacher', ok, slot='slot-write@%s' % u.short, message='%s writes self._attacher' % u.short)


def r09_6(run):
    ca = run.idx.cls('_CircuitAttacher', 'circuit')
    add = run.idx.find_method(ca, '_add_real_target')
    if add is None:
        # by role: the one function of the class (a method, or a callback nested in one) that stores into self._circuit_targets
        writers = [u for u in class_units(run.idx, ca) if any(isinstance(n, ast.Assign) and isinstance(n.targets[0], ast.Subscript) and dotted(n.targets[0].value) == 'self._circuit_targets'
                                                              for n in walk_unit(u)) or any(dotted(c.func) == 'self._circuit_targets.setdefault' for c in calls_in(u))]
        # (the innermost one: walk_unit of an enclosing method also sees the nested callback's statements? no - units are disjoint)
        add = writers[0] if len(writers) == 1 else None
    att = run.idx.find_method(ca, 'attach_stream')
    fl = run.idx.find_method(ca, 'attach_stream_failure')
    if not (add and att and fl):
        raise AnchorVanished('_CircuitAttacher methods')
    if not any(isinstance(x, (ast.Yield, ast.Await)) for x in walk_unit(att)) and att.children:
        raise Undecided('_CircuitAttacher.attach_stream is written with explicit callbacks (nested %s): its result flow is only followed in coroutine form'
                        % ', '.join(c.name for c in att.children)[:60])
    # writer key
    defs = local_defs(add)
    wkeys = []
    for n in walk_unit(add):
        if isinstance(n, ast.Assign) and isinstance(n.targets[0], ast.Subscript) and dotted(n.targets[0].value) == 'self._circuit_targets':
            wkeys.append(n.targets[0].slice)
    # registering a connection's local address always takes the slot: an entry left behind by a connection that died before Tor
    # announced its stream must not outlive a later connection that reuses the local port (first-wins would attach the new
    # connection's stream to the old circuit)
    gadd = cfg_of(add)
    for c in calls_in(add):
        if dotted(c.func) == 'self._circuit_targets.setdefault' and c.args:
            wkeys.append(c.args[0])
            run.ob('R09.6', add, c, 'a new via-circuit connection replaces whatever is registered under its local address', False, slot='register-replaces',
                   message='_add_real_target registers with setdefault(): a stale entry for the same local (host, port) wins and the new connection\'s stream is attached to '
                           'the old circuit')
    for n in gadd.real_nodes():
        if n.kind == 'stmt' and isinstance(n.ast, ast.Assign) and isinstance(n.ast.targets[0], ast.Subscript) and dotted(n.ast.targets[0].value) == 'self._circuit_targets':
            gd = gadd.guarded_by(n, lambda t: mentions(t, 'self._circuit_targets'))
            run.ob('R09.6', add, n.ast, 'a new via-circuit connection replaces whatever is registered under its local address', not gd, slot='register-replaces',
                   message='_add_real_target registers the connection only under a test on the table (%s): a stale entry for the same local (host, port) keeps the slot'
                           % [src(t.ast)[:40] for t, _ in gd])
    run.floor('R09.6', 'writes to _circuit_targets', len(wkeys), 1)
    p = add.params[1] if add.params and add.params[0] == 'self' else add.params[0]       # (a nested callback has no self)
    for k in wkeys:
        ok = isinstance(k, ast.Tuple) and len(k.elts) == 2
        if ok:
            h = k.elts[0]
            po = k.elts[1]
            hd = single_def(defs, h.id)[1] if isinstance(h, ast.Name) and single_def(defs, h.id) else h
            pd = single_def(defs, po.id)[1] if isinstance(po, ast.Name) and single_def(defs, po.id) else po
            ok = (p + '.host') in src(hd) and 'maybe_ip_addr' in src(hd) and dotted(pd) == p + '.port'
        run.ob('R09.6', add, k, 'targets stored under (maybe_ip_addr(local host), local port)', ok, slot='write-key', message='_circuit_targets written under %s' % src(k))
    for u in (att, fl):
        sp = u.params[1]
        defs = local_defs(u)
        keys = []
        for c in calls_in(u):
            if dotted(c.func) in ('self._circuit_targets.pop', 'self._circuit_targets.get') and c.args:
                keys.append(c.args[0])
        for n in walk_unit(u):
            if isinstance(n, ast.Subscript) and dotted(n.value) == 'self._circuit_targets':
                keys.append(n.slice)
        run.floor('R09.6', 'lookups of _circuit_targets in %s' % u.name, len(keys), 1)
        for k in keys:
            kd = k
            if isinstance(k, ast.Name):
                d = single_def(defs, k.id)
                kd = d[1] if d and d[0] == 'expr' else k
            ok = isinstance(kd, ast.Tuple) and [dotted(e) for e in kd.elts] == [sp + '.source_addr', sp + '.source_port']
            run.ob('R09.6', u, k, 'streams matched by (source_addr, source_port)', ok, slot='read-key:%s' % u.name, message='%s looks up %s' % (u.name, src(kd)))
    # a miss returns None (no decision): except KeyError: return
    g = cfg_of(att, may_raise=lambda n: ('KeyError',) if any(isinstance(a, ast.Call) and dotted(a.func) == 'self._circuit_targets.pop' and len(a.args) == 1
                                                              for a in (walk_local(n, descend_root=False) if not isinstance(n, FUNC_TYPES) else [])) else None)
    hs = [n for n in g.live if n.kind == 'handler' and 'KeyError' in src(n.ast.type or ast.Constant(value=''))]
    ok = False
    for h in hs:
        r = g.reachable([h])
        rets = [n for n in r if n.kind == 'stmt' and isinstance(n.ast, ast.Return)]
        first = [s for _, s in h.succ]
        ok = ok or (bool(first) and first[0].kind == 'stmt' and isinstance(first[0].ast, ast.Return) and
                    (first[0].ast.value is None or is_none(first[0].ast.value)))
    # ... or the same with a default: entry = targets.pop(k, None); if entry is None: return None
    defs_a = local_defs(att)
    ent = names_defined_by(att, lambda v: isinstance(v, ast.Call) and dotted(v.func) in ('self._circuit_targets.pop', 'self._circuit_targets.get') and len(v.args) == 2 and is_none(v.args[1]))
    for t in g.live:
        if t.kind == 'test' and isinstance(t.ast, ast.Compare) and dotted(t.ast.left) in ent and is_none(t.ast.comparators[0]) and isinstance(t.ast.ops[0], (ast.Is, ast.IsNot, ast.Eq, ast.NotEq)):
            miss = 'T' if isinstance(t.ast.ops[0], (ast.Is, ast.Eq)) else 'F'
            nxt = [s_ for lab, s_ in t.succ if lab == miss]
            while nxt and nxt[0].kind == 'join':
                nxt = [s_ for _, s_ in nxt[0].succ]
            if nxt and nxt[0].kind == 'stmt' and isinstance(nxt[0].ast, ast.Return) and (nxt[0].ast.value is None or is_none(nxt[0].ast.value)):
                ok = True
    run.ob('R09.6', att, att.node, 'a stream that matches no pending connection gets no preference (None)', ok, slot='miss-none',
           message='_CircuitAttacher.attach_stream does not return None for unrelated streams')
    # source_addr of a stream is normalised the same way (maybe_ip_addr)
    su = run.idx.find_method(run.idx.cls('Stream', 'stream'), 'update')
    ok = any(isinstance(n, ast.Assign) and assign_to(n, 'self.source_addr') is not None and 'maybe_ip_addr' in src(n.value) for n in walk_unit(su)) and \
        any(isinstance(n, ast.Assign) and assign_to(n, 'self.source_port') is not None and src(n.value).startswith('int(') for n in walk_unit(su))
    run.ob('R09.6', su, su.node, 'stream source address/port normalised like the attacher key (maybe_ip_addr / int)', ok, slot='stream-key-normalised',
           message='Stream.update no longer normalises SOURCE_ADDR with maybe_ip_addr/int: keys never match')
    # the circuit returned is the one registered
    rets = [n for n in walk_unit(att) if isinstance(n, ast.Return) and n.value is not None and not is_none(n.value)]
    defs = local_defs(att)
    def from_table(d):
        if d[0] != 'elem' or d[2] != 0:
            return False
        v = d[1]
        if isinstance(v, ast.Name) and single_def(defs, v.id) and single_def(defs, v.id)[0] == 'expr':
            v = single_def(defs, v.id)[1]
        return 'self._circuit_targets.pop' in src(v)
    def entry_elem0(v):
        # <entry>[0] where <entry> is what was popped from the table (a record read by position instead of unpacked)
        if isinstance(v, ast.Subscript) and const(v.slice) == 0 and isinstance(v.value, ast.Name):
            d = single_def(defs, v.value.id)
            return bool(d) and d[0] == 'expr' and 'self._circuit_targets.pop' in src(d[1])
        return False
    ok = bool(rets) and all((isinstance(r.value, ast.Name) and any(from_table(d) for d in defs.get(r.value.id, []))) or entry_elem0(r.value) for r in rets)
    run.ob('R09.6', att, att.node, 'the circuit returned is the one registered for that source address', ok, slot='return-registered', message='attach_stream returns %s' % [src(r.value) for r in rets])
    ep = run.idx.find_method(run.idx.cls('TorCircuitEndpoint', 'circuit'), 'connect')
    ok = any(is_method_call(c, 'add_endpoint') and len(c.args) == 2 and dotted(c.args[0]) == 'self._target_endpoint' and dotted(c.args[1]) == 'self._circuit' for c in calls_in(ep))
    run.ob('R09.6', ep, ep.node, 'connect registers (its own endpoint, its own circuit)', ok, slot='register', message='TorCircuitEndpoint.connect does not register (self._target_endpoint, self._circuit)')


def r09_8(run):
    """check-then-act without a suspension point in between: the once-only attacher is recorded before
    the coroutine first yields, so a concurrent connection finds it"""
    ga = run.idx.unit('circuit._get_circuit_attacher')
    g = cfg_of(ga)
    sets = [n for n in g.real_nodes() if n.kind == 'stmt' and isinstance(n.ast, ast.Assign) and any((dotted(t) or '').endswith('.attacher') for t in n.ast.targets)
            and not is_none(n.ast.value)]
    ys = g.nodes_where(lambda n: any(isinstance(a, (ast.Yield, ast.YieldFrom)) for a in node_asts(n)))
    tests = [t for t in g.live if t.kind == 'test' and isinstance(t.ast, ast.Compare) and (dotted(t.ast.left) or '').endswith('.attacher') and is_none(t.ast.comparators[0])]
    run.floor('R09.8', 'singleton assignments in _get_circuit_attacher', len(sets), 1)
    for s_ in sets:
        between = [y for y in ys if any(g.dominates(t, y) for t in tests) and s_ in g.reachable([x for _, x in y.succ]) and not g.dominates(s_, y)]
        run.ob('R09.8', ga, s_.ast, 'the singleton attacher is recorded before the first suspension point after the "is None" test', not between, slot='singleton-before-yield',
               message='_get_circuit_attacher yields between testing and setting the singleton: a second connection started meanwhile '
                       'creates a second attacher, which TorState refuses')
    sa = TU(run, 'set_attacher')
    gs = cfg_of(sa)
    for arg_truthy in (True, False):
        def hook(node, val, trail, arg_truthy=arg_truthy):
            a = node.ast
            if dotted(a) == sa.params[1]:
                return arg_truthy
            if isinstance(a, ast.Compare) and dotted(a.left) == 'self._attacher' and dotted(a.comparators[0]) == sa.params[1]:
                return False if isinstance(a.ops[0], ast.Is) else True
            if isinstance(a, ast.Compare) and dotted(a.left) == 'self._attacher' and is_none(a.comparators[0]):
                cur_none = True
                for n, lab in trail:
                    if n.kind == 'stmt' and isinstance(n.ast, ast.Assign):
                        v = assign_to(n.ast, 'self._attacher')
                        if v is not None:
                            cur_none = is_none(v)
                return cur_none if isinstance(a.ops[0], ast.Is) else (not cur_none)
            return None
        for p in gs.paths(eval_hook=hook):
            if p.exit == 'raise':
                continue
            last = None
            for n, lab in p.steps:
                if n.kind == 'stmt' and isinstance(n.ast, ast.Assign):
                    v = assign_to(n.ast, 'self._attacher')
                    if v is not None:
                        last = v
            if arg_truthy:
                ok = last is not None and not is_none(last) and sa.params[1] in src(last)
                run.ob('R09.8', sa, sa.node, 'installing records the attacher in the slot', ok, slot='slot:install', message='install path leaves self._attacher = %s' % (src(last) if last is not None else '<unchanged>'))
            else:
                ok = last is not None and is_none(last)
                run.ob('R09.8', sa, sa.node, 'removing empties the slot (the old attacher is no longer consulted, a new one can be installed)', ok, slot='slot:remove',
                       message='the removal path of set_attacher does not reset self._attacher: the removed attacher keeps deciding and a different one is refused')


def r09_7(run):
    ep = run.idx.find_method(run.idx.cls('TorCircuitEndpoint', 'circuit'), 'connect')
    ga = run.idx.unit('circuit._get_circuit_attacher')
    at = run.idx.find_method(run.idx.cls('_CircuitAttacher', 'circuit'), 'attach_stream')
    k = dropped_deferreds(run, 'R09.7', [ep, ga, at], 'the via-circuit connection')
    run.floor('R09.7', 'suspension points in the via-circuit coroutines', k, 5)
    required_await(run, 'R09.7', ep, lambda v: isinstance(v, ast.Call) and callee_attr(v) == 'when_built',
                   lambda a: isinstance(a, ast.Call) and callee_attr(a) == 'connect' and (dotted(a.func) or '').startswith('self._target_endpoint'),
                   'the circuit being BUILT', 'the underlying connection is started', 'await-built')
    required_await(run, 'R09.7', ep, lambda v: isinstance(v, ast.Call) and dotted(v.func) == '_get_circuit_attacher',
                   lambda a: isinstance(a, ast.Call) and callee_attr(a) == 'connect' and (dotted(a.func) or '').startswith('self._target_endpoint'),
                   'the attacher being installed', 'the underlying connection is started', 'await-attacher')


def r09_9(run):
    """the .exit test of _maybe_attach reads stream.target_host: every kind of new stream (NEW and NEWRESOLVE) has
    learnt its target by the time the attachment decision is taken"""
    from . import c07
    c07.target_learning(run, 'R09.9', states=('NEW', 'NEWRESOLVE'))


def r09_10(run):
    """matched by source address and port: an entry of the pending table leaves it only under *its own key* - the source address
    of the stream that was matched (or failed).  A sweep over the table that removes entries by another criterion (every entry of
    one circuit, every entry older than ...) takes away the entries of other connections still in flight, and their streams are
    then attached wherever Tor likes"""
    ca = run.idx.cls('_CircuitAttacher', 'circuit')
    k = 0
    for u in class_units(run.idx, ca):
        loops = [n for n in walk_unit(u) if isinstance(n, (ast.For, ast.While, ast.comprehension))]
        for n in walk_unit(u):
            rem = None
            if isinstance(n, ast.Delete) and any(isinstance(t, ast.Subscript) and dotted(t.value) == 'self._circuit_targets' for t in n.targets):
                rem = n
            elif isinstance(n, ast.Call) and dotted(n.func) in ('self._circuit_targets.pop', 'self._circuit_targets.popitem', 'self._circuit_targets.clear'):
                rem = n
            elif isinstance(n, ast.Assign) and any(dotted(t) == 'self._circuit_targets' for t in n.targets) and u.name != '__init__':
                rem = n
            if rem is None:
                continue
            k += 1
            sweeping = [lp for lp in loops if isinstance(lp, (ast.For, ast.While)) and any(x is rem for x in ast.walk(lp)) and 'self._circuit_targets' in src(lp.iter if isinstance(lp, ast.For) else lp.test)]
            wholesale = isinstance(rem, ast.Assign) or (isinstance(rem, ast.Call) and callee_attr(rem) in ('clear', 'popitem'))
            run.ob('R09.10', u, rem, 'a pending target is removed only under its own (source address, port) key', not sweeping and not wholesale, slot='sweep@%s' % u.name,
                   message='%s removes pending targets %s: entries of other connections that are still waiting for their STREAM NEW are lost and those streams get '
                           '"ATTACHSTREAM <id> 0"' % (u.name, 'while walking the whole table' if sweeping else 'wholesale'))
    run.floor('R09.10', 'removals from the pending-target table', k, 2)


RULES = [
    ('R09.9', 'the target the .exit test looks at is learnt from the NEW / NEWRESOLVE event itself (rule shared with R07.4)', r09_9),
    ('R09.8', 'once-only slots: singleton attacher recorded before the first suspension point; TorState slot emptied on removal, filled on install', r09_8),
    ('R09.7', 'no dropped Deferred in the via-circuit coroutines (attacher installed and circuit built before connecting; registration awaited)', r09_7),
    ('R09.1', 'path enumeration over the classes of attacher answers: the do-not-attach marker reaches no command', r09_1_2),
    ('R09.2', 'exactly one ATTACHSTREAM per decision (None => 0, good circuit => its id); consulted once, only for new streams; chain ends in _attacher_error', lambda run: None),
    ('R09.3', 'dominance: .exit targets and "no attacher" return before the attacher is consulted', lambda run: None),
    ('R09.4', 'invalid answers (non-circuit, unknown id, not BUILT) raise and send nothing', lambda run: None),
    ('R09.5', 'attacher slot discipline by path enumeration over (argument, same object, slot empty): refuse second, install => 1, remove => 0', r09_5),
    ('R09.10', 'who-may-remove: pending targets leave the table only under their own key (no sweep, no wholesale reset)', r09_10),
    ('R09.6', 'key agreement between the via-circuit registry writer and readers; misses give no preference', r09_6),
]

from ..selftest import M  # noqa: E402
FT, FC = 'txtorcon/torstate.py', 'txtorcon/circuit.py'
MUTANTS = [
    M('refused-attach-falls-back-to-any-circuit', 'txtorcon/torstate.py', "                return self.protocol.queue_command(\n                    u\"ATTACHSTREAM {} {}\".format(stream.id, circ.id).encode(\"ascii\")\n                )", "                attach_d = self.protocol.queue_command(\n                    u\"ATTACHSTREAM {} {}\".format(stream.id, circ.id).encode(\"ascii\")\n                )\n\n                def went_away(fail):\n                    return self.protocol.queue_command(u\"ATTACHSTREAM {} 0\".format(stream.id).encode(\"ascii\"))\n                attach_d.addErrback(went_away)\n                return attach_d", ['R09.2']),
    M('was-new-computed-late', 'txtorcon/torstate.py', ["        wasnew = False\n", "                stream.listen(x)\n            wasnew = True\n"], ["", "                stream.listen(x)\n        wasnew = stream_id not in self.streams\n"], ['R09.2']),
    M('first-registration-wins', 'txtorcon/circuit.py', "        self._circuit_targets[(real_host, real_port)] = (circuit, d)", "        self._circuit_targets.setdefault((real_host, real_port), (circuit, d))", ['R09.6']),
    M('register-unless-present', 'txtorcon/circuit.py', "        self._circuit_targets[(real_host, real_port)] = (circuit, d)", "        if (real_host, real_port) not in self._circuit_targets:\n            self._circuit_targets[(real_host, real_port)] = (circuit, d)", ['R09.6']),
    M('answer-coroutine-not-awaited', FT, "        circ_d.addCallback(maybe_coroutine)\n", "", ['R09.2']),
    M('when-built-removed', FC, "        yield self._circuit.when_built()\n        connect_d", "        connect_d", ['R09.7']),
    M('none-test-by-truthiness', FT, "            if circ is None:\n", "            if not circ:\n", ['R09.4']),
    M('when-built-not-awaited', FC, "        yield self._circuit.when_built()\n        connect_d", "        self._circuit.when_built()\n        connect_d", ['R09.7']),
    M('marker-like-none', FT, "            if circ is TorState.DO_NOT_ATTACH:\n                # neither attach it, nor tell Tor to attach it\n                return None\n\n            if circ is None:", "            if circ is None or circ is TorState.DO_NOT_ATTACH:", ['R09.1']),
    M('two-commands-built', FT, "                return self.protocol.queue_command(\n                    u\"ATTACHSTREAM {} {}\".format(stream.id, circ.id).encode(\"ascii\")\n                )", "                self.protocol.queue_command(\n                    u\"ATTACHSTREAM {} 0\".format(stream.id).encode(\"ascii\")\n                )\n                return self.protocol.queue_command(\n                    u\"ATTACHSTREAM {} {}\".format(stream.id, circ.id).encode(\"ascii\")\n                )", ['R09.2']),
    M('ids-swapped', FT, "u\"ATTACHSTREAM {} {}\".format(stream.id, circ.id)", "u\"ATTACHSTREAM {} {}\".format(circ.id, stream.id)", ['R09.2']),
    M('not-only-new', FT, "        if wasnew and stream_id in self.streams:\n            self._maybe_attach", "        if stream_id in self.streams:\n            self._maybe_attach", ['R09.2']),
    M('no-errback', FT, "        circ_d.addCallback(issue_stream_attach)\n        circ_d.addErrback(self._attacher_error)\n", "        circ_d.addCallback(issue_stream_attach)\n", ['R09.2']),
    M('exit-after-attacher', FT, "            txtorlog.msg(\"ignore attacher:\", stream)\n            return\n", "            txtorlog.msg(\"ignore attacher:\", stream)\n", ['R09.3']),
    M('no-built-check', FT, "                if circ.state != 'BUILT':\n                    raise RuntimeError(\n                        \"Can only attach to BUILT circuits; %d is in %s.\" %\n                        (circ.id, circ.state)\n                    )\n", "", ['R09.4']),
    M('unknown-circuit-accepted', FT, "                if circ.id not in self.circuits:\n                    raise RuntimeError(\n                        \"Attacher returned a circuit unknown to me.\"\n                    )\n", "", ['R09.4']),
    M('second-attacher-accepted', FT, "            if self._attacher is not None:\n                raise RuntimeError(\n                    \"set_attacher called but we already have an attacher\"\n                )\n", "", ['R09.5']),
    M('install-sets-0', FT, "            d = self.protocol.set_conf(\"__LeaveStreamsUnattached\", \"1\")", "            d = self.protocol.set_conf(\"__LeaveStreamsUnattached\", \"0\")", ['R09.5']),
    M('undo-sets-1', FT, "        return self.protocol.set_conf(\"__LeaveStreamsUnattached\", 0)", "        return self.protocol.set_conf(\"__LeaveStreamsUnattached\", 1)", ['R09.5']),
    M('key-swapped', FC, "        self._circuit_targets[(real_host, real_port)] = (circuit, d)", "        self._circuit_targets[(real_port, real_host)] = (circuit, d)", ['R09.6']),
    M('match-by-host-only', FC, "        k = (stream.source_addr, stream.source_port)\n        try:\n            circuit, d = self._circuit_targets.pop(k)", "        k = (stream.source_addr, 0)\n        try:\n            circuit, d = self._circuit_targets.pop(k)", ['R09.6']),
]
TWINS = [
    M('targets-pop-with-default', 'txtorcon/circuit.py', "        try:\n            circuit, d = self._circuit_targets.pop(k)\n        except KeyError:\n            return\n", "        entry = self._circuit_targets.pop(k, None)\n        if entry is None:\n            return\n        circuit, d = entry\n"),
    M('was-new-computed-first', 'txtorcon/torstate.py', ["        wasnew = False\n", "                stream.listen(x)\n            wasnew = True\n"], ["        wasnew = stream_id not in self.streams\n", "                stream.listen(x)\n"]),
    M('reorder-validity-checks', FT, "                if circ.id not in self.circuits:\n                    raise RuntimeError(\n                        \"Attacher returned a circuit unknown to me.\"\n                    )\n                if circ.state != 'BUILT':\n                    raise RuntimeError(\n                        \"Can only attach to BUILT circuits; %d is in %s.\" %\n                        (circ.id, circ.state)\n                    )\n",
      "                if circ.state != 'BUILT':\n                    raise RuntimeError(\n                        \"Can only attach to BUILT circuits; %d is in %s.\" %\n                        (circ.id, circ.state)\n                    )\n                if circ.id not in self.circuits:\n                    raise RuntimeError(\n                        \"Attacher returned a circuit unknown to me.\"\n                    )\n"),
    M('marker-elif', FT, "                return None\n\n            if circ is None:\n                # tell Tor to do what it likes", "                return None\n\n            elif circ is None:\n                # tell Tor to do what it likes"),
]
