"""C15 - onion creation completes only on this service's confirmed descriptor upload."""
import ast

from .common import *  # noqa

MOD = 'onion'
SETS = ('attempted_uploads', 'confirmed_uploads', 'failed_uploads')


def AW(run):
    u = run.idx.unit(MOD + '._await_descriptor_upload')
    for c in u.children:
        if c.name == 'hs_desc':
            CUR['roles'] = roles(u, c)
            return u, c
    raise AnchorVanished('_await_descriptor_upload.hs_desc')


ROLES = {}


def roles(u, hs):
    """local names by role: the wait Deferred, the three sets (named after the leg that fills them),
    the action variable, the event fields, the mode flag"""
    key = u
    if key in ROLES:
        return ROLES[key]
    up = names_defined_by(u, lambda v: isinstance(v, ast.Call) and dotted(v.func) in ('defer.Deferred', 'Deferred'))
    if len(up) != 1:
        raise Undecided('_await_descriptor_upload: the wait Deferred')
    setnames = names_defined_by(u, lambda v: isinstance(v, ast.Call) and dotted(v.func) == 'set' and not v.args)
    g = cfg_of(hs)
    act = None
    for t in g.live:
        if t.kind == 'test' and isinstance(t.ast, ast.Compare) and isinstance(t.ast.left, ast.Name) and const(t.ast.comparators[0]) in ('UPLOAD', 'UPLOADED', 'FAILED'):
            act = t.ast.left.id
    if act is None:
        raise AnchorVanished('hs_desc: action comparisons')
    leg_tests = {}
    for t in g.live:
        if t.kind == 'test' and isinstance(t.ast, ast.Compare) and dotted(t.ast.left) == act and isinstance(const(t.ast.comparators[0]), str):
            leg_tests.setdefault(const(t.ast.comparators[0]), []).append(t)
    byleg = {}
    for n in g.real_nodes():
        for a in node_asts(n):
            if isinstance(a, ast.Call) and callee_attr(a) == 'add' and dotted(receiver(a)) in setnames:
                for leg, ts in leg_tests.items():
                    if any(g.edge_dominates(t, 'T', n) for t in ts):
                        byleg.setdefault(leg, set()).add(dotted(receiver(a)))
    m = {}
    for leg, role in (('UPLOAD', 'attempted_uploads'), ('UPLOADED', 'confirmed_uploads'), ('FAILED', 'failed_uploads')):
        ns = byleg.get(leg, set())
        if len(ns) != 1:
            raise Undecided('hs_desc: the set filled on the %s leg (%s)' % (leg, sorted(ns)))
        m[list(ns)[0]] = role
    fields = names_defined_by(hs, lambda v: isinstance(v, ast.Call) and callee_attr(v) == 'split' and not v.args)
    mode = names_defined_by(u, lambda v: 'await_all_uploads' in src(v))
    r = dict(uploaded=up[0], sets=m, action=act, args=fields[0] if fields else 'args', mode=mode[0] if mode else 'await_all')
    r['norm'] = dict(list(m.items()) + [(up[0], 'uploaded'), (act, 'subtype'), (r['args'], 'args'), (r['mode'], 'await_all')])
    # other containers the wait owns: locals of _await_descriptor_upload bound to an empty container and not one of the three sets
    r['closure_state'] = tuple(nm for nm in names_defined_by(u, lambda v: (isinstance(v, ast.Call) and dotted(v.func) in ('set', 'dict', 'list', 'OrderedDict', 'collections.OrderedDict')
                                                                            and not v.args) or (isinstance(v, (ast.List, ast.Set)) and not v.elts)
                                                                 or (isinstance(v, ast.Dict) and not v.keys)) if nm not in m)
    ROLES[key] = r
    return r


def legs(hs):
    """action constant -> list of CFG test nodes comparing the action variable with it"""
    g = cfg_of(hs)
    act = roles(hs.parent, hs)['action']
    out = {}
    for t in g.live:
        if t.kind == 'test' and isinstance(t.ast, ast.Compare) and dotted(t.ast.left) == act and isinstance(const(t.ast.comparators[0]), str):
            out.setdefault(const(t.ast.comparators[0]), []).append(t)
    return g, out


CUR = {}


def is_mut(a):
    r = CUR.get('roles')
    if isinstance(a, ast.Call) and r:
        d = dotted(a.func) or ''
        for real, role in r['sets'].items():
            if d == real + '.add':
                return 'add:' + role
            if d in (real + '.discard', real + '.remove', real + '.pop', real + '.clear', real + '.difference_update', real + '.update'):
                return '%s:%s' % (d.rsplit('.', 1)[1], role)
        # any other state the wait keeps between events (a closure variable of _await_descriptor_upload that hs_desc changes in
        # place): it is part of the wait just like the three sets
        if isinstance(a.func, ast.Attribute) and isinstance(a.func.value, ast.Name) and a.func.attr in ('add', 'append', 'update', 'discard', 'remove', 'pop', 'clear', 'setdefault', 'extend', 'insert') \
                and a.func.value.id in r.get('closure_state', ()):
            return '%s:%s' % (a.func.attr, a.func.value.id)
        if d == r['uploaded'] + '.callback':
            return 'uploaded.callback'
        if d == r['uploaded'] + '.errback':
            return 'uploaded.errback'
    return None


def nsrc(node):
    """source with local names replaced by their role names"""
    return norm_src(node, CUR['roles']['norm'])


def r15_1(run):
    u, hs = AW(run)
    g, lg = legs(hs)
    run.floor('R15.1', 'HS_DESC legs in hs_desc', len(lg), 3)
    for need in ('UPLOAD', 'UPLOADED', 'FAILED'):
        run.ob('R15.1', hs, hs.node, 'hs_desc has a leg for %s' % need, need in lg, slot='leg:%s' % need, message='no leg for %s' % need)
    # every mutation / fire is guarded by hostname_matches(<event address>) - the ownership test has to exist under that name for
    # the guards to be recognised (moved / renamed beyond what canon.py undoes: an honest "anchor vanished", not a finding)
    if not [c for c in u.children if c.name == 'hostname_matches']:
        raise AnchorVanished('hostname_matches')
    for n in g.real_nodes():
        if n.kind != 'stmt':
            continue
        for a in node_asts(n):
            m = is_mut(a)
            if not m:
                continue
            sub = None
            for s, ts in lg.items():
                if any(g.edge_dominates(t, 'T', n) for t in ts):
                    sub = s
            hdefs = local_defs(hs)

            def hm_call(t):
                if isinstance(t, ast.Call) and dotted(t.func) == 'hostname_matches':
                    return t
                if isinstance(t, ast.Name):
                    d = single_def(hdefs, t.id)
                    if d is not None and d[0] == 'expr' and isinstance(d[1], ast.Call) and dotted(d[1].func) == 'hostname_matches':
                        return d[1]
                return None
            gd = g.guarded_by(n, lambda t: hm_call(t) is not None)
            ok = False
            for t, lab in gd:
                call = hm_call(t.ast)
                arg = nsrc(call.args[0]) if call.args else ''
                if lab == 'T' and 'args[1]' in arg:
                    ok = True
            run.ob('R15.1', hs, a, 'only events of this service change the wait [%s: %s]' % (sub, m), ok, slot='own-events:%s:%s' % (sub, m),
                   message='%s leg: %s is not guarded by hostname_matches(<event address>): an HS_DESC %s event of another '
                           'service sharing the directory changes/completes this service\'s wait' % (sub, m, sub))
    # every own UPLOAD is an attempt, every own UPLOADED / FAILED is recorded: the three `add`s are guarded by the leg test and the
    # ownership test only - a further condition (the mode, "no results yet") decides the outcome over a subset of the attempts
    for n in g.real_nodes():
        if n.kind != 'stmt':
            continue
        for a in node_asts(n):
            m = is_mut(a)
            if not m or not m.startswith('add:') or m.split(':', 1)[1] not in ('attempted_uploads', 'confirmed_uploads', 'failed_uploads'):
                continue
            extra = []
            for t, lab in g.guarded_by(n, lambda t_: True):
                ta = t.ast
                if isinstance(ta, ast.Compare) and dotted(ta.left) == CUR['roles']['action']:
                    continue
                if (isinstance(ta, ast.Call) and dotted(ta.func) == 'hostname_matches') or (isinstance(ta, ast.Name) and 'hostname_matches' in src(ta)):
                    continue
                if isinstance(ta, ast.Compare) and len(ta.ops) == 1 and isinstance(ta.ops[0], (ast.In, ast.NotIn)) and dotted(ta.comparators[0]) in CUR['roles']['sets'] \
                        and 'args[3]' in nsrc(ta.left):
                    continue        # "is this a directory we attempted?" - the pinned tree's stand-in for the ownership test on UPLOADED
                if isinstance(ta, ast.Name):
                    d_ = single_def(local_defs(hs), ta.id)
                    if d_ is not None and d_[0] == 'expr' and 'hostname_matches' in src(d_[1]):
                        continue
                extra.append(src(ta)[:50])
            # (a disjunction dominates with none of its atoms: also ask whether, once the ownership / leg test is passed, the
            # end of the handler can be reached around the add)
            doms = [(t, lab) for t, lab in g.guarded_by(n, lambda t_: True)]
            if doms and not extra:
                inner = None
                for t, lab in doms:
                    if inner is None or g.edge_dominates(inner[0], inner[1], t):
                        inner = (t, lab)
                start = [s_ for l_, s_ in inner[0].succ if l_ == inner[1]]
                r_ = g.reachable(start, avoid=lambda x, n=n: x is n, follow_exc=False)
                if any(e in r_ for e in g.normal_exits()):
                    tests_between = sorted(set(src(x.ast)[:40] for x in r_ if x.kind == 'test' and x.ast is not None and g.reachable([x], follow_exc=False) and n in g.reachable([x], follow_exc=False)))
                    extra = tests_between or ['some further condition']
            run.ob('R15.1', hs, a, 'an own %s event is always recorded' % m.split(':', 1)[1].split('_')[0], not extra, slot='recorded-always:%s' % m,
                   message='%s happens only when %s: own events outside that condition are ignored, so the creation is decided over a subset of the attempted uploads '
                           '(completes with one still unanswered / fails although one later succeeds)' % (m, ' and '.join(extra)))
    # hostname_matches compares against this service's address
    hm = [c for c in u.children if c.name == 'hostname_matches']
    if not hm:
        raise AnchorVanished('hostname_matches')
    rets = [r for r in walk_unit(hm[0]) if isinstance(r, ast.Return)]
    ok = len(rets) >= 1 and all(isinstance(r.value, ast.Compare) and isinstance(r.value.ops[0], ast.Eq) and
                                ('onion.hostname' in src(r.value) or 'onion.get_permanent_id()' in src(r.value)) and 'hostname' in src(r.value) for r in rets)
    run.ob('R15.1', hm[0], hm[0].node, 'hostname_matches compares the event address with this service', ok, slot='matcher', message='hostname_matches returns %s' % [src(r.value) for r in rets])
    # event fields: action = field 0, address = field 1, directory = field 3 (control-spec 4.1.25)
    adds = [a for n in g.real_nodes() for a in node_asts(n) if is_mut(a) and is_mut(a).startswith('add:')]
    ok = bool(adds) and all(nsrc(a.args[0]) == 'args[3]' for a in adds)
    run.ob('R15.1', hs, hs.node, 'uploads are keyed by the HsDir field (args[3])', ok, slot='hsdir-field', message='sets keyed by %s' % sorted(set(nsrc(a.args[0]) for a in adds)))
    st = [n for n in walk_unit(hs) if isinstance(n, ast.Assign) and dotted(n.targets[0]) == CUR['roles']['action']]
    run.ob('R15.1', hs, hs.node, 'the action is field 0', len(st) == 1 and nsrc(st[0].value) == 'args[0]', slot='action-field', message='subtype = %s' % [src(s.value) for s in st])


def r15_2(run):
    u, hs = AW(run)
    g, lg = legs(hs)
    k = 0
    for n in g.real_nodes():
        for a in node_asts(n):
            if is_mut(a) in ('uploaded.callback', 'uploaded.errback'):
                k += 1
                gd = g.guarded_by(n, lambda t: dotted(t) == CUR['roles']['uploaded'] + '.called')
                ok = any(lab == 'F' for _, lab in gd)
                run.ob('R15.2', hs, a, 'the wait is fired only if it has not fired yet', ok, slot='once:%s@%d' % (is_mut(a), k),
                       message='%s is not under "not uploaded.called": a later event fires the Deferred again (AlreadyCalledError in the event handler)' % src(a)[:40])
    run.floor('R15.2', 'fire sites of the wait', k, 3)
    # nobody else fires it
    for c in calls_in(u):
        if dotted(c.func) in (CUR['roles']['uploaded'] + '.callback', CUR['roles']['uploaded'] + '.errback'):
            run.ob('R15.2', u, c, 'the wait is fired only by the event handler', False, slot='outer-fire', message='_await_descriptor_upload fires the wait itself')
    # success value / failure type
    for n in g.real_nodes():
        for a in node_asts(n):
            if is_mut(a) == 'uploaded.callback':
                run.ob('R15.2', hs, a, 'success resolves with the service', a.args and dotted(a.args[0]) == 'onion', slot='success-value', message='callback(%s)' % (src(a.args[0]) if a.args else ''))


def r15_3(run):
    u, hs = AW(run)
    g = cfg_of(u)     # generator: every yield has an exception edge
    adds = g.nodes_where(lambda n: any(is_method_call(a, 'add_event_listener') for a in node_asts(n)))
    rems = g.nodes_where(lambda n: any(is_method_call(a, 'remove_event_listener') for a in node_asts(n)))
    run.floor('R15.3', 'add_event_listener sites', len(adds), 1)
    run.floor('R15.3', 'remove_event_listener sites', len(rems), 1)
    for a in calls_in(u):
        if callee_attr(a) in ('add_event_listener', 'remove_event_listener'):
            ok = len(a.args) == 2 and const(a.args[0]) == 'HS_DESC' and dotted(a.args[1]) == 'hs_desc'
            run.ob('R15.3', u, a, 'subscribe/unsubscribe name the same event and handler', ok, slot='pair:%s' % callee_attr(a), message=src(a))
    waits = g.nodes_where(lambda n: any(isinstance(a, ast.Yield) and dotted(a.value) == CUR['roles']['uploaded'] for a in node_asts(n)))
    run.floor('R15.3', 'wait sites (yield uploaded)', len(waits), 1)
    for w in waits:
        # normal and exceptional continuation of the wait both pass a removal before leaving
        for lab, succ in w.succ:
            r = g.reachable([succ], avoid=lambda n: n in rems)
            esc = [e for e in g.exits if e in r]
            kind = 'failed' if lab == 'exc' else 'succeeded'
            wit = None
            if esc:
                pth = g.witness_path(w, esc[0], avoid=lambda n: n in rems)
                wit = fmt_path(g, [w] + (pth or []))
            run.ob('R15.3', u, w.ast, 'after the wait %s the HS_DESC subscription is removed on every path' % kind, not esc, slot='unsubscribe:%s' % kind,
                   message='when the descriptor wait has %s, _await_descriptor_upload can leave without remove_event_listener: '
                           'the handler stays subscribed' % kind, path=wit)
    has_exc = any(lab == 'exc' for w in waits for lab, _ in w.succ)
    run.ob('R15.3', u, u.node, 'the wait can fail (exception edge modelled)', has_exc, slot='exc-edge', message='no exception edge at yield uploaded (not a generator coroutine?)')
    # R15.5 part: nothing yields before the listener is installed
    ys = g.nodes_where(lambda n: any(isinstance(a, (ast.Yield, ast.YieldFrom)) for a in node_asts(n)))
    for a in adds:
        early = [y for y in ys if y is not a and g.dominates(y, a)]
        run.ob('R15.5', u, a.ast, 'the HS_DESC listener is installed at the first suspension point', not early, slot='listener-first-yield',
               message='_await_descriptor_upload yields before add_event_listener: the creating command can be sent before the listener exists')


def r15_4(run):
    u, hs = AW(run)
    g, lg = legs(hs)
    # sets read by a completion test
    comp_tests = [t for t in g.live if t.kind == 'test' and isinstance(t.ast, ast.Compare) and sum(1 for s in SETS if s in nsrc(t.ast)) >= 2]
    run.floor('R15.4', 'completion tests', len(comp_tests), 2)
    read = set(s for t in comp_tests for s in SETS if s in nsrc(t.ast))
    for n in g.real_nodes():
        for a in node_asts(n):
            m = is_mut(a)
            if not (m and m.startswith('add:')):
                continue
            s = m[4:]
            if s == 'attempted_uploads':
                continue     # a new attempt can only postpone completion
            if s not in read:
                continue
            # after this add, on every path to exit, some completion test over both outcome sets is evaluated
            def is_comp(x):
                return x in comp_tests
            full = [t for t in comp_tests if 'attempted_uploads' in nsrc(t.ast)]
            # "await all" completion: len(failed)+len(confirmed) == len(attempted)
            allc = [t for t in full if 'failed_uploads' in nsrc(t.ast) and 'confirmed_uploads' in nsrc(t.ast)]
            # must be reachable after the add when await_all is true
            r = g.reachable([s_ for _, s_ in n.succ])
            ok_all = any(t in r for t in allc)
            run.ob('R15.4', hs, a, 'await-all completion is re-evaluated after %s changes' % s, ok_all, slot='recheck:%s' % s,
                   message='after adding to %s the "all attempts finished" test is never evaluated: if this event was the last '
                           'outstanding one the wait never completes' % s)
    # the counting test len(failed)+len(confirmed) == len(attempted) is only meaningful while
    # confirmed is a subset of attempted: a confirmation is recorded only for an attempted directory
    for n in g.real_nodes():
        for a in node_asts(n):
            if is_mut(a) == 'add:confirmed_uploads':
                key = src(a.args[0]) if a.args else ''
                att = [k for k, v in CUR['roles']['sets'].items() if v == 'attempted_uploads'][0]
                gd = g.guarded_by(n, lambda t: isinstance(t, ast.Compare) and isinstance(t.ops[0], ast.In) and dotted(t.comparators[0]) == att
                                  and src(t.left) == key)
                run.ob('R15.4', hs, a, 'a confirmation is counted only for an attempted directory (confirmed is a subset of attempted)', any(lab == 'T' for _, lab in gd),
                       slot='confirmed-subset', message='confirmed_uploads can receive a directory that is not in attempted_uploads: the await-all '
                       'count test becomes true while an attempted upload is still outstanding')
    # failure only when every attempt failed; success needs at least one confirmation
    errs = [n for n in g.real_nodes() for a in node_asts(n) if is_mut(a) == 'uploaded.errback']
    for n in errs:
        gd = g.guarded_by(n, lambda t: isinstance(t, ast.Compare) and 'failed_uploads' in nsrc(t) and 'attempted_uploads' in nsrc(t) and isinstance(t.ops[0], ast.Eq)
                          and 'confirmed' not in nsrc(t))
        run.ob('R15.4', hs, n.ast, 'creation fails only when every attempted upload failed', any(lab == 'T' for _, lab in gd), slot='fail-guard',
               message='uploaded.errback is not guarded by failed_uploads == attempted_uploads')
    cbs = [n for n in g.real_nodes() for a in node_asts(n) if is_mut(a) == 'uploaded.callback']
    for n in cbs:
        # either on the UPLOADED leg (a confirmation just happened) or guarded by confirmed_uploads being non-empty
        on_uploaded = any(g.edge_dominates(t, 'T', n) for t in lg.get('UPLOADED', []))
        gd = g.guarded_by(n, lambda t: 'confirmed_uploads' in nsrc(t))
        has_conf = any(lab == 'T' and nsrc(t.ast) == 'confirmed_uploads' for t, lab in gd)
        run.ob('R15.4', hs, n.ast, 'success needs at least one confirmed upload', on_uploaded or has_conf, slot='success-needs-confirmation',
               message='uploaded.callback reachable without any confirmed upload')
        # in await-all mode the callback must be behind the all-finished test
        gd2 = g.guarded_by(n, lambda t: dotted(t) == CUR['roles']['mode'])
        if any(lab == 'T' for _, lab in gd2):
            gd3 = g.guarded_by(n, lambda t: isinstance(t, ast.Compare) and all(s in nsrc(t) for s in SETS))
            run.ob('R15.4', hs, n.ast, 'await-all success only when every attempt has finished', any(lab == 'T' for _, lab in gd3), slot='await-all-guard',
                   message='await-all callback not guarded by the all-finished test')
    aa = [n for n in walk_unit(u) if isinstance(n, ast.Assign) and dotted(n.targets[0]) == CUR['roles']['mode']]
    ok = len(aa) == 1 and 'await_all_uploads' in src(aa[0].value)
    run.ob('R15.4', u, u.node, 'waiting mode comes from the caller', ok, slot='mode', message='await_all = %s' % [src(a.value) for a in aa])


def r15_7(run):
    """Outcome oracle for one own event, by path enumeration of hs_desc over the facts its tests consult (the wait has not
    completed yet; the event is this service's and, for UPLOADED, names an attempted directory):
      UPLOAD   -> nothing fires
      UPLOADED -> wait-for-one: success; await-all: success iff every attempt has been answered
      FAILED   -> every attempt failed: failure; await-all with a confirmation and every attempt answered: success; else nothing
    each at most once per event."""
    u, hs = AW(run)
    g, lg = legs(hs)
    scen = []
    for aa in (False, True):
        scen.append(('UPLOAD', dict(aa=aa, allfailed=False, conf=False, allans=False), (0, 0)))
        scen.append(('UPLOADED', dict(aa=aa, allfailed=False, conf=True, allans=True), (1, 0)))
        scen.append(('UPLOADED', dict(aa=aa, allfailed=False, conf=True, allans=False), (0, 0) if aa else (1, 0)))
        scen.append(('FAILED', dict(aa=aa, allfailed=True, conf=False, allans=True), (0, 1)))
        scen.append(('FAILED', dict(aa=aa, allfailed=False, conf=False, allans=False), (0, 0)))
        if aa:
            scen.append(('FAILED', dict(aa=aa, allfailed=False, conf=True, allans=True), (1, 0)))
            scen.append(('FAILED', dict(aa=aa, allfailed=False, conf=True, allans=False), (0, 0)))
    act = CUR['roles']['action']
    hs_defs = local_defs(hs)
    # names that carry nothing but the event's own text
    evt_names = set(hs.params)
    changed = True
    while changed:
        changed = False
        for nm, dl in hs_defs.items():
            if nm in evt_names:
                continue
            okd = True
            for d in dl:
                exprs = [x for x in d[1:] if isinstance(x, ast.AST)]
                if d[0] == 'param' or not exprs:
                    okd = okd and d[0] in ('for',) and False
                    continue
                for e_ in exprs:
                    if not set(x.id for x in ast.walk(e_) if isinstance(x, ast.Name) and isinstance(x.ctx, ast.Load)) <= evt_names | set(['len', 'int', 'str']):
                        okd = False
            if okd and dl:
                evt_names.add(nm)
                changed = True
    k = 0
    for leg, env, want in scen:
        unknown = []

        def hook(node, val, trail, leg=leg, env=env):
            a = node.ast
            neg = False
            while isinstance(a, ast.UnaryOp) and isinstance(a.op, ast.Not):
                a, neg = a.operand, not neg
            if isinstance(a, ast.Name):
                d_ = single_def(hs_defs, a.id)
                if d_ is not None and d_[0] == 'expr':
                    a = d_[1]
            t = nsrc(a).replace(' ', '')
            v = None
            if isinstance(a, ast.Compare) and dotted(a.left) == act and isinstance(const(a.comparators[0]), str):
                v = (const(a.comparators[0]) == leg) == isinstance(a.ops[0], ast.Eq)
            elif t.startswith('hostname_matches('):
                v = True
            elif t.endswith('inattempted_uploads') and isinstance(a, ast.Compare) and isinstance(a.ops[0], ast.In):
                v = True
            elif t == 'uploaded.called':
                v = False
            elif t == 'await_all':
                v = env['aa']
            elif t == 'confirmed_uploads':
                v = env['conf']
            elif t == 'failed_uploads':
                v = leg == 'FAILED'
            elif isinstance(a, ast.Compare) and len(a.ops) == 1 and isinstance(a.ops[0], (ast.Eq, ast.NotEq)):
                sides = sorted([nsrc(a.left).replace(' ', ''), nsrc(a.comparators[0]).replace(' ', '')])
                if sides == ['attempted_uploads', 'failed_uploads']:
                    v = env['allfailed']
                elif 'len(attempted_uploads)' in sides and any(x in ('len(failed_uploads)+len(confirmed_uploads)', 'len(confirmed_uploads)+len(failed_uploads)') for x in sides):
                    v = env['allans']
                if v is not None and isinstance(a.ops[0], ast.NotEq):
                    v = not v
            if v is None:
                if not is_noise(a) and t not in ('progress',):
                    unknown.append(src(a))
                return None
            return (not v) if neg else v
        outcomes = set()
        paths = g.paths(eval_hook=hook, follow_exc=False, pure_calls=('translate_progress', 'hostname_matches'))
        for p_ in paths:
            run.paths_enumerated += 1
            if p_.exit == 'raise':
                continue
            cb = sum(1 for n, _ in p_.steps if n.kind == 'stmt' for a in node_asts(n) if is_mut(a) == 'uploaded.callback')
            eb = sum(1 for n, _ in p_.steps if n.kind == 'stmt' for a in node_asts(n) if is_mut(a) == 'uploaded.errback')
            outcomes.add((cb, eb, p_.describe(10)))
        k += 1
        desc = '%s, %s, %s' % (leg, 'await-all' if env['aa'] else 'wait-for-one',
                               'every attempt failed' if env['allfailed'] else ('%sconfirmed, %s' % ('' if env['conf'] else 'none ', 'all answered' if env['allans'] else 'some outstanding')))
        if unknown and len(set((c, e) for c, e, _ in outcomes)) > 1:
            # tests that look only at the event's own text are free: the property quantifies over all events, so an outcome that
            # depends on them (e.g. on the REASON= field) is wrong for some event.  Anything else stays undecided.
            if all(set(x.id for x in ast.walk(ast.parse(t_, mode='eval')) if isinstance(x, ast.Name)) <= evt_names for t_ in set(unknown)):
                for c, e, d in sorted(outcomes):
                    if (c, e) != want:
                        run.ob('R15.7', hs, hs.node, 'own event [%s]: success fired %d time(s), failure %d, whatever else the event says' % (desc, want[0], want[1]), False,
                               slot='outcome-depends-on-event-text:%s' % desc,
                               message='hs_desc on [%s] fires success %d / failure %d times when %s: the outcome depends on event fields the property does not '
                                       'condition on (e.g. REASON=)' % (desc, c, e, ' / '.join(sorted(set(unknown))[:2])), path=d)
                continue
            run.ob('R15.7', hs, hs.node, 'outcome decided for [%s]' % desc, None, message='hs_desc consults %s, which the oracle does not model' % sorted(set(unknown))[:2])
            continue
        for c, e, d in sorted(outcomes):
            run.ob('R15.7', hs, hs.node, 'own event [%s]: success fired %d time(s), failure %d' % (desc, want[0], want[1]), (c, e) == want, slot='outcome:%s' % desc,
                   message='hs_desc on [%s] fires success %d and failure %d times (wanted %d / %d)' % (desc, c, e, want[0], want[1]), path=d)
    run.floor('R15.7', 'event scenarios', k, 12)
    # the waiting mode is the caller's: await_all is the parameter itself, with None meaning wait-for-one
    aa = [n for n in walk_unit(u) if isinstance(n, ast.Assign) and dotted(n.targets[0]) == CUR['roles']['mode']]
    for a in aa:
        v = a.value
        ok = dotted(v) == 'await_all_uploads' or (isinstance(v, ast.Call) and dotted(v.func) == 'bool' and dotted(v.args[0]) == 'await_all_uploads')
        if isinstance(v, ast.IfExp) and isinstance(v.test, ast.Compare) and dotted(v.test.left) == 'await_all_uploads' and is_none(v.test.comparators[0]):
            none_leg, some_leg = (v.body, v.orelse) if isinstance(v.test.ops[0], ast.Is) else (v.orelse, v.body)
            ok = const(none_leg) is False and dotted(some_leg) == 'await_all_uploads'
        if isinstance(v, ast.BoolOp) and isinstance(v.op, ast.Or) and dotted(v.values[0]) == 'await_all_uploads' and const(v.values[-1]) is False:
            ok = True
        run.ob('R15.7', u, a, 'the waiting mode is what the caller asked for (None = wait for one)', ok, slot='mode-value',
               message='await_all = %s: the requested waiting mode is not honoured' % src(v)[:60])


def r15_8(run):
    """the waiting mode reaches the wait: every function that takes await_all_uploads hands its own value on to every
    function it calls that takes it too (create() -> _add_ephemeral_service -> _await_descriptor_upload, and the filesystem
    creators); an omitted argument silently means wait-for-one"""
    mod = run.idx.modules.get('onion') or run.idx.modules.get('txtorcon.onion')
    k = 0
    takers = [u for u in run.idx.all_units() if isinstance(u.node, (ast.FunctionDef, ast.AsyncFunctionDef)) and 'await_all_uploads' in [a.arg for a in u.node.args.args + u.node.args.kwonlyargs]
              and u.file.endswith('onion.py')]
    byname = dict((u.name, u) for u in takers if u.owner_cls is None or True)
    for u in takers:
        for c in calls_in(u):
            cal = dotted(c.func) or ''
            tgt = byname.get(cal.split('.')[-1]) if cal and cal.split('.')[-1] in ('_add_ephemeral_service', '_await_descriptor_upload') else None
            if tgt is None:
                continue
            params = [a.arg for a in tgt.node.args.args]
            i = params.index('await_all_uploads')
            val = None
            if len(c.args) > i:
                val = c.args[i]
            for kw in c.keywords:
                if kw.arg == 'await_all_uploads':
                    val = kw.value
            k += 1
            run.ob('R15.8', u, c, '%s passes its waiting mode on to %s' % (u.short, tgt.name), val is not None and dotted(val) == 'await_all_uploads', slot='mode-flow:%s->%s' % (u.short, tgt.name),
                   message='%s calls %s with await_all_uploads=%s: the caller\'s waiting mode is dropped and the service waits for the first upload only'
                           % (u.short, tgt.name, src(val) if val is not None else '<omitted>'))
    run.floor('R15.8', 'hand-over sites of the waiting mode', k, 4)


def r15_5(run):
    """the listener is armed before the creating command in every creator"""
    sites = [(MOD + '._add_ephemeral_service', 'queue_command'),
             (MOD + '.FilesystemOnionService.create', 'save'),
             (MOD + '.FilesystemAuthenticatedOnionService.create', 'save')]
    for uname, cmd in sites:
        u = run.idx.unit(uname)
        g = cfg_of(u)
        aw = g.nodes_where(lambda n: any(is_call_to(a, '_await_descriptor_upload') for a in node_asts(n)))
        cm = g.nodes_where(lambda n: any(isinstance(a, ast.Call) and callee_attr(a) == cmd for a in node_asts(n)))
        run.floor('R15.5', 'creating command sites in %s' % uname, len(cm), 1)
        # every path to the command has set up the wait holder (the real wait, or - for Tors too old to
        # send HS_DESC - an already-fired Deferred), and the wait is never armed after the command
        holders = set(t for n in aw for t in assigned_targets(n.ast))
        setup = g.nodes_where(lambda n: n.kind == 'stmt' and isinstance(n.ast, ast.Assign) and any(t in holders for t in assigned_targets(n.ast))
                              and not (isinstance(n.ast.value, (ast.List, ast.Constant))))
        ok = bool(aw)
        legacy = set((t.id, 'F') for t in g.live if t.kind == 'test' and isinstance(t.ast, ast.Call) and (dotted(t.ast.func) or '').endswith('version_at_least'))
        for c in cm:
            r = g.reachable([g.entry], avoid=lambda n: n in aw, skip_edges=legacy)
            if c in r:
                ok = False
            after = g.reachable([s_ for _, s_ in c.succ])
            if any(a in after for a in aw):
                ok = False
        run.ob('R15.5', u, (cm[0].ast if cm else u.node), '%s: _await_descriptor_upload is called before the creating command' % u.short, ok, slot='armed-first:%s' % u.short,
               message='%s can send its creating command (%s) before the HS_DESC listener is armed: an upload event arriving '
                       'at once is missed and creation never completes' % (u.short, cmd))
        # and the wait is awaited afterwards
        defs = local_defs(u)
        names = [t for n in aw for t in assigned_targets(n.ast)]
        yielded = any(isinstance(a, ast.Yield) and a.value is not None and (dotted(a.value) in names or src(a.value) in names) for a in walk_unit(u))
        run.ob('R15.5', u, u.node, '%s waits for the descriptor wait it armed' % u.short, yielded, slot='awaited:%s' % u.short, message='%s never yields the descriptor wait' % u.short)
        # ... on every path: no normal exit after the command is reached around the wait (a shortcut "if it has fired already" also
        # skips looking at a wait that has already *failed*)
        yn = g.nodes_where(lambda n: any(isinstance(a, ast.Yield) and a.value is not None and (dotted(a.value) in names or src(a.value) in names) for a in node_asts(n)))
        for c in cm:
            r = g.reachable([s_ for lab, s_ in c.succ if lab != 'exc'], avoid=lambda n: n in yn, follow_exc=False)
            run.ob('R15.5', u, c.ast, '%s: every way from the creating command to a normal return passes the descriptor wait' % u.short,
                   not any(e in r for e in g.normal_exits()), slot='awaited-always:%s' % u.short,
                   message='%s can return normally after %s without yielding the descriptor wait (the wait is conditional): a wait that has already failed - every '
                           'upload failed before the reply arrived - is never looked at and creation reports success' % (u.short, cmd))
        for n in aw:
            for a in node_asts(n):
                if is_call_to(a, '_await_descriptor_upload'):
                    in_yield = any(isinstance(y, ast.Yield) and y.value is a for y in walk_unit(u))
                    run.ob('R15.5', u, a, '%s does not block on the wait before sending the command' % u.short, not in_yield, slot='not-yielded-early:%s' % u.short,
                           message='%s yields _await_descriptor_upload(...) directly: it would wait for uploads before creating the service' % u.short)


def r15_6(run):
    us = [run.idx.unit(MOD + '._await_descriptor_upload'), run.idx.unit(MOD + '._add_ephemeral_service'), run.idx.unit(MOD + '.FilesystemOnionService.create'),
          run.idx.unit(MOD + '.FilesystemAuthenticatedOnionService.create'), run.idx.unit(MOD + '.EphemeralOnionService.create'), run.idx.unit(MOD + '.EphemeralAuthenticatedOnionService.create')]
    k = dropped_deferreds(run, 'R15.6', us, 'onion service creation')
    run.floor('R15.6', 'suspension points in the creation coroutines', k, 12)


def r15_9(run):
    """the subscription is removed afterwards: the wait ends from *inside* an HS_DESC delivery, so remove_event_listener() runs during
    delivery - its "last listener gone -> forget the event, SETEVENTS" decision must see the removal at once.  The listener-table
    discipline of C02 (R02.3 snapshot iteration / copy-on-write unlisten, R02.5 table + SETEVENTS), shared"""
    from . import c02
    borrow(run, c02.r02_3, 'R15.9')
    borrow(run, c02.r02_5, 'R15.9')


RULES = [
    ('R15.9', 'unsubscribing from inside a delivery takes effect at once (R02.3 / R02.5 borrowed): the HS_DESC subscription really ends', r15_9),
    ('R15.8', 'parameter flow: await_all_uploads is handed on unchanged along create() -> helper -> _await_descriptor_upload', r15_8),
    ('R15.7', 'outcome oracle: path enumeration of hs_desc over (event kind, waiting mode, all-failed, any-confirmed, all-answered) with the wait still pending', r15_7),
    ('R15.6', 'no dropped Deferred in the creation coroutines (subscribe / command / wait / unsubscribe are all awaited)', r15_6),
    ('R15.1', 'guard agreement across legs: every mutation/fire in hs_desc is behind hostname_matches(event address); field positions per control-spec 4.1.25', r15_1),
    ('R15.2', 'every fire of the wait is under "not uploaded.called"; fired only by the handler', r15_2),
    ('R15.3', 'CFG with exception edges at yields: the HS_DESC subscription is removed on the success and on the failure continuation of the wait', r15_3),
    ('R15.4', 'completion is re-evaluated where its inputs change; failure only when all attempts failed; success needs a confirmation', r15_4),
    ('R15.5', 'dominance: the descriptor wait is armed before the creating command in every creator, installed at the first suspension point, awaited afterwards', r15_5),
]

from ..selftest import M  # noqa: E402
F = 'txtorcon/onion.py'
MUTANTS = [
    M('foreign-upload-unattempts-dir', F, "                    \"Upload to {} started\".format(args[3])\n                )\n", "                    \"Upload to {} started\".format(args[3])\n                )\n            else:\n                attempted_uploads.discard(args[3])\n", ['R15.1']),
    M('wait-skipped-when-fired', F, "    log.msg(\"{}: waiting for descriptor uploads.\".format(onion.hostname))\n    yield uploaded_d\n", "    if not uploaded_d.called:\n        yield uploaded_d\n", ['R15.5']),
    M('mode-not-handed-on', F, "        yield _add_ephemeral_service(config, onion, progress, version, None, await_all_uploads)", "        yield _add_ephemeral_service(config, onion, progress, version)", ['R15.8']),
    M('failed-last-never-completes', F, "                    elif await_all and confirmed_uploads:\n                        # this failure may have been the last\n                        # outstanding attempt\n                        if (len(failed_uploads) + len(confirmed_uploads)) == len(attempted_uploads):\n                            uploaded.callback(onion)", "                    elif await_all and confirmed_uploads:\n                        if (len(failed_uploads) + len(confirmed_uploads)) != len(attempted_uploads):\n                            uploaded.callback(onion)", ['R15.7']),
    M('failed-last-no-callback', F, "                        if (len(failed_uploads) + len(confirmed_uploads)) == len(attempted_uploads):\n                            uploaded.callback(onion)\n\n    # the first", "                        if (len(failed_uploads) + len(confirmed_uploads)) == len(attempted_uploads):\n                            pass\n\n    # the first", ['R15.7']),
    M('mode-inverted', F, "    await_all = False if await_all_uploads is None else await_all_uploads", "    await_all = False if await_all_uploads is not None else await_all_uploads", ['R15.7', 'R15.4']),
    M('mode-default-all', F, "    await_all = False if await_all_uploads is None else await_all_uploads", "    await_all = True if await_all_uploads is None else await_all_uploads", ['R15.7', 'R15.4']),
    M('subscribe-not-awaited', F, "    yield tor_protocol.add_event_listener('HS_DESC', hs_desc)\n    try:", "    tor_protocol.add_event_listener('HS_DESC', hs_desc)\n    try:", ['R15.6']),
    M('failed-leg-unguarded', F, "        elif subtype == 'FAILED':\n            if hostname_matches('{}.onion'.format(args[1])):\n                failed_uploads.add(args[3])", "        elif subtype == 'FAILED':\n            if True:\n                failed_uploads.add(args[3])", ['R15.1']),
    M('upload-leg-unguarded', F, "        if subtype == 'UPLOAD':\n            if hostname_matches('{}.onion'.format(args[1])):", "        if subtype == 'UPLOAD':\n            if True:", ['R15.1']),
    M('matcher-wrong-field', F, "            if hostname_matches('{}.onion'.format(args[1])):\n                failed_uploads.add(args[3])", "            if hostname_matches('{}.onion'.format(args[2])):\n                failed_uploads.add(args[3])", ['R15.1']),
    M('errback-unguarded', F, "                if not uploaded.called:\n                    if failed_uploads == attempted_uploads:", "                if True:\n                    if failed_uploads == attempted_uploads:", ['R15.2']),
    M('callback-unguarded', F, "                if not uploaded.called:\n                    if await_all:\n                        if (len(failed_uploads) + len(confirmed_uploads)) == len(attempted_uploads):\n                            uploaded.callback(onion)\n                    else:", "                if True:\n                    if await_all:\n                        if (len(failed_uploads) + len(confirmed_uploads)) == len(attempted_uploads):\n                            uploaded.callback(onion)\n                    else:", ['R15.2']),
    M('no-unsubscribe-on-failure', F, "    try:\n        yield uploaded\n    except Exception:\n        yield tor_protocol.remove_event_listener('HS_DESC', hs_desc)\n        raise\n    yield tor_protocol.remove_event_listener('HS_DESC', hs_desc)", "    yield uploaded\n    yield tor_protocol.remove_event_listener('HS_DESC', hs_desc)", ['R15.3']),
    M('no-unsubscribe-on-success', F, "        raise\n    yield tor_protocol.remove_event_listener('HS_DESC', hs_desc)\n", "        raise\n", ['R15.3']),
    M('failed-leg-no-recheck', F, "                    elif await_all and confirmed_uploads:\n                        # this failure may have been the last\n                        # outstanding attempt\n                        if (len(failed_uploads) + len(confirmed_uploads)) == len(attempted_uploads):\n                            uploaded.callback(onion)\n", "", ['R15.4']),
    M('fail-on-first-failure', F, "                    if failed_uploads == attempted_uploads:\n                        msg =", "                    if failed_uploads:\n                        msg =", ['R15.4']),
    M('await-all-on-first', F, "                    if await_all:\n                        if (len(failed_uploads) + len(confirmed_uploads)) == len(attempted_uploads):\n                            uploaded.callback(onion)\n                    else:\n                        uploaded.callback(onion)", "                    uploaded.callback(onion)", ['R15.4']),
    M('command-before-listener', F, "    uploaded_d = _await_descriptor_upload(config.tor_protocol, onion, progress, await_all_uploads)\n\n    # we allow a key", "    # we allow a key", None),
    M('yield-before-listener', F, "    yield tor_protocol.add_event_listener('HS_DESC', hs_desc)\n    try:", "    yield defer.succeed(None)\n    yield tor_protocol.add_event_listener('HS_DESC', hs_desc)\n    try:", ['R15.5']),
]
MUTANTS = [m for m in MUTANTS if m.name != 'command-before-listener']
TWINS = [
    M('try-finally-flag', F, "    try:\n        yield uploaded\n    except Exception:\n        yield tor_protocol.remove_event_listener('HS_DESC', hs_desc)\n        raise\n    yield tor_protocol.remove_event_listener('HS_DESC', hs_desc)", "    try:\n        yield uploaded\n    finally:\n        yield tor_protocol.remove_event_listener('HS_DESC', hs_desc)"),
    M('nested-guards', F, "            if hostname_matches('{}.onion'.format(args[1])):\n                failed_uploads.add(args[3])", "            mine = hostname_matches('{}.onion'.format(args[1]))\n            if mine:\n                failed_uploads.add(args[3])"),
]
