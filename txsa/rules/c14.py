"""C14 - ADD_ONION carries exactly the requested service; key custody follows the request."""
import ast
import itertools

from .common import *  # noqa

MOD = 'onion'
FLAG_OF = {'detach': 'Detach', 'discard': 'DiscardPK', 'auth': 'BasicAuth', 'single_hop': 'NonAnonymous'}
KEYS = ('none', 'discard', 'bare', 'prefixed')


def AES(run):
    return run.idx.unit(MOD + '._add_ephemeral_service')


def key_class_after(trail, k0):
    k = k0
    for n, lab in trail:
        if n.kind == 'stmt' and isinstance(n.ast, ast.Assign) and lab != 'exc':
            v = assign_to(n.ast, 'onion._private_key')
            if v is None:
                continue
            if is_none(v):
                k = 'none'
            elif isinstance(v, ast.BinOp) and isinstance(const(v.left), str) and dotted(v.right) == 'onion.private_key':
                k = 'prefixed'
            else:
                k = 'fromtor'
    return k


def key_truth(a, k, version):
    """truth of a test on onion.private_key for key class k; None if not such a test."""
    PK = 'onion.private_key'
    if dotted(a) == PK:
        return k != 'none'
    if isinstance(a, ast.Compare) and len(a.ops) == 1:
        l, op, r = a.left, a.ops[0], a.comparators[0]
        if dotted(l) == PK and (dotted(r) or '').endswith('DISCARD'):
            v = (k == 'discard')
            return v if isinstance(op, (ast.Is, ast.Eq)) else (not v)
        if dotted(l) == PK and is_none(r):
            v = (k == 'none')
            return v if isinstance(op, (ast.Is, ast.Eq)) else (not v)
        if dotted(l) == PK and isinstance(r, ast.Tuple) and isinstance(op, (ast.In, ast.NotIn)):
            names = [('none' if is_none(e) else ('discard' if (dotted(e) or '').endswith('DISCARD') else '?')) for e in r.elts]
            v = k in names
            return v if isinstance(op, ast.In) else (not v)
        if const(l) == ':' and dotted(r) == PK and isinstance(op, (ast.In, ast.NotIn)):
            if k in ('none', 'discard'):
                return None
            v = (k in ('prefixed', 'fromtor'))
            return v if isinstance(op, ast.In) else (not v)
        if dotted(l) == 'version' and isinstance(const(r), int):
            v = (version == const(r))
            return v if isinstance(op, ast.Eq) else ((not v) if isinstance(op, ast.NotEq) else None)
    if isinstance(a, ast.Call) and dotted(a.func) == PK + '.startswith':
        return False if k == 'bare' else None
    return None


def r14(run):
    u = AES(run)
    g = cfg_of(u)
    cmds = [c for c in calls_in(u) if callee_attr(c) == 'queue_command']
    run.floor('R14.1', 'queue_command sites in _add_ephemeral_service', len(cmds), 1)
    # local names by role (so that renaming a local changes nothing)
    CMD = cmds[0].args[0].id if cmds and cmds[0].args and isinstance(cmds[0].args[0], ast.Name) else 'cmd'
    FLAGS = sorted(set((dotted(c.func) or '').rsplit('.', 1)[0] for c in calls_in(u) if callee_attr(c) == 'append' and c.args and const(c.args[0]) in FLAG_OF.values()))
    if len(FLAGS) != 1:
        raise Undecided('_add_ephemeral_service: the flag list is not built here by <list>.append(<flag constant>) (found %s)' % FLAGS)
    FLAGS = FLAGS[0]
    RES = (names_defined_by(u, lambda v: isinstance(v, ast.Call) and (dotted(v.func) or '').endswith('find_keywords')) or ['res'])[0]
    # --- cmd is built from 'ADD_ONION {key}' by appends only
    cmd_defs = [n for n in walk_unit(u) if isinstance(n, (ast.Assign, ast.AugAssign)) and CMD in assigned_targets(n)]
    init = [n for n in cmd_defs if isinstance(n, ast.Assign)]
    holes0 = [dotted(h.node) for h in shape(init[0].value) if isinstance(h, Hole)] if init else []
    KS = holes0[0] if len(holes0) == 1 and holes0[0] else 'keystring'
    ok = len(init) == 1 and shape_prefix(shape(init[0].value)) == 'ADD_ONION ' and len(holes0) == 1
    run.ob('R14.1', u, init[0] if init else u.node, 'the command starts as "ADD_ONION <key specifier>"', ok, slot='cmd-init',
           message='cmd initialised as %s' % [src(n.value) for n in init])
    for n in cmd_defs:
        if isinstance(n, ast.AugAssign):
            sh = shape(n.value)
            pre = shape_prefix(sh)
            okp = isinstance(n.op, ast.Add) and pre in (' Port=', ' Flags=', ' ClientAuth=')
            run.ob('R14.1', u, n, 'the command is only extended by Port=/Flags=/ClientAuth= items', okp, slot='cmd-append:%s' % pre.strip(),
                   message='cmd extended with %s' % shape_text(sh))
    for c in cmds:
        run.ob('R14.1', u, c, 'the command sent is the assembled one', c.args and dotted(c.args[0]) == CMD, slot='cmd-arg', message='queue_command(%s)' % src(c.args[0]) if c.args else '')
    # CR/LF guard on the key specifier dominates the command
    for c in cmds:
        for n in g.nodes_containing(c):
            gd = g.guarded_by(n, lambda t: isinstance(t, ast.Compare) and isinstance(t.ops[0], ast.In) and const(t.left) in ('\r', '\n') and dotted(t.comparators[0]) == KS)
            chars = set(const(t.ast.left) for t, lab in gd if lab == 'F')
            run.ob('R14.1', u, c, 'a key with CR or LF is rejected before ADD_ONION is sent', chars == {'\r', '\n'}, slot='crlf',
                   message='ADD_ONION is reachable with a key specifier containing %s' % sorted({'\r', '\n'} - chars))
    # ports: one Port= per element of the service's ports
    loops = [n for n in walk_unit(u) if isinstance(n, ast.For) and dotted(n.iter) in ('onion._ports', 'onion.ports')]
    ok = len(loops) == 1 and any(isinstance(x, ast.AugAssign) and shape_prefix(shape(x.value)) == ' Port=' for x in ast.walk(loops[0]))
    run.ob('R14.3', u, loops[0] if loops else u.node, 'one Port= item per requested port mapping', ok, slot='ports-loop', message='port items are not produced by one loop over the service ports')
    for lp in loops:
        for x in ast.walk(lp):
            if isinstance(x, ast.AugAssign) and shape_prefix(shape(x.value)) == ' Port=':
                sh = shape(x.value)
                okf = const(receiver(x.value)) == ' Port={},{}' and 'split' in src(x.value) and lp.target.id in src(x.value)
                run.ob('R14.3', u, x, 'Port=<virtual>,<target> from the two halves of the mapping', okf, slot='port-format', message='port item is %s' % src(x.value))
    # (a prefix that is looked up instead of written out - a table by version - is outside what the key oracle evaluates: undecided)
    nonliteral_prefix = any(isinstance(x, ast.Assign) and assign_to(x, 'onion._private_key') is not None and isinstance(assign_to(x, 'onion._private_key'), ast.BinOp)
                            and const(assign_to(x, 'onion._private_key').left) is NOCONST for x in walk_unit(u))
    # --- the option product
    npaths = 0
    seen = set()
    for k0, version, detach, single, auth in itertools.product(KEYS, (2, 3), (False, True), (False, True), (False, True)):
        def hook(node, val, trail, k0=k0, version=version, detach=detach, single=single, auth=auth):
            a = node.ast
            k = key_class_after(trail, k0)
            r = key_truth(a, k, version)
            if r is not None:
                return r
            if dotted(a) == 'onion._detach':
                return detach
            if dotted(a) == 'onion._single_hop':
                return single
            if isinstance(a, ast.Compare) and dotted(a.left) == 'auth' and is_none(a.comparators[0]):
                return auth if isinstance(a.ops[0], ast.IsNot) else (not auth)
            if isinstance(a, ast.Call) and dotted(a.func) == 'isinstance' and dotted(a.args[0]) == 'auth':
                return True if auth else None
            if dotted(a) == FLAGS:
                return None
            return None
        paths = g.paths(eval_hook=hook, loop_bound=1, max_paths=400000)
        run.paths_enumerated += len(paths)
        for p in paths:
            npaths += 1
            flags, sent, stores, hostname = [], 0, [], []
            ks_val = None
            cauth = []
            for n, lab in p.steps:
                if n.kind != 'stmt' or lab == 'exc':
                    if n.kind == 'stmt' and lab == 'exc' and any(a in cmds for a in node_asts(n)):
                        sent += 1
                    continue
                for a in node_asts(n):
                    if isinstance(a, ast.Call) and dotted(a.func) == FLAGS + '.append' and a.args:
                        flags.append(const(a.args[0]))
                    if a in cmds:
                        sent += 1
                    if isinstance(a, ast.Assign) and assign_to(a, KS) is not None and not sent:
                        kv = assign_to(a, KS)
                        ks_val = const(kv) if const(kv) is not NOCONST else src(kv)
                    if isinstance(a, ast.Assign):
                        v = assign_to(a, 'onion._private_key')
                        if v is not None:
                            stores.append('none' if is_none(v) else ('reply' if (RES + "[") in src(v) else (('prefix:' + str(const(v.left)) if const(v.left) is not NOCONST else 'prefix?:' + src(v.left)) if isinstance(v, ast.BinOp) else 'other:' + src(v))))
                        v = assign_to(a, 'onion._hostname')
                        if v is not None:
                            hostname.append(src(v))
                    if isinstance(a, ast.AugAssign) and shape_prefix(shape(a.value)) == ' ClientAuth=':
                        cauth.append(shape_text(shape(a.value)))
            sig = (k0, version, detach, single, auth, tuple(flags), sent, tuple(stores), p.exit, tuple(cauth))
            if sig in seen:
                continue
            seen.add(sig)
            tag = 'key=%s version=%d detach=%s single_hop=%s auth=%s' % (k0, version, detach, single, auth)
            want = set()
            if detach:
                want.add('Detach')
            if k0 == 'discard':
                want.add('DiscardPK')
            if auth:
                want.add('BasicAuth')
            if single:
                want.add('NonAnonymous')
            last = [n for n, _ in p.steps if n.kind == 'stmt'][-1].ast
            if sent:
                want_ks = 'onion.private_key' if k0 in ('bare', 'prefixed') else ('NEW:ED25519-V3' if version == 3 else 'NEW:BEST')
                run.ob('R14.2', u, last, 'key specifier follows the requested key and version [%s]' % tag, ks_val == want_ks, slot='keyspec:%s:%d' % (k0, version),
                       message='ADD_ONION key specifier is %s for %s (expected %s)' % (ks_val, tag, want_ks))
                run.ob('R14.3', u, last, 'flags sent == requested options [%s]' % tag, set(flags) == want and len(flags) == len(set(flags)), slot='flags',
                       message='ADD_ONION flags %s for request %s (expected %s)' % (flags, tag, sorted(want)), path=p.describe(6))
                run.ob('R14.1', u, last, 'exactly one ADD_ONION per creation', sent == 1, slot='one-command', message='%d ADD_ONION commands for %s' % (sent, tag))
                if not auth:
                    run.ob('R14.3', u, last, 'no ClientAuth items without auth', not cauth, slot='clientauth-none', message='ClientAuth items %s sent without auth' % cauth)
            if p.exit in ('return', 'fall'):
                run.ob('R14.1', u, last, 'a completed creation sent the command', sent == 1, slot='completed-sent', message='creation completes with %d commands sent (%s)' % (sent, tag))
                reply_store = 'reply' in stores
                if k0 == 'discard':
                    run.ob('R14.2', u, last, 'discard requested: no key is ever stored', not reply_store and not any(s.startswith('prefix') for s in stores), slot='custody:discard',
                           message='key material stored although DISCARD was requested: %s' % stores)
                elif k0 == 'none':
                    run.ob('R14.2', u, last, "no key supplied: Tor's generated key is retained", reply_store, slot='custody:generated',
                           message="the key Tor generated is not stored (stores: %s)" % stores)
                else:
                    run.ob('R14.2', u, last, 'supplied key: nothing from the reply overwrites it', not reply_store and 'none' not in stores, slot='custody:supplied',
                           message='a supplied key is overwritten after ADD_ONION: %s' % stores)
                run.ob('R14.4', u, last, "address := ServiceID + '.onion'", hostname == ["%s['ServiceID'] + '.onion'" % RES], slot='hostname', message='hostname assigned %s' % hostname)
            pre = [s for s in stores if s.startswith('prefix') or s.startswith('other')]
            if k0 == 'bare':
                want_p = {2: 'prefix:RSA1024:', 3: 'prefix:ED25519-V3:'}[version]
                if sent:
                    unknown_prefix = any(s_.startswith('prefix?:') for s_ in pre) or nonliteral_prefix
                    run.ob('R14.2', u, last, 'a bare key blob only gets its type prefix', None if unknown_prefix else pre == [want_p], slot='prefix:bare:%d' % version,
                           message='bare key rewritten as %s (version %d)%s' % (pre, version, ': the prefix is not a literal here (looked up in a table?) - not decided' if unknown_prefix else ''))
            elif sent:
                run.ob('R14.2', u, last, 'a key is never rewritten otherwise', not pre, slot='prefix:%s' % k0, message='key of class %s rewritten: %s' % (k0, pre))
    run.count('R14 option-product paths', npaths)
    # keystring flows from the key / version only
    ks = [n for n in walk_unit(u) if isinstance(n, ast.Assign) and dotted(n.targets[0]) == KS]
    vals = sorted(src(n.value) for n in ks)
    ok = vals == sorted(["'NEW:BEST'", 'onion.private_key', "'NEW:ED25519-V3'"])
    run.ob('R14.2', u, u.node, 'key specifier is the supplied key, or NEW:<type> for the version', ok, slot='keystring-defs', message='keystring definitions: %s' % vals)
    # ClientAuth items: one per client name, with :blob iff a blob was supplied
    cl = [n for n in walk_unit(u) if isinstance(n, ast.For) and 'client_names()' in src(n.iter)]
    ok = len(cl) == 1
    if ok:
        shapes = sorted(const(receiver(x.value)) for x in ast.walk(cl[0]) if isinstance(x, ast.AugAssign) and isinstance(x.value, ast.Call))
        ok = shapes == [' ClientAuth={}', ' ClientAuth={}:{}']
        tests = [t for t in ast.walk(cl[0]) if isinstance(t, ast.If)]
        ok = ok and any(isinstance(x, ast.Compare) and is_none(x.comparators[0]) for t in tests for x in ast.walk(t.test))
    run.ob('R14.3', u, cl[0] if cl else u.node, 'one ClientAuth item per client name, with ":blob" iff supplied', ok, slot='clientauth-loop', message='ClientAuth construction changed')
    # the descriptor listener is armed before the command (also C15)
    for c in cmds:
        aw = [x for x in calls_in(u) if dotted(x.func) == '_await_descriptor_upload']
        okl = bool(aw) and all(any(g.dominates(m, n) for m in g.nodes_containing(a)) for a in aw for n in g.nodes_containing(c))
        run.ob('R14.1', u, c, 'descriptor wait is armed before ADD_ONION is sent', okl, slot='listener-first', message='ADD_ONION can be sent before _await_descriptor_upload')


def r14_4(run):
    k = 0
    for cname in ('EphemeralOnionService', 'EphemeralAuthenticatedOnionService'):
        ci = run.idx.cls(cname, MOD)
        rm = run.idx.find_method(ci, 'remove')
        if rm is None:
            raise AnchorVanished(cname + '.remove')
        cmds = [c for c in calls_in(rm) if callee_attr(c) == 'queue_command']
        defs = local_defs(rm)
        for c in cmds:
            k += 1
            sh = shape(c.args[0], expr_defs_for_shape(defs))
            holes = [h for h in sh if isinstance(h, Hole)]
            ok = shape_prefix(sh) == 'DEL_ONION ' and len(holes) == 1 and src(holes[0].node) in ("self._hostname[:-len('.onion')]", 'self._hostname[:-6]', "self.hostname[:-len('.onion')]", 'self.hostname[:-6]')
            run.ob('R14.4', rm, c, '%s.remove sends DEL_ONION <address without .onion>' % cname, ok, slot='del_onion:%s' % cname, message='%s.remove sends %s' % (cname, shape_text(sh)))
        g = cfg_of(rm)
        for p in g.paths():
            if p.exit == 'raise' and not any(n.kind == 'stmt' and isinstance(n.ast, ast.Raise) for n, _ in p.steps):
                continue
            n = sum(1 for nn, _ in p.steps for a in node_asts(nn) if nn.kind == 'stmt' and a in cmds)
            if p.exit != 'raise':
                run.ob('R14.4', rm, rm.node, '%s.remove sends exactly one DEL_ONION' % cname, n == 1, slot='del-once:%s' % cname, message='%d DEL_ONION commands' % n)
        ck = [t for t in g.live if t.kind == 'test' and 'OK' in src(t.ast)]
        run.ob('R14.4', rm, rm.node, '%s.remove fails unless Tor answered OK' % cname, bool(ck), slot='del-check:%s' % cname, message='remove does not check the reply')
    run.floor('R14.4', 'DEL_ONION senders', k, 2)
    # the deprecated sender
    eh = run.idx.cls('EphemeralHiddenService', 'torconfig')
    at = run.idx.find_method(eh, 'add_to_tor')
    rf = run.idx.find_method(eh, 'remove_from_tor')
    if at is not None:
        cmds = [c for c in calls_in(at) if callee_attr(c) == 'queue_command']
        defs = local_defs(at)
        for c in cmds:
            sh = shape(c.args[0], expr_defs_for_shape(defs))
            run.ob('R14.4', at, c, 'deprecated EphemeralHiddenService.add_to_tor sends one ADD_ONION', shape_prefix(sh).startswith('ADD_ONION '), slot='deprecated-add',
                   message='add_to_tor sends %s' % shape_text(sh))
        run.ob('R14.4', at, at.node, 'deprecated sender issues exactly one command', len(cmds) == 1, slot='deprecated-add-once', message='%d commands' % len(cmds))
    if rf is not None:
        cmds = [c for c in calls_in(rf) if callee_attr(c) == 'queue_command']
        for c in cmds:
            sh = shape(c.args[0], expr_defs_for_shape(local_defs(rf)))
            holes = [h for h in sh if isinstance(h, Hole)]
            ok = shape_prefix(sh) == 'DEL_ONION ' and len(holes) == 1 and src(holes[0].node) in ('self.hostname[:-6]', "self.hostname[:-len('.onion')]")
            run.ob('R14.4', rf, c, 'deprecated remove_from_tor sends DEL_ONION <address without .onion>', ok, slot='deprecated-del', message='remove_from_tor sends %s' % shape_text(sh))


def _int_may_raise(node):
    # int(<text>) is how the validators tell numbers from other forms: its ValueError leg is ordinary control flow here
    for a in walk_local(node, descend_root=False) if not isinstance(node, FUNC_TYPES) else []:
        if isinstance(a, ast.Call) and dotted(a.func) == 'int':
            return ('ValueError',)
    return None


def r14_6(run):
    """port mappings correspond exactly to the requested ports: in _validate_ports every requested entry that is not refused
    yields exactly one processed mapping (path enumeration over one loop iteration)"""
    u = run.idx.unit(MOD + '._validate_ports')
    g = cfg_of(u, may_raise=_int_may_raise)
    loops = [n for n in g.live if n.kind == 'iter' and isinstance(n.ast, ast.For) and dotted(n.ast.iter) == u.params[1]]
    run.floor('R14.6', 'loops over the requested ports', len(loops), 1)
    rn = returned_names(u)
    OUT = rn[0] if len(rn) == 1 else 'processed_ports'
    k = 0
    for lp in loops:
        start = [s_ for lab, s_ in lp.succ if lab == 'body']
        for p_ in g.paths(start=start[0], stop=lambda n, lp=lp: n is lp, loop_bound=1) if start else []:
            run.paths_enumerated += 1
            if p_.exit == 'raise':
                continue
            k += 1
            na = sum(1 for n, _ in p_.steps if n.kind == 'stmt' for a in node_asts(n) if isinstance(a, ast.Call) and dotted(a.func) == OUT + '.append')
            run.ob('R14.6', u, lp.ast, 'each accepted port entry yields exactly one mapping', na == 1, slot='one-mapping-per-entry',
                   message='_validate_ports accepts an entry but adds %d mappings for it on the path %s: the ADD_ONION lacks (or repeats) a requested Port=' % (na, p_.describe(8)),
                   path=p_.describe(10))
    run.floor('R14.6', 'accepting paths through one loop iteration', k, 4)


VALID_PORTS = (1, 22, 80, 443, 1024, 8080, 49152, 65534, 65535)


def r14_9(run):
    """the requested mappings reach the ADD_ONION: no valid TCP port number is refused by the port validators.  Every test that looks
    at an int()-converted port through comparisons / range membership is evaluated for representative valid ports (both ends of
    1..65535 and the constants' neighbours); a decided branch from which no normal exit is reachable refuses that port"""
    units = [run.idx.unit(MOD + '.' + n) for n in ('_validate_single_port_string', '_validate_ports', '_validate_ports_low_level')]
    examined = 0
    for u in units:
        if u is None:
            continue
        ints = set()
        for n in walk_unit(u):
            if isinstance(n, ast.Assign) and isinstance(n.value, ast.Call) and dotted(n.value.func) == 'int':
                ints.update(t.id for t in n.targets if isinstance(t, ast.Name))
        if not ints:
            continue
        g = cfg_of(u, may_raise=_int_may_raise)
        normal = set(g.normal_exits())
        for t in g.live:
            if t.kind != 'test' or t.ast is None:
                continue
            names = [nm for nm in ints if mentions(t.ast, nm)]
            if len(names) != 1:
                continue
            nm = names[0]
            consts = [c.value for c in ast.walk(t.ast) if isinstance(c, ast.Constant) and isinstance(c.value, int) and not isinstance(c.value, bool)]
            reps = sorted(set(VALID_PORTS) | set(v for v in representatives(consts) if 1 <= v <= 65535))
            examined += 1
            for v in reps:
                r = eval_small(t.ast, {nm: v})
                if r is UNKNOWN:
                    continue
                lab = 'T' if r else 'F'
                succ = [s_ for l_, s_ in t.succ if l_ == lab]
                if not succ:
                    continue
                reach = g.reachable(succ)
                if not (reach & normal) and not any(n.kind == 'iter' for n in reach):
                    run.ob('R14.9', u, t.ast, 'a valid TCP port passes every numeric test of the port validators', False, slot='valid-port-refused@%s' % u.name,
                           message='%s refuses port %d (%s is %s and only raises follow): a request with that virtual port sends no ADD_ONION' % (u.name, v, src(t.ast)[:60], bool(r)))
                    break
    run.ob('R14.9', units[0] or units[1], (units[0] or units[1]).node, 'numeric port tests examined for %d representative valid ports (%d tests)' % (len(VALID_PORTS), examined), True)


DECODERS = ('b64decode', 'b32decode', 'b16decode', 'unhexlify', 'a2b_base64', 'a2b_hex', 'decodebytes', 'standard_b64decode', 'urlsafe_b64decode', 'fromhex', 'decode')


def r14_10(run):
    """client-auth entries correspond exactly to the requested ones: a supplied token is opaque to txtorcon - it goes into
    ClientAuth=name:token as given (R14.3) and the auth objects do not judge it.  In _AuthCommon (and its subclasses'
    constructors) no refusal depends on the token's *contents*: no raise guarded by a test of a token other than a
    line-break / blank membership test, no decoder applied to a token (Tor hands out unpadded base64 cookies that a
    strict decoder refuses)"""
    ac = run.idx.cls('_AuthCommon', MOD)
    units = [m for c in [ac] + run.idx.subclasses(ac) for nm, m in c.methods.items() if nm == '__init__']
    k = 0
    for u in units:
        # names that hold tokens: second target of an unpacked client pair / of items() of the stored mapping, values()
        tok = set()
        for n in walk_unit(u):
            if isinstance(n, ast.Assign) and isinstance(n.targets[0], (ast.Tuple, ast.List)) and len(n.targets[0].elts) == 2 and isinstance(n.targets[0].elts[1], ast.Name):
                tok.add(n.targets[0].elts[1].id)
            if isinstance(n, (ast.For, ast.comprehension)):
                it = src(n.iter)
                if it.endswith('.items()') and isinstance(n.target, (ast.Tuple, ast.List)) and len(n.target.elts) == 2 and isinstance(n.target.elts[1], ast.Name):
                    tok.add(n.target.elts[1].id)
                elif it.endswith('.values()') and isinstance(n.target, ast.Name):
                    tok.add(n.target.id)
        if not tok:
            continue
        k += 1
        g = cfg_of(u)

        def on_token(e):
            return [x.id for x in ast.walk(e) if isinstance(x, ast.Name) and x.id in tok]
        for c in calls_in(u):
            if (callee_attr(c) or dotted(c.func) or '').split('.')[-1] in DECODERS and any(on_token(a) for a in c.args):
                run.ob('R14.10', u, c, 'no decoder is applied to a client token', False, slot='token-decoded@%s' % u.cls.simple,
                       message='%s.__init__ runs %s on a client token: tokens that decoder refuses (e.g. the unpadded 22-character cookies Tor itself issues) '
                               'make the request fail before any ADD_ONION' % (u.cls.simple, src(c.func)))
        for r in [n for n in g.real_nodes() if n.kind == 'stmt' and isinstance(n.ast, ast.Raise)]:
            for t, lab in g.guarded_by(r, lambda t_: bool(on_token(t_))):
                a = t.ast
                harmless = (isinstance(a, ast.Compare) and len(a.ops) == 1 and isinstance(a.ops[0], (ast.In, ast.NotIn)) and isinstance(a.left, ast.Constant)
                            and isinstance(a.left.value, str) and a.left.value.strip(' \t') in ('', '\r', '\n', '\r\n')) or \
                           (isinstance(a, ast.Compare) and len(a.ops) == 1 and isinstance(a.ops[0], (ast.Is, ast.IsNot)) and const(a.comparators[0]) is None) or \
                           (isinstance(a, ast.Call) and dotted(a.func) == 'isinstance')
                run.ob('R14.10', u, a, 'no refusal on the contents of a client token', harmless, slot='token-judged@%s' % u.cls.simple,
                       message='%s.__init__ refuses the request depending on %s: a token the caller supplied is not passed on as given' % (u.cls.simple, src(a)[:60]))
    run.floor('R14.10', 'auth constructors that see tokens', k, 1)
    run.ob('R14.10', units[0], units[0].node, 'auth constructors examined for token judgements (%d)' % k, True)


def r14_7(run):
    """(a) AuthBasic client entries: a (name, token) pair is recognised by its type, never by trying to unpack it - a str is a
    sequence too, so a two-character bare name would be split into a name and a token;
    (b) sibling agreement of the two port validators: wherever a target is *refused* for not being a local numeric address,
    the name localhost is exempt (the string form accepts "80 localhost:8080"; the pair form must not refuse it)."""
    ac = run.idx.cls('_AuthCommon', MOD)
    init = run.idx.find_method(ac, '__init__')
    g = cfg_of(init)
    k = 0
    for n in g.real_nodes():
        if n.kind == 'stmt' and isinstance(n.ast, ast.Assign) and isinstance(n.ast.targets[0], (ast.Tuple, ast.List)) and isinstance(n.ast.value, ast.Name):
            k += 1
            v = n.ast.value.id
            gd = g.guarded_by(n, lambda t: isinstance(t, ast.Call) and dotted(t.func) == 'isinstance' and len(t.args) == 2 and dotted(t.args[0]) == v)
            okt = any(lab == 'T' and not any(dotted(x) in ('str', 'bytes') for x in ast.walk(t.ast.args[1])) for t, lab in gd)
            run.ob('R14.7', init, n.ast, 'a client entry is split into (name, token) only when it is a tuple/list', okt, slot='client-pair-by-type',
                   message='_AuthCommon.__init__ unpacks %s without an isinstance test: the bare client name "yz" becomes client "y" with token "z" (ClientAuth=y:z)' % v)
    run.floor('R14.7', 'client-entry destructurings', k, 1)
    for uname in ('_validate_ports', '_validate_single_port_string'):
        u = run.idx.unit(MOD + '.' + uname)
        gu = cfg_of(u, may_raise=_int_may_raise)
        for r in [n for n in gu.real_nodes() if n.kind == 'stmt' and isinstance(n.ast, ast.Raise)]:
            gd = gu.guarded_by(r, lambda t: isinstance(t, ast.Call) and dotted(t.func) == '_is_non_public_numeric_address')
            if not any(lab == 'F' for _, lab in gd):
                continue
            ipv = [dotted(t.ast.args[0]) for t, lab in gd if lab == 'F'][0]
            ex = gu.guarded_by(r, lambda t: isinstance(t, ast.Compare) and dotted(t.left) == ipv and const(t.comparators[0]) == 'localhost' and isinstance(t.ops[0], (ast.NotEq, ast.Eq)))
            oke = any((lab == 'T') == isinstance(t.ast.ops[0], ast.NotEq) for t, lab in ex)
            run.ob('R14.7', u, r.ast, 'a non-local target is refused only if it is not "localhost"', oke, slot='localhost-exempt:%s' % uname,
                   message='%s refuses every target that is not a local numeric address, "localhost" included, while the other validator accepts it: '
                           'a request such as (80, "localhost:8080") is refused and no ADD_ONION is sent' % uname)
    run.ob('R14.7', init, init.node, 'port validators examined', True)


def r14_11(run):
    """a caller-supplied key is sent unchanged apart from its type prefix - whatever its (base64) text happens to contain.  Before the
    ADD_ONION the key text is only examined for line breaks and for a *missing* type marker; a refusal taken because the text
    *contains* some other substring ("V3", "RSA" ...) rejects valid keys whose base64 happens to spell it"""
    u = AES(run)
    g = cfg_of(u)
    cmdn = g.nodes_where(lambda n: any(isinstance(a, ast.Call) and callee_attr(a) == 'queue_command' for a in node_asts(n)))
    if not cmdn:
        raise AnchorVanished('_add_ephemeral_service: ADD_ONION command')
    after = g.reachable(cmdn)
    keynames = set(['keystring']) | set(names_defined_by(u, lambda v: 'private_key' in src(v)))
    k = 0
    for e in [n for n in g.real_nodes() if n.kind == 'stmt' and isinstance(n.ast, ast.Raise) and n not in after]:
        for t, lab in g.guarded_by(e, lambda t_: isinstance(t_, ast.Compare) and len(t_.ops) == 1 and isinstance(t_.ops[0], (ast.In, ast.NotIn)) and isinstance(t_.left, ast.Constant)
                                   and isinstance(t_.left.value, str)):
            right = dotted(t.ast.comparators[0]) or src(t.ast.comparators[0])
            if not (right in keynames or 'private_key' in right):
                continue
            k += 1
            contained = (lab == 'T') == isinstance(t.ast.ops[0], ast.In)
            ok = (not contained) or t.ast.left.value in ('\r', '\n', '\r\n')
            run.ob('R14.11', u, t.ast, 'the key text is refused only for line breaks or a missing type marker', ok, slot='key-contains:%s' % t.ast.left.value[:10],
                   message='_add_ephemeral_service refuses the request when the key text contains %r: a valid key blob whose base64 text happens to contain it is rejected and no '
                           'ADD_ONION is sent' % t.ast.left.value)
    run.floor('R14.11', 'substring tests on the key that guard a refusal', k, 1)


def r14_5(run):
    """create(): the options travel unchanged from the caller to the service object / helper"""
    for cname, has_auth in (('EphemeralOnionService', False), ('EphemeralAuthenticatedOnionService', True)):
        ci = run.idx.cls(cname, MOD)
        cr = run.idx.find_method(ci, 'create')
        init = run.idx.find_method(ci, '__init__')
        ctor = [c for c in calls_in(cr) if dotted(c.func) == cname]
        def _desc(u_):
            out_ = []
            for ch in u_.children:
                out_.append(ch)
                out_.extend(_desc(ch))
            return out_
        if not ctor and any(dotted(c.func) == cname for ch in _desc(cr) for c in calls_in(ch)):
            raise Undecided('%s.create builds the service object inside a nested callback: the option flow is not followed through explicit callback chains' % cname)
        run.ob('R14.5', cr, cr.node, '%s.create builds exactly one service object' % cname, len(ctor) == 1, slot='ctor:%s' % cname, message='%d constructor calls' % len(ctor))
        for c in ctor:
            kw = dict((k.arg, dotted(k.value)) for k in c.keywords)
            for opt in ('private_key', 'detach', 'version', 'single_hop'):
                run.ob('R14.5', cr, c, '%s.create passes %s through unchanged' % (cname, opt), kw.get(opt) == opt, slot='pass:%s:%s' % (cname, opt),
                       message='%s.create passes %s=%s' % (cname, opt, kw.get(opt)))
            pp_names = names_defined_by(cr, lambda v: isinstance(v, ast.Yield) and isinstance(v.value, ast.Call) and dotted(v.value.func) == '_validate_ports')
            okp = len(c.args) >= 2 and dotted(c.args[1]) in pp_names
            run.ob('R14.5', cr, c, 'validated ports are the ones used', okp, slot='ports:%s' % cname, message='constructor ports argument is %s' % (src(c.args[1]) if len(c.args) > 1 else None))
        add = [c for c in calls_in(cr) if dotted(c.func) == '_add_ephemeral_service']
        onion_names = names_defined_by(cr, lambda v: isinstance(v, ast.Call) and dotted(v.func) == cname)
        ok = len(add) == 1 and len(onion_names) == 1 and [dotted(a) for a in add[0].args[:4]] == ['config', onion_names[0], 'progress', 'version'] and \
            (len(add[0].args) > 4 and dotted(add[0].args[4]) == 'auth' if has_auth else (len(add[0].args) <= 4 or is_none(add[0].args[4])))
        run.ob('R14.5', cr, cr.node, '%s.create calls the ADD_ONION helper once with its own options' % cname, ok, slot='helper:%s' % cname,
               message='helper call: %s' % [src(c)[:80] for c in add])
        for field in ('_private_key', '_detach', '_single_hop', '_ports', '_version'):
            ws = writes_of(init, 'self.' + field)
            ok = len(ws) == 1 and dotted(ws[0][1]) == field[1:]
            run.ob('R14.5', init, init.node, '%s.__init__ keeps %s as given' % (cname, field[1:]), ok, slot='init:%s:%s' % (cname, field), message='%s assigned %s' % (field, [src(v) for _, v in ws]))


def r14_8(run):
    """a request is refused before ADD_ONION only for what the request itself says (its key, version, ports, options): a refusal
    decided by looking at the *other* services the configuration knows (same key? same port?) second-guesses Tor - a DISCARD or
    not-yet-answered service has no key, so every later keyless request "collides" with it and sends nothing"""
    u = AES(run)
    g = cfg_of(u)
    cfgp = u.params[0]
    tainted = set()
    changed = True
    while changed:
        changed = False
        for n in walk_unit(u):
            tg, v = [], None
            if isinstance(n, ast.Assign):
                tg, v = [t for t in assigned_targets(n) if '.' not in t and '[' not in t], n.value
            elif isinstance(n, ast.For):
                tg, v = [x.id for x in ast.walk(n.target) if isinstance(x, ast.Name)], n.iter
            elif isinstance(n, ast.comprehension):
                tg, v = [x.id for x in ast.walk(n.target) if isinstance(x, ast.Name)], n.iter
            if v is None:
                continue
            src_cfg = any((isinstance(x, ast.Attribute) and dotted(x) and dotted(x).startswith(cfgp + '.') and not dotted(x).startswith(cfgp + '.tor_protocol'))
                          or (isinstance(x, ast.Name) and x.id in tainted) for x in ast.walk(v))
            # the result of the descriptor wait / protocol calls is not "other services"
            if src_cfg and not (isinstance(v, ast.Call) and callee_attr(v) in ('_await_descriptor_upload', 'queue_command')):
                for t in tg:
                    if t not in tainted:
                        tainted.add(t)
                        changed = True
    cmdn = g.nodes_where(lambda n: any(isinstance(a, ast.Call) and callee_attr(a) == 'queue_command' for a in node_asts(n)))
    if not cmdn:
        raise AnchorVanished('_add_ephemeral_service: ADD_ONION command')
    after = g.reachable(cmdn)
    refusals = [n for n in g.real_nodes() if n.kind == 'stmt' and isinstance(n.ast, (ast.Raise, ast.Return)) and n not in after]
    k = 0
    for e in refusals:
        for t, lab in g.guarded_by(e, lambda t_: True):
            k += 1
            foreign = [x for x in ast.walk(t.ast) if (isinstance(x, ast.Name) and x.id in tainted) or
                       (isinstance(x, ast.Attribute) and (dotted(x) or '').startswith(cfgp + '.') and not (dotted(x) or '').startswith(cfgp + '.tor_protocol'))]
            run.ob('R14.8', u, t.ast, 'a request is refused before ADD_ONION only on its own contents', not foreign, slot='refusal-on-own-contents:%s' % src(t.ast)[:30],
                   message='_add_ephemeral_service refuses the request (%s) depending on %s, i.e. on other services in the configuration: no ADD_ONION is sent for a '
                           'request Tor would have accepted' % (src(e.ast)[:40], sorted(set(src(x) for x in foreign))[:3]))
    run.floor('R14.8', 'guards of refusals before ADD_ONION', k, 2)


RULES = [
    ('R14.1', 'one guarded command: ADD_ONION built by appends only, CR/LF test on the key dominates it, sent exactly once (path enumeration over the option product)', r14),
    ('R14.2', 'key custody: DiscardPK => nothing stored, generated key retained, supplied key only prefixed', lambda run: None),
    ('R14.3', 'flag table: flags sent == requested options for all 64 option combinations; Port= / ClientAuth= item construction', lambda run: None),
    ('R14.4', "address = ServiceID + '.onion'; every remove() sends DEL_ONION for that address", r14_4),
    ('R14.6', 'one processed mapping per accepted port entry (path enumeration of one iteration of _validate_ports)', r14_6),
    ('R14.7', 'client pairs recognised by type; sibling agreement of the port validators on the localhost exemption', r14_7),
    ('R14.8', 'who-may-refuse: refusals before ADD_ONION depend only on the request itself, not on other services of the configuration', r14_8),
    ('R14.9', 'accept set: numeric tests on int()-converted ports evaluated for representative valid ports 1..65535; none leads only to a refusal', r14_9),
    ('R14.10', 'tokens are opaque: no decoder applied to, and no refusal decided by, the contents of a client token in the auth constructors', r14_10),
    ('R14.11', 'who-may-refuse on the key text: only line breaks (contained) and type markers (missing)', r14_11),
    ('R14.5', 'options flow unchanged from create() to the service object and the helper', r14_5),
]

from ..selftest import M  # noqa: E402
F = 'txtorcon/onion.py'
MUTANTS = [
    M('virtual-port-range-off-by-one', F, "    if ':' not in internal:\n        raise ValueError(\n            \"Port '{}' local address", "    if external not in range(1, 65535):\n        raise ValueError('bad port')\n    if ':' not in internal:\n        raise ValueError(\n            \"Port '{}' local address", ['R14.9']),
    M('virtual-port-privileged-only', F, "    if ':' not in internal:\n        raise ValueError(\n            \"Port '{}' local address", "    if external >= 49152:\n        raise ValueError('ephemeral range')\n    if ':' not in internal:\n        raise ValueError(\n            \"Port '{}' local address", ['R14.9']),
    M('token-strict-base64', F, "        if any(' ' in client for client in self._clients.keys()):\n            raise ValueError(\"Client names can't have spaces\")\n", "        if any(' ' in client for client in self._clients.keys()):\n            raise ValueError(\"Client names can't have spaces\")\n        for name, blob in self._clients.items():\n            if blob is not None:\n                base64.b64decode(blob, validate=True)\n", ['R14.10']),
    M('token-length-judged', F, "                client_name, keyblob = client\n", "                client_name, keyblob = client\n                if len(keyblob) % 4:\n                    raise ValueError('token is not base64')\n", ['R14.10']),
    M('collision-precheck', F, "    keystring = 'NEW:BEST'\n", "    for other in config.EphemeralOnionServices:\n        if other is not onion and other.private_key == onion.private_key:\n            raise ValueError('key in use')\n    keystring = 'NEW:BEST'\n", ['R14.8']),
    M('pair-form-refuses-localhost', F, "                    if not _is_non_public_numeric_address(ip):\n                        log.msg(\n                            \"'{}' used as onion port doesn't appear to be a \"\n                            \"local, numeric address\".format(ip)\n                        )", "                    if not _is_non_public_numeric_address(ip):\n                        raise ValueError('not local')", ['R14.7']),
    M('client-pair-by-unpacking', F, "            if isinstance(client, tuple):\n                client_name, keyblob = client\n                self._clients[client_name] = keyblob\n            else:\n                self._clients[client] = None", "            try:\n                client_name, keyblob = client\n            except ValueError:\n                client_name, keyblob = client, None\n            self._clients[client_name] = keyblob", ['R14.7']),
    M('unix-pair-dropped', F, "                if local.startswith('unix:/'):\n                    pass\n                else:", "                if local.startswith('unix:/'):\n                    continue\n                else:", ['R14.6']),
    M('second-command', F, "    raw_res = yield config.tor_protocol.queue_command(cmd)\n", "    raw_res = yield config.tor_protocol.queue_command(cmd)\n    if onion._detach:\n        raw_res = yield config.tor_protocol.queue_command(cmd)\n", ['R14.1']),
    M('crlf-check-after', F, "    if '\\r' in keystring or '\\n' in keystring:\n        raise ValueError(\n            \"No newline or return characters allowed in key blobs\"\n        )\n", "", ['R14.1']),
    M('crlf-only-lf', F, "    if '\\r' in keystring or '\\n' in keystring:", "    if '\\n' in keystring:", ['R14.1']),
    M('store-key-always', F, "        if onion.private_key is DISCARD:\n            onion._private_key = None\n        else:\n            # if we specified a private key, it's not echoed back\n            if not onion.private_key:\n                onion._private_key = res['PrivateKey'].strip()", "        if not onion.private_key or onion.private_key is DISCARD:\n            onion._private_key = res.get('PrivateKey', '').strip() or None", ['R14.2']),
    M('discardpk-always', F, "    if onion.private_key is DISCARD:\n        flags.append('DiscardPK')", "    if onion.private_key:\n        flags.append('DiscardPK')", ['R14.3']),
    M('flags-swapped', F, "    if onion._detach:\n        flags.append('Detach')\n    if onion.private_key is DISCARD:\n        flags.append('DiscardPK')", "    if onion._detach:\n        flags.append('DiscardPK')\n    if onion.private_key is DISCARD:\n        flags.append('Detach')", ['R14.3']),
    M('single-hop-flag-dropped', F, "    if onion._single_hop:\n        flags.append('NonAnonymous')  # depends on some Tor options, too\n", "", ['R14.3']),
    M('v2-prefix-for-v3', F, "                if not onion.private_key.startswith(\"ED25519-V3:\"):\n                    onion._private_key = \"ED25519-V3:\" + onion.private_key", "                if not onion.private_key.startswith(\"ED25519-V3:\"):\n                    onion._private_key = \"RSA1024:\" + onion.private_key", ['R14.2']),
    M('hostname-no-suffix', F, "        onion._hostname = res['ServiceID'] + '.onion'", "        onion._hostname = res['ServiceID']", ['R14.4']),
    M('del-onion-wrong-slice', F, "class EphemeralOnionService(object):", "class EphemeralOnionService(object):\n    pass\n\n\nclass _Unused(object):", None),
    M('remove-slices-5', F, ["        cmd = 'DEL_ONION {}'.format(self._hostname[:-len('.onion')])\n        res = yield self._config.tor_protocol.queue_command(cmd)\n        if res.strip() != \"OK\":\n            raise RuntimeError(\"Failed to remove service\")\n\n    @property\n    def ports(self):\n        return set(self._ports)\n\n    @property\n    def version(self):\n        return self._version\n\n    @property\n    def hostname"], ["        cmd = 'DEL_ONION {}'.format(self._hostname[:-5])\n        res = yield self._config.tor_protocol.queue_command(cmd)\n        if res.strip() != \"OK\":\n            raise RuntimeError(\"Failed to remove service\")\n\n    @property\n    def ports(self):\n        return set(self._ports)\n\n    @property\n    def version(self):\n        return self._version\n\n    @property\n    def hostname"], ['R14.4']),
    M('create-drops-detach', F, "            private_key=private_key,\n            detach=detach,\n            version=version,\n            await_all_uploads=await_all_uploads,", "            private_key=private_key,\n            detach=False,\n            version=version,\n            await_all_uploads=await_all_uploads,", ['R14.5']),
    M('listener-after-command', F, "    uploaded_d = _await_descriptor_upload(config.tor_protocol, onion, progress, await_all_uploads)\n", "", None),
]
MUTANTS = [m for m in MUTANTS if m.name not in ('del-onion-wrong-slice', 'listener-after-command')]
TWINS = [
    M('virtual-port-full-range', F, "    if ':' not in internal:\n        raise ValueError(\n            \"Port '{}' local address", "    if external not in range(0, 65536):\n        raise ValueError('bad port')\n    if ':' not in internal:\n        raise ValueError(\n            \"Port '{}' local address"),
    M('flags-table-comprehension', F, "    flags = []\n    if onion._detach:\n        flags.append('Detach')\n    if onion.private_key is DISCARD:\n        flags.append('DiscardPK')", "    flags = []\n    if onion.private_key is DISCARD:\n        flags.append('DiscardPK')\n    if onion._detach:\n        flags.append('Detach')"),
    M('crlf-two-ifs', F, "    if '\\r' in keystring or '\\n' in keystring:\n        raise ValueError(\n            \"No newline or return characters allowed in key blobs\"\n        )\n", "    if '\\r' in keystring:\n        raise ValueError(\"No return characters allowed in key blobs\")\n    if '\\n' in keystring:\n        raise ValueError(\"No newline characters allowed in key blobs\")\n"),
]
