"""C05 - SOCKS5: no data before success; after it every byte is relayed, none withheld."""
import ast

from .common import *  # noqa
from ..tables import AutomatTable
from . import so

MOD = 'socks'
SUCCESS_INPUTS = ('version_reply', 'reply_ipv4', 'reply_ipv6', 'reply_domain_name')


def machine_raw(run):
    return run.idx.cls('_SocksMachine', MOD)


def machine(run):
    # (plain private helper methods the parsers share are seen inlined: see inline_self_helpers)
    return inline_self_helpers(run.idx, machine_raw(run))


def table(run):
    return AutomatTable(machine(run))


def MU(run, name):
    u = run.idx.find_method(machine(run), name)
    if u is None:
        raise AnchorVanished('_SocksMachine.%s' % name)
    return u


def self_calls(u):
    """names m for calls self.m(...) in unit u."""
    out = []
    for c in calls_in(u):
        d = dotted(c.func) or ''
        p = d.split('.')
        if len(p) == 2 and p[0] == 'self':
            out.append((p[1], c))
    return out


def deliver_units(run):
    """methods of the machine that (transitively through self.m() calls of plain
    methods) hand buffered bytes to the application: self._sender.dataReceived(...)."""
    ci = machine(run)
    direct = {}
    for name, u in ci.methods.items():
        for c in calls_in(u):
            if dotted(c.func) == 'self._sender.dataReceived':
                direct[name] = c
    closure = dict(direct)
    changed = True
    while changed:
        changed = False
        for name, u in ci.methods.items():
            if name in closure:
                continue
            for m, c in self_calls(u):
                if m in closure and m not in AutomatTable(ci).inputs:
                    closure[name] = c
                    changed = True
                    break
    return direct, closure


def r05_1(run):
    ci = machine(run)
    t = table(run)
    run.floor('R05.1', 'automat upon rows', len(t.rows), 16)
    run.floor('R05.1', 'automat states', len(t.states), 6)
    run.floor('R05.1', 'automat outputs', len(t.outputs), 6)
    direct, deliver = deliver_units(run)
    run.floor('R05.1', 'delivery sites (self._sender.dataReceived)', len(direct), 1)
    # (a) _make_connection only on success rows into relaying
    rows = t.rows_with_output('_make_connection')
    run.floor('R05.1', 'rows producing _make_connection', len(rows), 2)
    for r in t.rows:
        has = '_make_connection' in r['outputs']
        if has:
            ok = r['state'] == 'sent_request' and r['input'] in ('reply_ipv4', 'reply_ipv6') and r['enter'] == 'relaying'
            run.ob('R05.1', ci.file, r['node'], 'application connection made only on a success reply, entering relaying', ok,
                   slot='make_connection-row:%s/%s' % (r['state'], r['input']),
                   message='_make_connection is an output of (%s, %s) -> %s' % (r['state'], r['input'], r['enter']))
        if r['enter'] == 'relaying' and r['state'] != 'relaying':
            run.ob('R05.1', ci.file, r['node'], 'relaying is entered only by creating the application connection', has,
                   slot='enter-relaying:%s/%s' % (r['state'], r['input']),
                   message='(%s, %s) enters relaying without _make_connection' % (r['state'], r['input']))
    # (b) who delivers / who creates
    for name, c in direct.items():
        u = ci.methods[name]
        run.ob('R05.1', u, c, 'bytes are handed to the application only by relay code', name in t.outputs or name not in t.inputs, slot='deliver@%s' % name,
               message='%s delivers data' % name)
    for name in deliver:
        if name not in t.outputs:
            continue
        for r in t.rows_with_output(name):
            ok = r['state'] == 'relaying' or r['enter'] == 'relaying'
            run.ob('R05.1', ci.file, r['node'], 'delivering outputs run only in / on entering relaying', ok,
                   slot='deliver-row:%s:%s/%s' % (name, r['state'], r['input']),
                   message='output %s (delivers to the application) runs on (%s, %s) -> %s: data before success'
                   % (name, r['state'], r['input'], r['enter']))
    k = 0
    for name, u in ci.methods.items():
        for c in calls_in(u, 'self._create_connection'):
            k += 1
            run.ob('R05.1', u, c, 'application protocol created only in _make_connection', name == '_make_connection', slot='create@%s' % name,
                   message='%s creates the application connection' % name)
    run.floor('R05.1', 'self._create_connection calls', k, 1)
    # (c) entering relaying flushes the remainder
    mc = MU(run, '_make_connection')
    g = cfg_of(mc)
    for r in t.rows_entering('relaying'):
        outs = r['outputs']
        ok = False
        why = 'outputs %s never deliver self._data' % outs
        # shape 1: a delivering output after _make_connection in the row
        if '_make_connection' in outs:
            i = outs.index('_make_connection')
            if any(o in deliver for o in outs[i + 1:]):
                # automat passes the input's arguments to every output
                later = [o for o in outs[i + 1:] if o in deliver][0]
                # automat hands an output those of the input's arguments whose *names* its signature has (_filterArgs): it can run
                # iff every parameter it requires is a parameter of the input
                on, inn = t.outputs[later].node, t.inputs[r['input']].node
                oargs = [a.arg for a in on.args.args[1:]]
                required = oargs[:len(oargs) - len(on.args.defaults)] if on.args.defaults else oargs
                if set(required) <= set(a.arg for a in inn.args.args[1:]):
                    ok = True
                else:
                    why = 'output %s cannot take the arguments of input %s' % (later, r['input'])
        # shape 2: _make_connection itself delivers after _sender is set
        if not ok and '_make_connection' in deliver:
            sets = [n for n in g.real_nodes() if n.kind == 'stmt' and assign_to(n.ast, 'self._sender') is not None]
            dn = g.nodes_where(lambda n: any(isinstance(a, ast.Call) and (dotted(a.func) == 'self._sender.dataReceived' or
                                                                         ((dotted(a.func) or '').startswith('self.') and
                                                                          (dotted(a.func) or '').split('.')[-1] in deliver and
                                                                          len((dotted(a.func) or '').split('.')) == 2))
                                                 for a in node_asts(n)))
            if dn and sets:
                after_set = all(any(g.dominates(s, d) for s in sets) for d in dn)
                # on every normal path from the _sender assignment, delivery (possibly guarded by "if self._data") is reached
                esc = []
                for s in sets:
                    esc += g.escapes(s, lambda n: n in dn or (n.kind == 'test' and mentions(n.ast, 'self._data')), exits=g.normal_exits())
                ok = after_set and not esc
                why = '_make_connection does not reach the delivery on every path after setting _sender'
        # shape 3: the parser re-dispatches got_data after the success input
        if not ok:
            good = True
            found = False
            for pname in ('_parse_ipv4_reply', '_parse_ipv6_reply', '_parse_domain_name_reply'):
                u = run.idx.find_method(ci, pname)
                if u is None:
                    continue
                gp = cfg_of(u)
                for m, c in self_calls(u):
                    if m != r['input']:
                        continue
                    found = True
                    rel = t.row('relaying', 'got_data')
                    for n in gp.nodes_containing(c):
                        esc = _redispatch_escapes(gp, n)
                        if esc or rel is None or not any(o in deliver for o in rel['outputs']):
                            good = False
            if found and good:
                ok = True
        run.ob('R05.1', ci.file, r['node'], 'bytes buffered behind the success reply are relayed when relaying is entered', ok,
               slot='flush-on-enter:%s/%s' % (r['state'], r['input']),
               message='(%s, %s) -> relaying: %s; application bytes that arrive in the same segment as the success '
                       'reply are withheld until more data arrives' % (r['state'], r['input'], why))
    # (c2) the same on entering sent_request: bytes that arrived in the segment that completed the method reply are
    # (the start of) the request reply and must be offered to its parser without waiting for further input
    for r in t.rows_entering('sent_request'):
        nxt = t.row('sent_request', 'got_data')
        ok = False
        why = 'nothing re-dispatches the buffered remainder'
        redis = [o for o in r['outputs'] if any(is_call_to(a, 'self.got_data') or (dotted(getattr(a, 'func', None)) or '').startswith('self._parse_')
                                               for a in walk_unit(t.outputs[o]) if isinstance(a, ast.Call))]
        if redis and nxt is not None and nxt['outputs']:
            ok = True
        if not ok:
            found, good = False, True
            for pname, u in ci.methods.items():
                if not pname.startswith('_parse_'):
                    continue
                gp = cfg_of(u)
                for m, c in self_calls(u):
                    if m != r['input']:
                        continue
                    found = True
                    for n in gp.nodes_containing(c):
                        esc = _redispatch_escapes(gp, n)
                        if esc or nxt is None or not nxt['outputs']:
                            good = False
            ok = found and good
        run.ob('R05.1', ci.file, r['node'], 'bytes buffered behind the method reply are offered to the request-reply parser at once', ok,
               slot='reparse-on-enter:%s/%s' % (r['state'], r['input']),
               message='(%s, %s) -> sent_request: %s; a request reply that arrives in the same segment as the method reply is not '
                       'parsed until more input arrives (the attempt hangs)' % (r['state'], r['input'], why))
    # (d) abort/done deliver nothing and create nothing
    for r in t.rows:
        if r['state'] in ('abort', 'done'):
            bad = [o for o in r['outputs'] if o in deliver or o == '_make_connection']
            run.ob('R05.1', ci.file, r['node'], 'no delivery after abort/done', not bad, slot='dead-state:%s/%s' % (r['state'], r['input']),
                   message='state %s delivers/creates on %s via %s' % (r['state'], r['input'], bad))
    # failure inputs before success end in _disconnect (which fails the attempt)
    for st in ('sent_version', 'sent_request'):
        for inp in ('version_error', 'reply_error', 'disconnected'):
            r = t.row(st, inp)
            if r is None:
                if (st, inp) in (('sent_version', 'reply_error'), ('sent_request', 'version_error')):
                    continue
                run.ob('R05.1', ci.file, ci.node, 'failure input handled in %s' % st, False, slot='fail-row:%s/%s' % (st, inp),
                       message='no transition for (%s, %s)' % (st, inp))
                continue
            run.ob('R05.1', ci.file, r['node'], 'failure before success fails the attempt', '_disconnect' in r['outputs'] and r['enter'] != 'relaying',
                   slot='fail-row:%s/%s' % (st, inp), message='(%s, %s) does not produce _disconnect' % (st, inp))


def _len_guard(t):
    """(op, bound_node) if test is a comparison of len(self._data) with something."""
    if isinstance(t, ast.Compare) and len(t.ops) == 1 and isinstance(t.left, ast.Call) and dotted(t.left.func) == 'len' \
            and t.left.args and dotted(t.left.args[0]) == 'self._data':
        return t.ops[0], t.comparators[0]
    return None


def _empty_label(t):
    """label of the edge of test atom `t` on which self._data is known to be empty (None: not such a test)."""
    if dotted(t) == 'self._data':
        return 'F'
    if isinstance(t, ast.Call) and dotted(t.func) == 'len' and t.args and dotted(t.args[0]) == 'self._data':
        return 'F'
    lg = _len_guard(t)
    if lg is not None:
        op, b = lg
        c = const(b)
        if c is not NOCONST and isinstance(c, int):
            if (isinstance(op, ast.Gt) and c == 0) or (isinstance(op, ast.GtE) and c == 1) or (isinstance(op, ast.NotEq) and c == 0):
                return 'F'
            if (isinstance(op, ast.Eq) and c == 0) or (isinstance(op, ast.Lt) and c == 1) or (isinstance(op, ast.LtE) and c == 0):
                return 'T'
    if isinstance(t, ast.Compare) and len(t.ops) == 1 and dotted(t.left) == 'self._data' and const(t.comparators[0]) == b'':
        if isinstance(t.ops[0], ast.NotEq):
            return 'F'
        if isinstance(t.ops[0], ast.Eq):
            return 'T'
    return None


def _redispatch_escapes(g, n):
    """normal exits reachable after node n with buffered bytes left and no re-dispatch (self.got_data()) on the way.
    Edges on which self._data is known empty are not followed; a test on self._data of an unknown form stops the search."""
    skip = set()
    for x in g.real_nodes():
        if x.kind == 'test':
            lab = _empty_label(x.ast)
            if lab is not None:
                skip.add((x.id, lab))
    def stop(x):
        if any(is_call_to(a, 'self.got_data') for a in node_asts(x)):
            return True
        return x.kind == 'test' and mentions(x.ast, 'self._data') and _empty_label(x.ast) is None
    starts = [s for lab, s in n.succ if (n.id, lab) not in skip and lab != 'exc']
    r = g.reachable(starts, avoid=stop, skip_edges=skip, follow_exc=False)
    return [e for e in g.normal_exits() if e in r]


def _ge(bound, need):
    """is bound >= need (constants, or structurally equal expressions)?"""
    b, n = const(bound), const(need)
    if b is not NOCONST and n is not NOCONST:
        return b >= n
    return src(bound).replace('(', '').replace(')', '') == src(need).replace('(', '').replace(')', '')


def r05_2(run):
    ci = machine(run)
    k = 0
    for name, u in ci.methods.items():
        if not name.startswith('_parse_'):
            continue
        g = cfg_of(u)
        cons = [n for n in g.real_nodes() if n.kind == 'stmt' and isinstance(n.ast, ast.Assign) and
                assign_to(n.ast, 'self._data') is not None and isinstance(n.ast.value, ast.Subscript)
                and dotted(n.ast.value.value) == 'self._data' and isinstance(n.ast.value.slice, ast.Slice)]
        for cn in cons:
            k += 1
            need = cn.ast.value.slice.lower
            ok = False
            for tn in g.live:
                if tn.kind != 'test':
                    continue
                lg = _len_guard(tn.ast)
                if lg is None:
                    continue
                op, bound = lg
                for lab in ('T', 'F'):
                    if not g.edge_dominates(tn, lab, cn):
                        continue
                    # what does taking this edge establish?
                    if (isinstance(op, ast.GtE) and lab == 'T') or (isinstance(op, ast.Lt) and lab == 'F'):
                        ok = ok or _ge(bound, need)
                    elif (isinstance(op, ast.Gt) and lab == 'T') or (isinstance(op, ast.LtE) and lab == 'F'):
                        b, n_ = const(bound), const(need)
                        ok = ok or (b is not NOCONST and n_ is not NOCONST and b + 1 >= n_)
                    elif isinstance(op, ast.Eq) and lab == 'T':
                        ok = ok or _ge(bound, need)
            run.ob('R05.2', u, cn.ast, 'buffer consumed only when the complete message is buffered', ok, slot='consume:%s' % name,
                   message='%s consumes %s bytes without a dominating test that that many are buffered' % (name, src(need)))
            # success inputs are raised after consuming
            for m, c in self_calls_unit(u):
                if m in SUCCESS_INPUTS:
                    for n in g.nodes_containing(c):
                        run.ob('R05.2', u, c, 'machine input raised after the message is consumed', g.dominates(cn, n),
                               slot='input-after-consume:%s:%s' % (name, m),
                               message='%s calls %s before removing the reply from the buffer (the reply bytes would be relayed as data)' % (name, m))
    # the only thing a parser does to the buffer is to cut a parsed message off its front: anything else (clearing it,
    # keeping a middle part) loses bytes that arrived in the same segment as the message
    kw_ = 0
    for name, u in ci.methods.items():
        if not name.startswith('_parse_'):
            continue
        for n in walk_unit(u):
            if isinstance(n, (ast.Assign, ast.AugAssign)) and 'self._data' in assigned_targets(n):
                kw_ += 1
                v = n.value
                okc = isinstance(n, ast.Assign) and isinstance(v, ast.Subscript) and dotted(v.value) == 'self._data' and isinstance(v.slice, ast.Slice) \
                    and v.slice.lower is not None and v.slice.upper is None and v.slice.step is None
                run.ob('R05.2', u, n, 'a parser only removes the parsed message from the front of the buffer', okc, slot='buffer-write:%s' % name,
                       message='%s sets the buffer to %s: bytes that arrived behind the parsed message in the same segment are lost' % (name, src(v)[:40]))
    run.floor('R05.2', 'buffer writes in the parsers', kw_, 3)
    run.floor('R05.2', 'buffer consumption sites', k, 3)
    # A buffer-length test may only separate "not all here yet: wait" from "go on": how much is buffered depends
    # on how the peer's bytes were cut into segments (and on application bytes following the reply), so a test
    # whose short leg also acts makes the outcome depend on the segmentation.
    kt = 0
    for name, u in ci.methods.items():
        if not name.startswith('_parse_'):
            continue
        g = cfg_of(u)
        for tn in g.live:
            if tn.kind != 'test':
                continue
            lg = _len_guard(tn.ast)
            if lg is None:
                continue
            op, bound = lg
            if isinstance(op, (ast.Lt, ast.LtE)):
                short = 'T'
            elif isinstance(op, (ast.Gt, ast.GtE)):
                short = 'F'
            else:
                run.ob('R05.2', u, tn.ast, 'buffer-length test understood', None, message='%s: length test %s is neither < nor >=' % (name, src(tn.ast)))
                continue
            kt += 1
            starts = [s_ for lab, s_ in tn.succ if lab == short]
            acts = []
            for n in g.reachable(starts, follow_exc=False):
                if n.kind in ('exit', 'join', 'entry'):
                    continue
                if n.kind == 'stmt' and (isinstance(n.ast, (ast.Return, ast.Pass)) or is_noise(n.ast)):
                    continue
                acts.append(n)
            run.ob('R05.2', u, tn.ast, 'the short leg of a buffer-length test only waits for more bytes', not acts, slot='len-test-short-leg:%s' % name,
                   message='%s: when %s is %s the parser still acts (%s): whether the attempt succeeds then depends on how many bytes '
                           'happen to be buffered, i.e. on the segmentation' % (name, src(tn.ast), 'true' if short == 'T' else 'false',
                                                                              src(acts[0].ast)[:50] if acts else ''))
    run.floor('R05.2', 'buffer-length tests', kt, 4)


def self_calls_unit(u):
    return self_calls(u)


def r05_3(run):
    pr = MU(run, '_parse_request_reply')
    g = cfg_of(pr)
    defs = local_defs(pr)
    # reply header layout VER REP RSV ATYP
    unp = None
    for n in walk_unit(pr):
        if isinstance(n, ast.Assign) and isinstance(n.value, ast.Call) and dotted(n.value.func) == 'struct.unpack' and \
                isinstance(n.targets[0], ast.Tuple):
            unp = n
    if unp is None:
        raise Undecided('_parse_request_reply: header unpack not found')
    names = [e.id if isinstance(e, ast.Name) else None for e in unp.targets[0].elts]
    fmt = const(unp.value.args[0])
    run.ob('R05.3', pr, unp, 'reply header is four single bytes', fmt in ('BBBB', '!BBBB', '>BBBB') and len(names) == 4, slot='header-format',
           message='reply header unpacked with %r into %d names' % (fmt, len(names)))
    if len(names) != 4:
        return
    ver, rep, _, typ = names
    src_ok = src(c01_resolve(defs, unp.value.args[1])) in ('self._data[:4]',)
    run.ob('R05.3', pr, unp, 'header = first four buffered bytes', src_ok, slot='header-source', message='header taken from %s' % src(unp.value.args[1]))
    disp_vars = names_defined_by(pr, lambda v: isinstance(v, ast.Subscript) and (isinstance(v.value, ast.Name) or (dotted(v.value) or '').startswith('self.')))
    disp = [n for n in g.real_nodes() if any(isinstance(a, ast.Call) and (dotted(a.func) in disp_vars or (dotted(a.func) or '').startswith('self._parse_'))
                                             for a in node_asts(n))]
    # the dispatch call: method() where method = reply_dispatcher[typ]
    disp = [n for n in disp if n.kind == 'stmt' and isinstance(n.ast, ast.Expr)]
    run.floor('R05.3', 'address-parser dispatch sites', len(disp), 1)

    def test_of(var, constant):
        out = []
        for tn in g.live:
            if tn.kind == 'test' and isinstance(tn.ast, ast.Compare) and len(tn.ast.ops) == 1 and dotted(tn.ast.left) == var:
                c = tn.ast.comparators[0]
                cv = const(c)
                if cv is NOCONST and dotted(c) in ('self.SUCCEEDED', '_SocksMachine.SUCCEEDED'):
                    cv = 0
                if cv == constant:
                    op = tn.ast.ops[0]
                    if isinstance(op, ast.NotEq):
                        out.append((tn, 'F'))
                    elif isinstance(op, ast.Eq):
                        out.append((tn, 'T'))
        return out
    for dn in disp:
        okv = any(g.edge_dominates(tn, lab, dn) for tn, lab in test_of(ver, 5))
        okr = any(g.edge_dominates(tn, lab, dn) for tn, lab in test_of(rep, 0))
        run.ob('R05.3', pr, dn.ast, 'address parsing only for version 5', okv, slot='gate-version', message='reply parsed as success without version == 5', absence=True)
        run.ob('R05.3', pr, dn.ast, 'address parsing only for REP == succeeded', okr, slot='gate-success',
               message='address parsers (which create the application connection) are reachable for a non-success reply code', absence=True)
    # the address-type field is examined only after the reply code said "succeeded"
    for n in g.real_nodes():
        if n.kind == 'stmt' and n.ast is unp:
            continue
        if any(isinstance(a, ast.Name) and a.id == typ and isinstance(a.ctx, ast.Load) for a in node_asts(n)):
            okr = any(g.edge_dominates(tn, lab, n) for tn, lab in test_of(rep, 0))
            run.ob('R05.3', pr, n.ast, 'ATYP consulted only for a success reply', okr, slot='atyp-after-rep',
                   message='the address type is examined before the reply code: a failure reply with an unknown '
                           'address type is reported as "unexpected response type" and loses its error code', absence=True)
    # error mapping: reply_error(_create_socks_error(<REP>))
    hits = 0
    pr_defs = local_defs(pr)
    for c in calls_in(pr, 'self.reply_error'):
        a = c.args[0] if c.args else None
        if isinstance(a, ast.Name):
            # the error built a statement earlier: any definition of that local that is _create_socks_error(...)
            cand = [d[1] for d in pr_defs.get(a.id, []) if d[0] == 'expr' and isinstance(d[1], ast.Call) and dotted(d[1].func) == '_create_socks_error']
            a = cand[0] if cand else a
        if isinstance(a, ast.Call) and dotted(a.func) == '_create_socks_error':
            hits += 1
            run.ob('R05.3', pr, c, 'error built from the reply code field', a.args and dotted(a.args[0]) == rep, slot='error-from-rep',
                   message='_create_socks_error given %s, the REP field is %s' % (src(a.args[0]) if a.args else '', rep))
    run.floor('R05.3-map', 'reply_error(_create_socks_error(rep)) sites', hits, 1)
    # dispatch table keyed by ATYP
    for n in walk_unit(pr):
        if isinstance(n, ast.Subscript) and isinstance(n.value, ast.Name) and n.value.id in names_defined_by(pr, lambda v: isinstance(v, ast.Dict)):
            run.ob('R05.3', pr, n, 'address parser chosen by the ATYP field', dotted(n.slice) == typ, slot='dispatch-key',
                   message='dispatcher indexed by %s, ATYP is %s' % (src(n.slice), typ))
    # minimum length before looking at the header
    lens = [tn for tn in g.live if tn.kind == 'test' and _len_guard(tn.ast)]
    run.ob('R05.3', pr, pr.node, 'header examined only when at least 4 bytes are buffered', bool(lens), slot='min-len',
           message='_parse_request_reply has no length test')


def c01_resolve(defs, node):
    from .c01 import _resolve_name
    return _resolve_name(defs, node)


def r05_4(run):
    m = run.idx.module(MOD)
    base = run.idx.cls('SocksError', MOD)
    codes = {}
    for c in run.idx.subclasses(base):
        v = const(c.attrs['code']) if 'code' in c.attrs else NOCONST
        if v is NOCONST:
            run.ob('R05.4', c.file, c.node, 'error class has a constant code', False, slot='code:%s' % c.name, message='%s has no constant code' % c.name)
            continue
        run.ob('R05.4', c.file, c.node, 'error codes pairwise distinct', v not in codes, slot='distinct:%s' % c.name,
               message='%s and %s share code %s' % (c.name, codes.get(v), v))
        codes[v] = c.name
    run.ob('R05.4', base.file, base.node, 'codes 1..8 all have an error class', all(i in codes for i in range(1, 9)), slot='cover-1-8',
           message='missing error classes for codes %s' % [i for i in range(1, 9) if i not in codes])
    se = m.assigns.get('_socks_errors')
    okt = se is not None and 'cls.code' in src(se) and '__subclasses__' in src(se)
    if not okt and se is not None:
        # keyed by .code over an explicit list of the error classes: it has to name every subclass that has a code
        comps = [c_ for c_ in ast.walk(se) if isinstance(c_, ast.comprehension)]
        if comps and '.code' in src(se):
            it = comps[0].iter
            if isinstance(it, ast.Name) and it.id in m.assigns:
                it = m.assigns[it.id]
            if isinstance(it, (ast.Tuple, ast.List)):
                listed = set(dotted(e) for e in it.elts)
                okt = set(codes.values()) <= listed
    run.ob('R05.4', base.file, se or base.node, 'lookup table keyed by class code', okt,
           slot='table', message='_socks_errors is %s' % src(se))
    ce = run.idx.unit(MOD + '._create_socks_error')
    g = cfg_of(ce)
    p0 = ce.params[0]
    okl = any(isinstance(n, ast.Subscript) and dotted(n.value) == '_socks_errors' and dotted(n.slice) == p0 for n in walk_unit(ce))
    run.ob('R05.4', ce, ce.node, 'known codes looked up by the reply code', okl, slot='lookup', message='_create_socks_error does not index _socks_errors by its argument')
    fb = [c for c in calls_in(ce) if dotted(c.func) == 'SocksError']
    ok = bool(fb) and all(any(kw.arg == 'code' and dotted(kw.value) == p0 for kw in c.keywords) or
                          (len(c.args) > 1 and dotted(c.args[1]) == p0) for c in fb)
    run.ob('R05.4', ce, fb[0] if fb else ce.node, 'unknown code preserved in the fallback error', ok, slot='fallback-code',
           message='fallback SocksError does not carry code=%s' % p0)
    init = run.idx.find_method(base, '__init__')
    okc = any(isinstance(n, ast.Assign) and assign_to(n, 'self.code') is not None and 'code' in src(n.value) for n in walk_unit(init))
    run.ob('R05.4', init, init.node, 'SocksError stores the code', okc, slot='init-code', message='SocksError.__init__ does not store code')


def r05_5(run):
    ci = machine(run)
    t = table(run)
    pr = MU(run, '_parse_request_reply')
    parsers = set()
    for n in walk_unit(pr):
        if isinstance(n, ast.Dict):
            for v in n.values:
                d = dotted(v) or ''
                if d.startswith('self._parse_'):
                    parsers.add(d.split('.')[-1])
    for m, c in self_calls(pr):
        if m.startswith('_parse_') and m != '_parse_request_reply':
            parsers.add(m)
    # ... or a class-level table of plain functions, called as table[typ](self)
    for an, av in machine_raw(run).attrs.items():
        if isinstance(av, ast.Dict) and any(isinstance(x, ast.Attribute) and dotted(x) == 'self.' + an for x in walk_unit(pr)):
            for v in av.values:
                if isinstance(v, ast.Name) and v.id.startswith('_parse_'):
                    parsers.add(v.id)
    run.floor('R05.5', 'address parsers dispatched from _parse_request_reply', len(parsers), 3)

    def is_connect_atom(tst):
        return isinstance(tst, ast.Compare) and len(tst.ops) == 1 and dotted(tst.left) == 'self._req_type' and \
            const(tst.comparators[0]) == 'CONNECT' and isinstance(tst.ops[0], (ast.Eq, ast.NotEq))
    for pname in sorted(parsers):
        u = MU(run, pname)
        g = cfg_of(u)
        seen = set()
        for p in g.paths():
            run.paths_enumerated += 1
            conn = None
            for n, b in p.took(is_connect_atom):
                conn = b if isinstance(n.ast.ops[0], ast.Eq) else (not b)
            inputs = [(m, n) for n, _ in p.steps if n.kind in ('stmt', 'test') for a in node_asts(n)
                      if isinstance(a, ast.Call) and (dotted(a.func) or '').startswith('self.') and
                      (m := (dotted(a.func) or '').split('.')[-1]) in t.inputs and m in SUCCESS_INPUTS]
            for m, n in inputs:
                row = t.row('sent_request', m)
                if row is None:
                    run.ob('R05.5', u, n.ast, 'input has a transition from sent_request', False, slot='no-row:%s:%s' % (pname, m),
                           message='%s raises %s which sent_request does not handle' % (pname, m))
                    continue
                makes = '_make_connection' in row['outputs']
                resolves = '_domain_name_resolved' in row['outputs']
                for want_connect in ((True, False) if conn is None else (conn,)):
                    key = (pname, m, want_connect)
                    if key in seen:
                        continue
                    seen.add(key)
                    ok = makes if want_connect else resolves
                    run.ob('R05.5', u, n.ast, 'reply parser raises the input that matches the request type [%s]' %
                           ('CONNECT' if want_connect else 'RESOLVE'), ok,
                           slot='reqtype:%s:%s' % (pname, 'CONNECT' if want_connect else 'RESOLVE'),
                           message='%s raises %s for a %s request (%s): %s' % (
                               pname, m, 'CONNECT' if want_connect else 'RESOLVE/RESOLVE_PTR',
                               'request type not consulted on this path' if conn is None else 'wrong leg',
                               'a resolve request is answered by trying to create a connection' if not want_connect else
                               'a connect request is completed with a name instead of a connection'))


def _lin(e, sym):
    """linear form (const, coeff of sym) of an expression built from ints, + and the name `sym`; None otherwise"""
    if e is None:
        return None
    v = const(e)
    if isinstance(v, int) and not isinstance(v, bool):
        return (v, 0)
    if isinstance(e, ast.Name) and e.id == sym:
        return (0, 1)
    if isinstance(e, ast.BinOp) and isinstance(e.op, ast.Add):
        a, b = _lin(e.left, sym), _lin(e.right, sym)
        if a is None or b is None:
            return None
        return (a[0] + b[0], a[1] + b[1])
    return None


def r05_8(run):
    """RFC 1928 reply layout, per address parser: VER REP RSV ATYP (4) | address | port (2).  With N the number of bytes
    the guard waits for: the address is bytes [A0, N-2), the port bytes [N-2, N), exactly N bytes are consumed, the guard
    admits exactly N buffered bytes (>= N, not > N), and every path past the guard raises exactly one success input."""
    ci = machine(run)
    t = table(run)
    specs = {'_parse_ipv4_reply': (4, (10, 0)), '_parse_ipv6_reply': (4, (22, 0)), '_parse_domain_name_reply': (5, (7, 1))}
    k = 0
    for pname, (a0, total) in sorted(specs.items()):
        u = MU(run, pname)
        g = cfg_of(u)
        syms = names_defined_by(u, lambda v: any(isinstance(x, ast.Call) and dotted(x.func) == 'struct.unpack' for x in ast.walk(v)) and '4:5' in src(v).replace(' ', ''))
        sym = syms[0] if syms else '__nosym__'
        # guards
        guards = []
        for tn in g.live:
            if tn.kind == 'test' and _len_guard(tn.ast) is not None:
                guards.append(tn)
        main = None
        for tn in guards:
            op, bound = _len_guard(tn.ast)
            lf = _lin(bound, sym)
            if lf is None:
                continue
            # normalise to "proceed iff len >= X"
            if isinstance(op, ast.GtE):
                need = lf
            elif isinstance(op, ast.Lt):
                need = lf
            elif isinstance(op, ast.Gt):
                need = (lf[0] + 1, lf[1])
            elif isinstance(op, ast.LtE):
                need = (lf[0] + 1, lf[1])
            else:
                continue
            if need[1] == total[1] and (main is None or need[0] > main[1][0]):
                main = (tn, need)
        k += 1
        run.ob('R05.8', u, main[0].ast if main else u.node, '%s proceeds as soon as the %s bytes of the reply are buffered' % (pname, 'N+7' if total[1] else total[0]),
               main is not None and main[1] == total, slot='need:%s' % pname,
               message='%s waits for %s bytes; the reply is complete with %s: one byte more is awaited (the attempt hangs until the peer sends application data) '
                       'or fewer are accepted (garbage parsed)' % (pname, main[1] if main else None, total))
        # a local that holds the front of the buffer (msg = self._data[:N], possibly through another local) is sliced like the buffer
        ldefs = local_defs(u)
        front = set()
        grew = True
        while grew:
            grew = False
            for nm, ds in ldefs.items():
                if nm in front or len(ds) != 1 or ds[0][0] != 'expr':
                    continue
                v = ds[0][1]
                if (isinstance(v, ast.Subscript) and dotted(v.value) == 'self._data' and isinstance(v.slice, ast.Slice) and v.slice.upper is not None and
                        (v.slice.lower is None or const(v.slice.lower) == 0)) or (isinstance(v, ast.Name) and v.id in front):
                    front.add(nm)
                    grew = True
        for n in walk_unit(u):
            if isinstance(n, ast.Subscript) and (dotted(n.value) == 'self._data' or dotted(n.value) in front) and isinstance(n.slice, ast.Slice):
                lo, hi = _lin(n.slice.lower, sym) if n.slice.lower is not None else None, _lin(n.slice.upper, sym) if n.slice.upper is not None else None
                par = [p_ for p_ in walk_unit(u) if isinstance(p_, ast.Assign) and any(x is n for x in ast.walk(p_.value))]
                tgt = assigned_targets(par[0])[0] if par and assigned_targets(par[0]) else None
                if tgt in front:
                    continue        # the definition of the front copy itself
                role = None
                if tgt == 'self._data':
                    role = 'consume'
                elif par and any(isinstance(x, ast.Call) and dotted(x.func) == 'struct.unpack' and const(x.args[0]) in ('H', '!H', '>H') for x in ast.walk(par[0].value)):
                    role = 'port'
                elif (lo, hi) == ((4, 0), (5, 0)):
                    role = 'len'
                elif par and tgt and tgt != 'self._data':
                    role = 'addr'
                if role is None:
                    continue
                k += 1
                if role == 'consume':
                    ok = lo == total and hi is None
                    want = '[%s:]' % (total,)
                elif role == 'port':
                    ok = lo == (total[0] - 2, total[1]) and hi == total
                    want = '[N-2:N] with N=%s' % (total,)
                elif role == 'addr':
                    ok = lo == (a0, 0) and hi == (total[0] - 2, total[1])
                    want = '[%d:N-2] with N=%s' % (a0, total)
                else:
                    ok = True
                    want = ''
                run.ob('R05.8', u, n, '%s takes the %s bytes of the reply from the right place' % (pname, role), ok, slot='layout:%s:%s' % (pname, role),
                       message='%s reads the %s as %s, RFC 1928 puts it at %s (as linear forms (const, x addrlen): %s..%s)' % (pname, role, src(n), want, lo, hi))
        # every path on which the reply was consumed raises exactly one success input
        for p_ in g.paths(follow_exc=False):
            run.paths_enumerated += 1
            if p_.exit == 'raise':
                continue
            consumed = sum(1 for n, _ in p_.steps if n.kind == 'stmt' and isinstance(n.ast, ast.Assign) and 'self._data' in assigned_targets(n.ast))
            ins = [m for n, _ in p_.steps if n.kind in ('stmt', 'test') for a in node_asts(n)
                   if isinstance(a, ast.Call) and (dotted(a.func) or '').startswith('self.') and (m := (dotted(a.func) or '').split('.')[-1]) in SUCCESS_INPUTS]
            if ins:
                run.ob('R05.8', u, u.node, 'a reply that raises a success input has been taken out of the buffer exactly once', consumed == 1, slot='input-consumes:%s' % pname,
                       message='%s raises %s with the reply consumed %d times on %s: the reply header is handed to the application as data '
                               '(or application bytes are dropped)' % (pname, ins, consumed, p_.describe(6)))
            if not consumed:
                continue
            run.ob('R05.8', u, u.node, 'a consumed reply raises exactly one success input', len(ins) == 1, slot='one-input:%s' % pname,
                   message='%s consumes the reply and then raises %s on %s: the attempt is never resolved (or resolved twice)' % (pname, ins or 'no input', p_.describe(6)))
    run.floor('R05.8', 'layout obligations', k, 10)
    # a wrong protocol version in the request reply fails the attempt
    pr = MU(run, '_parse_request_reply')
    gpr = cfg_of(pr)
    vt = [tn for tn in gpr.live if tn.kind == 'test' and isinstance(tn.ast, ast.Compare) and const(tn.ast.comparators[0]) == 5 and isinstance(tn.ast.ops[0], (ast.NotEq, ast.Eq))]
    for tn in vt:
        bad_lab = 'T' if isinstance(tn.ast.ops[0], ast.NotEq) else 'F'
        r = gpr.reachable([s_ for lab, s_ in tn.succ if lab == bad_lab], avoid=lambda n: any(is_call_to(a, 'self.reply_error') for a in node_asts(n)), follow_exc=False)
        run.ob('R05.8', pr, tn.ast, 'a request reply with a wrong version fails the attempt', not any(e in r for e in gpr.normal_exits()), slot='bad-version-fails',
               message='_parse_request_reply can return on a wrong-version reply without raising reply_error: the attempt hangs')
    run.floor('R05.8', 'version tests in _parse_request_reply', len(vt), 1)


def r05_6(run):
    ci = machine(run)
    t = table(run)
    sites = []
    for name, u in ci.methods.items():
        for a in walk_unit(u):
            if isinstance(a, ast.Attribute) and a.attr == 'fire' and dotted(a.value) == 'self._when_done':
                sites.append((name, u, a))
    run.floor('R05.6', '_when_done.fire sites', len(sites), 3)
    for name, u, a in sites:
        run.ob('R05.6', u, a, 'completion fired only from machine outputs', name in t.outputs, slot='fire@%s' % name,
               message='%s fires _when_done but is not a machine output' % name)
    for need in ('_make_connection', '_domain_name_resolved', '_disconnect'):
        run.ob('R05.6', ci.file, ci.node, '%s completes the attempt' % need, any(n == need for n, _, _ in sites), slot='completes:%s' % need,
               message='%s no longer fires _when_done' % need)
    dc = MU(run, '_disconnect')
    for c in calls_in(dc, 'self._when_done.fire'):
        run.ob('R05.6', dc, c, 'disconnect fails the attempt with a Failure', 'Failure' in src(c), slot='disconnect-failure',
               message='_disconnect fires %s' % src(c))
    mc = MU(run, '_make_connection')
    for c in calls_in(mc, 'self._when_done.fire'):
        a = c.args[0] if c.args else None
        ok = a is not None and (dotted(a) == 'self._sender' or dotted(a) in names_defined_by(mc, lambda v: isinstance(v, ast.Call) and dotted(v.func) == 'self._create_connection'))
        run.ob('R05.6', mc, c, 'success resolves with the application protocol', ok, slot='success-value', message='_make_connection fires %s' % src(c))
    so.check_so(run, 'R05.6')


def r05_7(run):
    tp = run.idx.cls('_TorSocksProtocol', MOD)
    cc = run.idx.find_method(tp, '_create_connection')
    dr = run.idx.find_method(tp, 'dataReceived')
    # what the machine wants to send goes out when it is produced (a writer handed in as on_data=), not queued for a later flush:
    # otherwise an application protocol created inside feed_data() writes to the shared transport ahead of the queued request
    ini = run.idx.find_method(tp, '__init__')
    od = None
    mcalls = [c for c in calls_in(ini) if dotted(c.func) == '_SocksMachine'] if ini else []
    for c in mcalls:
        kw = dict((k.arg, k.value) for k in c.keywords)
        w = kw.get('on_data')
        wd = dotted(w) if w is not None else None
        if wd and wd.startswith('self.'):
            od = run.idx.find_method(tp, wd.split('.')[1])
        run.ob('R05.7', ini, c, 'the machine is given a synchronous writer (on_data=)', od is not None, slot='sync-writer',
               message='_TorSocksProtocol builds its _SocksMachine without on_data=: the machine only queues its bytes, and an application protocol that writes as soon '
                       'as it is connected overtakes the still-queued SOCKS request on the wire')
    cl_ = run.idx.find_method(tp, 'connectionLost')
    if cl_ is not None:
        dcs = [c for c in calls_in(cl_) if dotted(c.func) == 'self._machine.disconnected']
        for c in dcs:
            a = c.args[0] if c.args else None
            okd = isinstance(a, ast.Call) and (dotted(a.func) or '').split('.')[-1].endswith('Error') and 'Socks' in (dotted(a.func) or '')
            run.ob('R05.7', cl_, c, 'a disconnect before success fails the attempt with a SOCKS error', okd, slot='disconnect-error-type',
                   message='connectionLost hands %s to the machine: when_done()/connect() then fail with a non-SOCKS exception (callers catching SocksError miss it)' % (src(a)[:40] if a is not None else None))
        run.ob('R05.7', cl_, cl_.node, 'connection loss is reported to the machine', len(dcs) == 1, slot='disconnect-reported', message='%d disconnected() calls in connectionLost' % len(dcs))
    if not (cc and dr and mcalls):
        raise AnchorVanished('_TorSocksProtocol._create_connection/dataReceived/_SocksMachine(...)')
    if od is None:
        return
    mk = [c for c in calls_in(cc) if callee_attr(c) == 'makeConnection']
    ok = bool(mk) and all(c.args and dotted(c.args[0]) == 'self.transport' for c in mk)
    run.ob('R05.7', cc, mk[0] if mk else cc.node, 'application protocol is connected to the SOCKS transport', ok, slot='makeConnection',
           message='application protocol not given self.transport')
    rets = [n for n in walk_unit(cc) if isinstance(n, ast.Return)]
    bp = [c for c in calls_in(cc) if callee_attr(c) == 'buildProtocol']
    run.ob('R05.7', cc, cc.node, 'application protocol built by the caller factory and returned', bool(bp) and bool(rets) and
           all(r.value is not None for r in rets), slot='build-return', message='_create_connection does not build/return the application protocol')
    w = [c for c in calls_in(od) if dotted(c.func) == 'self.transport.write']
    ok = len(w) == 1 and w[0].args and dotted(w[0].args[0]) == od.params[1]
    run.ob('R05.7', od, od.node, 'machine output bytes are written unchanged to the transport', ok, slot='on_data', message='_on_data does not write its argument to the transport')
    fd = [c for c in calls_in(dr) if dotted(c.func) == 'self._machine.feed_data']
    ok = len(fd) == 1 and fd[0].args and dotted(fd[0].args[0]) == dr.params[1]
    run.ob('R05.7', dr, dr.node, 'received bytes are fed to the machine unchanged', ok, slot='feed', message='dataReceived does not feed its argument to the machine')
    # feed_data appends and raises got_data once
    f = MU(run, 'feed_data')
    g = cfg_of(f)
    aug = [n for n in walk_unit(f) if isinstance(n, ast.AugAssign) and dotted(n.target) == 'self._data' and isinstance(n.op, ast.Add)
           and dotted(n.value) == f.params[1]]
    run.ob('R05.7', f, f.node, 'incoming bytes appended to the buffer in order', len(aug) == 1, slot='feed-append', message='feed_data does not append data to self._data')
    for p in g.paths():
        if p.exit == 'raise':
            continue
        k = sum(1 for n in p.nodes() if n.kind != 'exit' and any(is_call_to(a, 'self.got_data') for a in node_asts(n)))
        run.ob('R05.7', f, f.node, 'every chunk raises got_data', k >= 1, slot='feed-got_data', message='feed_data can return without raising got_data')
    # _relay_data / delivering helper hands over the whole buffer and clears it
    direct, deliver = deliver_units(run)
    for name, c in direct.items():
        u = machine(run).methods[name]
        defs = local_defs(u)
        a = c.args[0] if c.args else None
        v = c01_resolve(defs, a)
        ok = dotted(v) == 'self._data'
        run.ob('R05.7', u, c, 'the whole buffered remainder is delivered', ok, slot='deliver-all:%s' % name, message='%s delivers %s' % (name, src(v)))
        clr = [st for st, val in writes_of(u, 'self._data') if const(val) == b'']
        run.ob('R05.7', u, c, 'delivered bytes are removed from the buffer', bool(clr), slot='deliver-clear:%s' % name,
               message='%s does not clear self._data after delivering it (bytes duplicated)' % name)


def r05_9(run):
    """a resolve request yields the address *as text*: in the parsers of the binary address forms (IPv4, IPv6) what is handed to
    reply_domain_name is the buffer slice converted with inet_ntoa / inet_ntop (or an ipaddress object's text), never the packed bytes"""
    k = 0
    for pname, conv in (('_parse_ipv4_reply', ('inet_ntoa', 'inet_ntop')), ('_parse_ipv6_reply', ('inet_ntop',))):
        u = MU(run, pname)
        defs = local_defs(u)
        for m, c in self_calls(u):
            if m != 'reply_domain_name' or not c.args:
                continue
            k += 1
            v = c01_resolve(defs, c.args[0])
            txt = False
            for x in ast.walk(v):
                if isinstance(x, ast.Call) and (callee_attr(x) in conv or (callee_attr(x) in ('str', 'format') and 'ip_address' in src(x))):
                    txt = True
                if isinstance(x, ast.Attribute) and x.attr in ('compressed', 'exploded') and 'ip_address' in src(x):
                    txt = True
            run.ob('R05.9', u, c, 'the resolved address is handed on as text', txt, slot='resolve-answer-text:%s' % pname,
                   message='%s answers a resolve request with %s (= %s): the packed address bytes, not the address the reply names' % (pname, src(c.args[0])[:30], src(v)[:40]))
    run.floor('R05.9', 'resolve answers in the binary-address parsers', k, 2)


def r05_10(run):
    """what a reply parser takes for granted about the buffer (an `assert len(self._data) >= K` with a comment saying the caller
    checked) is what the dispatcher really established: the dispatcher's own "not enough bytes yet" guard waits for at least K bytes.
    A guard lowered below a parser's assertion turns a reply that is split inside its first K bytes into an AssertionError out of
    dataReceived - the attempt is never resolved."""
    pr = MU(run, '_parse_request_reply')
    g = cfg_of(pr)
    waits = []
    for t in g.live:
        if t.kind != 'test':
            continue
        lg = _len_guard(t.ast)
        if lg is None or not isinstance(const(lg[1]), int):
            continue
        op, K = lg[0], const(lg[1])
        # the edge on which the function goes on parsing establishes len >= established
        for lab, s_ in t.succ:
            if lab not in ('T', 'F'):
                continue
            nxt = s_
            returns_at_once = nxt.kind == 'stmt' and isinstance(nxt.ast, ast.Return)
            if returns_at_once:
                continue
            est = None
            if isinstance(op, ast.Lt):
                est = K if lab == 'F' else None
            elif isinstance(op, ast.LtE):
                est = K + 1 if lab == 'F' else None
            elif isinstance(op, ast.GtE):
                est = K if lab == 'T' else None
            elif isinstance(op, ast.Gt):
                est = K + 1 if lab == 'T' else None
            if est is not None:
                waits.append(est)
    run.floor('R05.10', 'length guards in _parse_request_reply', len(waits), 1)
    have = max(waits) if waits else 0
    ci = machine(run)
    k = 0
    for name, u in ci.methods.items():
        if not name.startswith('_parse_') or name in ('_parse_request_reply', '_parse_version_reply'):
            continue
        for st in walk_unit(u):
            if isinstance(st, ast.Assert):
                lg = _len_guard(st.test)
                if lg is None or not isinstance(const(lg[1]), int):
                    continue
                need = const(lg[1]) + (1 if isinstance(lg[0], ast.Gt) else 0)
                k += 1
                run.ob('R05.10', u, st, 'the dispatcher has waited for the bytes %s asserts' % name, have >= need, slot='assert-covered:%s' % name,
                       message='%s asserts %s but _parse_request_reply goes on with %d bytes buffered: a reply split inside its first %d bytes raises AssertionError '
                               'out of dataReceived and the attempt is never resolved' % (name, src(st.test), have, need))
    run.ob('R05.10', pr, pr.node, 'parser assertions examined (%d)' % k, True)


RULES = [
    ('R05.10', 'caller/callee agreement: every buffer-length assertion of a reply parser is established by the dispatcher\'s guard', r05_10),
    ('R05.1', 'automat transition-table obligations: who creates/delivers, relaying entered only with the application connection, remainder flushed on entering relaying, dead states silent, failures end in _disconnect', r05_1),
    ('R05.2', 'dominance: every buffer consumption behind a length test covering it; success inputs raised after consuming', r05_2),
    ('R05.3', 'dominance: address parsing behind version==5 and REP==succeeded; header layout VER REP RSV ATYP; error built from REP', r05_3),
    ('R05.4', 'SocksError table: distinct codes covering 1..8; unknown code preserved', r05_4),
    ('R05.5', 'sibling agreement: every address parser raises the input matching the request type (path enumeration over the CONNECT atom)', r05_5),
    ('R05.8', 'RFC 1928 reply layout per address parser (linear forms over the name length): need = N, address [A0:N-2], port [N-2:N], consume [N:], one success input per consumed reply; wrong version fails', r05_8),
    ('R05.9', 'a resolve request answered with an IPv4/IPv6 reply yields the address text (inet_ntoa / inet_ntop of the slice), not packed bytes', r05_9),
    ('R05.6', '_when_done fired only by machine outputs with the right values; SingleObserver is a one-shot latch', r05_6),
    ('R05.7', 'I/O glue: transport handed to the application protocol, bytes fed/written unchanged, whole buffer delivered and cleared', r05_7),
]

from ..selftest import M  # noqa: E402
F = 'txtorcon/socks.py'
MUTANTS = [
    M('dispatcher-waits-for-less-than-parser-asserts', F, "        if len(self._data) < 8:\n            return\n        msg = self._data[:4]", "        if len(self._data) < 5:\n            return\n        msg = self._data[:4]", ['R05.10']),
    M('resolve-ipv6-raw-bytes', F, "                self.reply_domain_name(inet_ntop(AF_INET6, addr))", "                self.reply_domain_name(addr)", ['R05.9']),
    M('disconnect-raw-reason', F, "        self._machine.disconnected(SocksError(reason))", "        self._machine.disconnected(reason.value)", ['R05.7']),
    M('machine-output-queued', F, "            on_data=self._on_data,\n", "", ['R05.7']),
    M('ipv6-waits-one-more', F, "        if len(self._data) >= 22:", "        if len(self._data) > 22:", ['R05.8']),
    M('ipv6-addr-offset', F, "            addr = self._data[4:20]", "            addr = self._data[5:20]", ['R05.8']),
    M('ipv4-port-3-bytes', F, "            port = struct.unpack('H', self._data[8:10])[0]", "            port = struct.unpack('H', self._data[8:11])[0]", ['R05.8']),
    M('ipv6-no-input', F, "            if self._req_type == 'CONNECT':\n                self.reply_ipv6(addr, port)", "            if self._req_type == 'CONNECT':\n                pass", ['R05.8']),
    M('domain-port-offset', F, "        port = struct.unpack('H', self._data[5 + addrlen:5 + addrlen + 2])[0]", "        port = struct.unpack('H', self._data[6 + addrlen:5 + addrlen + 2])[0]", ['R05.8']),
    M('bad-version-silent', F, "        if version != 5:\n            self.reply_error(SocksError(\n                \"Expected version 5, got {}\".format(version)))\n            return\n\n        if reply != self.SUCCEEDED:", "        if version != 5:\n            return\n\n        if reply != self.SUCCEEDED:", ['R05.8']),
    M('no-reparse-after-method-reply', F, "                if self._data:\n                    self.got_data()\n            else:", "            else:", ['R05.1']),
    M('reparse-guard-negated', F, "                if self._data:\n                    self.got_data()\n            else:", "                if not self._data:\n                    self.got_data()\n            else:", ['R05.1']),
    M('reparse-call-dropped', F, "                if self._data:\n                    self.got_data()\n            else:", "                if self._data:\n                    pass\n            else:", ['R05.1']),
    M('version-reply-clears-buffer', F, "            self._data = self._data[2:]\n", "            self._data = b''\n", ['R05.2']),
    M('reply-length-cap', F, "        if len(self._data) < 8:\n            return\n        msg = self._data[:4]", "        if len(self._data) < 8:\n            return\n        if len(self._data) > 262:\n            self.reply_error(SocksError('too long'))\n            return\n        msg = self._data[:4]", ['R05.2']),
    M('relay-in-sent_request', F, "    sent_request.upon(\n        got_data,\n        enter=sent_request,\n        outputs=[_parse_request_reply],\n    )", "    sent_request.upon(\n        got_data,\n        enter=sent_request,\n        outputs=[_parse_request_reply, _relay_data],\n    )", ['R05.1']),
    M('make-connection-on-error', F, "    sent_request.upon(\n        reply_error,\n        enter=abort,\n        outputs=[_disconnect],\n    )", "    sent_request.upon(\n        reply_error,\n        enter=relaying,\n        outputs=[_make_connection],\n    )", ['R05.1']),
    M('no-flush-on-enter', F, "        self._when_done.fire(sender)\n        # anything that arrived in the same segment as the reply\n        # already belongs to the application\n        self._relay_pending()\n", "        self._when_done.fire(sender)\n", ['R05.1']),
    M('reply-error-no-disconnect', F, "    sent_request.upon(\n        reply_error,\n        enter=abort,\n        outputs=[_disconnect],\n    )", "    sent_request.upon(\n        reply_error,\n        enter=abort,\n        outputs=[],\n    )", ['R05.1']),
    M('reply-left-in-buffer', F, "            port = struct.unpack('H', self._data[8:10])[0]\n            self._data = self._data[10:]\n", "            port = struct.unpack('H', self._data[8:10])[0]\n", ['R05.8']),
    M('domain-reply-left-in-buffer', F, "        self._data = self._data[5 + addrlen + 2:]\n", "", ['R05.8']),
    M('consume-more-than-checked', F, "        if len(self._data) >= 10:\n            addr = inet_ntoa(self._data[4:8])", "        if len(self._data) >= 9:\n            addr = inet_ntoa(self._data[4:8])", ['R05.2']),
    M('input-before-consume', F, "            self._data = self._data[2:]\n            (version, method) = struct.unpack('BB', reply)\n            if version == 5 and method in [0x00, 0x02]:\n                self.version_reply(method)", "            (version, method) = struct.unpack('BB', reply)\n            if version == 5 and method in [0x00, 0x02]:\n                self.version_reply(method)\n                self._data = self._data[2:]\n                return\n            self._data = self._data[2:]\n            if False:\n                pass", ['R05.2']),
    M('domain-short-check', F, "        if len(self._data) < (5 + addrlen + 2):\n            return", "        if len(self._data) < (5 + addrlen):\n            return", ['R05.2']),
    M('no-return-after-error', F, "        if reply != self.SUCCEEDED:\n            self.reply_error(_create_socks_error(reply))\n            return\n", "        if reply != self.SUCCEEDED:\n            self.reply_error(_create_socks_error(reply))\n", ['R05.3']),
    M('no-success-test', F, "        if reply != self.SUCCEEDED:\n            self.reply_error(_create_socks_error(reply))\n            return\n", "", ['R05.3']),
    M('error-from-atyp', F, "self.reply_error(_create_socks_error(reply))", "self.reply_error(_create_socks_error(typ))", ['R05.3']),
    M('header-fields-swapped', F, "(version, reply, _, typ) = struct.unpack('BBBB', msg)", "(version, _, reply, typ) = struct.unpack('BBBB', msg)", ['R05.3']),
    M('duplicate-code', F, "class TtlExpiredError(SocksError):\n    code = 0x06", "class TtlExpiredError(SocksError):\n    code = 0x05", ['R05.4']),
    M('fallback-drops-code', F, "        return SocksError(\"Unknown SOCKS error-code {}\".format(code),\n                          code=code)", "        return SocksError(\"Unknown SOCKS error-code {}\".format(code))", ['R05.4']),
    M('ipv6-ignores-reqtype', F, "            if self._req_type == 'CONNECT':\n                self.reply_ipv6(addr, port)\n            else:\n                self.reply_domain_name(inet_ntop(AF_INET6, addr))", "            self.reply_ipv6(addr, port)", ['R05.5']),
    M('ipv4-legs-swapped', F, "            if self._req_type == 'CONNECT':\n                self.reply_ipv4(addr, port)\n            else:\n                self.reply_domain_name(addr)", "            if self._req_type != 'CONNECT':\n                self.reply_ipv4(addr, port)\n            else:\n                self.reply_domain_name(addr)", ['R05.5']),
    M('disconnect-no-fire', F, "        self._when_done.fire(Failure(error))\n", "        pass\n", ['R05.6']),
    M('app-not-connected-to-transport', F, "        sender.makeConnection(self.transport)\n", "        sender.makeConnection(client_proxy)\n", ['R05.7']),
    M('relay-keeps-buffer', F, "            d = self._data\n            self._data = b''\n", "            d = self._data\n", ['R05.7']),
    M('relay-drops-first-byte', F, "            d = self._data\n            self._data = b''\n", "            d = self._data[1:]\n            self._data = b''\n", ['R05.7']),
]
TWINS = [
    M('shared-tail-helper', F, ["            self._data = self._data[10:]\n            if self._req_type == 'CONNECT':\n                self.reply_ipv4(addr, port)\n            else:\n                self.reply_domain_name(addr)\n",
       "    def _parse_ipv4_reply(self):\n"],
      ["            self._done_v4(addr, port)\n",
       "    def _done_v4(self, a, p):\n        self._data = self._data[10:]\n        if self._req_type == 'CONNECT':\n            self.reply_ipv4(a, p)\n        else:\n            self.reply_domain_name(a)\n\n    def _parse_ipv4_reply(self):\n"]),
    M('reparse-len-gt-0', F, "                if self._data:\n                    self.got_data()\n            else:", "                if len(self._data) > 0:\n                    self.got_data()\n            else:"),
    M('reparse-unconditional', F, "                if self._data:\n                    self.got_data()\n            else:", "                self.got_data()\n            else:"),
    M('len-le-7', F, "        if len(self._data) < 8:\n            return\n        msg = self._data[:4]", "        if len(self._data) <= 7:\n            return\n        msg = self._data[:4]"),
    M('early-return-len', F, "        if len(self._data) >= 22:\n            addr = self._data[4:20]\n            port = struct.unpack('H', self._data[20:22])[0]\n            self._data = self._data[22:]\n            if self._req_type == 'CONNECT':\n                self.reply_ipv6(addr, port)\n            else:\n                self.reply_domain_name(inet_ntop(AF_INET6, addr))",
      "        if len(self._data) < 22:\n            return\n        addr = self._data[4:20]\n        port = struct.unpack('H', self._data[20:22])[0]\n        self._data = self._data[22:]\n        if self._req_type != 'CONNECT':\n            self.reply_domain_name(inet_ntop(AF_INET6, addr))\n        else:\n            self.reply_ipv6(addr, port)"),
    M('reorder-rows', F, "    sent_request.upon(\n        reply_ipv4,\n        enter=relaying,\n        outputs=[_make_connection],\n    )\n    sent_request.upon(\n        reply_ipv6,\n        enter=relaying,\n        outputs=[_make_connection],\n    )", "    sent_request.upon(\n        reply_ipv6,\n        enter=relaying,\n        outputs=[_make_connection],\n    )\n    sent_request.upon(\n        reply_ipv4,\n        enter=relaying,\n        outputs=[_make_connection],\n    )"),
    M('success-eq-form', F, "        if reply != self.SUCCEEDED:\n            self.reply_error(_create_socks_error(reply))\n            return\n", "        if not (reply == self.SUCCEEDED):\n            self.reply_error(_create_socks_error(reply))\n            return\n"),
]
