"""C13 - GETINFO/GETCONF results map each key to exactly the value Tor sent (narrow structural claim)."""
import ast

from .common import *  # noqa
from .c01 import U, proto, MOD, is_dot_test
from ..tables import SpaghettiTable


def r13_1(run):
    """dot-unstuffing: on the path of a RECV_PLUS data line a leading '.' is examined and one character dropped"""
    init = U(run, '__init__')
    tab = SpaghettiTable(init)
    plus = [v for v, nm in tab.states.items() if nm == 'RECV_PLUS']
    if not plus:
        raise AnchorVanished('RECV_PLUS state')
    handlers = []
    for t in tab.of_state(plus[0]):
        h = dotted(t['handler']) if t['handler'] is not None else None
        if h and h.startswith('self.') and t['next'] == plus[0]:
            handlers.append(U(run, h.split('.')[1]))
    run.floor('R13.1', 'data-line handlers of RECV_PLUS', len(handlers), 1)
    lr = U(run, 'lineReceived')
    for h in handlers:
        found = False
        where = None
        for u in (h, lr):
            g = cfg_of(u)
            p = u.params[1]
            for n in g.real_nodes():
                if n.kind != 'stmt' or not isinstance(n.ast, ast.Assign):
                    continue
                v = n.ast.value
                if isinstance(v, ast.Subscript) and dotted(v.value) == p and isinstance(v.slice, ast.Slice) and const(v.slice.lower) == 1 \
                        and v.slice.upper is None and assign_to(n.ast, p) is not None:
                    if any(lab == 'T' for _, lab in g.guarded_by(n, lambda t: is_dot_test(t, p))):
                        found = True
                        where = u
        run.ob('R13.1', h, h.node, 'data-block lines are dot-unstuffed (leading "." examined, one character dropped)', found, slot='unstuff:%s' % h.name,
               message='%s never removes the extra leading "." Tor adds to data lines that begin with ".": a value line ".x" arrives as "..x"' % h.name)
        if found and where is h:
            # the unstuffed line (not the raw one) is what gets accumulated / delivered
            g = cfg_of(h)
            p = h.params[1]
            uns = [n for n in g.real_nodes() if n.kind == 'stmt' and isinstance(n.ast, ast.Assign) and assign_to(n.ast, p) is not None]
            sinks = g.nodes_where(lambda n: any((isinstance(a, ast.AugAssign) and dotted(a.target) == 'self.response') or
                                                (isinstance(a, ast.Call) and isinstance(a.func, ast.Subscript) and dotted(a.func.value) == 'self.command')
                                                for a in node_asts(n)))
            ok = bool(sinks) and all(not (g.reachable([g.entry], avoid=lambda x: x in uns or any(lab == 'F' for lab in ())) and False) for s in sinks)
            # order: every sink comes after the unstuffing test (dominated by the test node)
            tests = [t for t in g.live if t.kind == 'test' and is_dot_test(t.ast, p)]
            ok = bool(tests) and all(any(g.dominates(t, s) for t in tests) for s in sinks)
            run.ob('R13.1', h, h.node, 'unstuffing happens before the line is accumulated or delivered', ok, slot='unstuff-first:%s' % h.name,
                   message='%s accumulates/delivers the line before unstuffing it' % h.name)
    # the end-of-block matcher is consulted before the data handler (first-match order)
    trans = tab.of_state(plus[0])
    names = [dotted(t['matcher']) for t in trans]
    ok = len(names) >= 2 and names[0] == 'self._is_end_line'
    if not ok and len(names) == 2 and set(names) == set(['self._is_end_line', 'self._is_not_end_line']):
        # the order of two matchers only matters where both can match: not when one is the exact negation of the other
        ci_ = run.idx.cls('TorControlProtocol', MOD)
        e_, ne_ = run.idx.find_method(ci_, '_is_end_line'), run.idx.find_method(ci_, '_is_not_end_line')

        def _ret(u_):
            rs = [x for x in walk_unit(u_) if isinstance(x, ast.Return)] if u_ is not None else []
            return rs[0].value if len(rs) == 1 else None
        re_, rn_ = _ret(e_), _ret(ne_)
        if re_ is not None and rn_ is not None:
            lp_ = ne_.params[1] if len(ne_.params) > 1 else 'line'
            neg_call = isinstance(rn_, ast.UnaryOp) and isinstance(rn_.op, ast.Not) and isinstance(rn_.operand, ast.Call) and dotted(rn_.operand.func) == 'self._is_end_line'
            both_cmp = isinstance(re_, ast.Compare) and isinstance(rn_, ast.Compare) and len(re_.ops) == 1 and len(rn_.ops) == 1 and \
                isinstance(re_.ops[0], ast.Eq) and isinstance(rn_.ops[0], ast.NotEq) and const(re_.comparators[0]) == const(rn_.comparators[0]) == '.' and \
                isinstance(re_.left, ast.Name) and isinstance(rn_.left, ast.Name)
            ok = neg_call or both_cmp
    run.ob('R13.1', init, init.node, 'the lone "." terminator is matched before data lines', ok, slot='end-first', message='RECV_PLUS transitions in order: %s' % names)


def callback_bodies(u):
    """result expressions of the small callbacks nested in u: a lambda's body, or the single `return <expr>` of a nested def"""
    out = []
    for ch in u.children:
        if isinstance(ch.node, ast.Lambda):
            out.append(ch.node.body)
        elif isinstance(ch.node, ast.FunctionDef):
            body = [b for b in ch.node.body if not (isinstance(b, ast.Expr) and isinstance(b.value, ast.Constant))]
            if len(body) == 1 and isinstance(body[0], ast.Return) and body[0].value is not None:
                out.append(body[0].value)
    return out


def r13_2(run):
    ci = proto(run)
    k = 0
    pkp = run.idx.unit(MOD + '.parse_keywords').params
    for name in ('get_info', 'get_info_single'):
        u = U(run, name)
        uses = []       # (node, positional args after the reply text, keywords)
        nodes = list(walk_unit(u))
        for ch in u.children:
            nodes += list(walk_unit(ch))
        for c in nodes:
            if isinstance(c, ast.Call) and callee_attr(c) == 'addCallback' and c.args and dotted(c.args[0]) == 'parse_keywords':
                uses.append((c, list(c.args[1:]), c.keywords))
            elif isinstance(c, ast.Call) and dotted(c.func) == 'parse_keywords' and c.args:
                uses.append((c, list(c.args[1:]), c.keywords))
        for c, pos, kws in uses:
            k += 1
            # bind against parse_keywords' own parameter list (the reply text takes the first one)
            bound = dict(zip(pkp[1:], pos))
            bound.update((kw.arg, kw.value) for kw in kws if kw.arg)
            v = bound.get('key_hints')
            ok = False
            if v is not None:
                if name == 'get_info':
                    ok = dotted(v) == 'args' or (isinstance(v, ast.Call) and dotted(v.func) in ('list', 'tuple') and dotted(v.args[0]) == 'args')
                else:
                    ok = isinstance(v, (ast.List, ast.Tuple)) and len(v.elts) == 1 and dotted(v.elts[0]) == u.params[1]
            stray = [p_ for p_ in bound if p_ != 'key_hints']
            run.ob('R13.2', u, c, '%s parses with key_hints = the requested keys' % name, ok, slot='hints:%s' % name,
                   message='%s parses the reply without the requested keys as hints (%s): a value line containing "=" is taken for a new key'
                           % (name, 'the extra argument lands in %s' % stray if stray else 'no key_hints'))
        # the raw request names exactly the requested keys
        raw = [c for c in calls_in(u) if dotted(c.func) == 'self.get_info_raw']
        ok = len(raw) == 1 and ((name == 'get_info' and isinstance(raw[0].args[0], ast.Starred) and dotted(raw[0].args[0].value) == 'args') or
                                (name == 'get_info_single' and dotted(raw[0].args[0]) == u.params[1]))
        run.ob('R13.2', u, u.node, '%s requests exactly the keys it was given' % name, ok, slot='request:%s' % name, message='%s calls %s' % (name, [src(r) for r in raw]))
    run.floor('R13.2', 'parse_keywords attachments in get_info*', k, 2)
    gr = U(run, 'get_info_raw')
    cmds = [c for c in calls_in(gr) if callee_attr(c) == 'queue_command']
    sh = shape(cmds[0].args[0]) if cmds else []
    ok = shape_prefix(sh) == 'GETINFO ' and len(sh) == 2 and "' '.join(args)" in src(sh[1].node)
    run.ob('R13.2', gr, gr.node, 'GETINFO lists the keys separated by single spaces', ok, slot='getinfo-shape', message='get_info_raw sends %s' % shape_text(sh))
    gs = U(run, 'get_info_single')
    lam = callback_bodies(gs)
    ok = any(isinstance(b, ast.Subscript) and dotted(b.slice) == gs.params[1] for b in lam)
    run.ob('R13.2', gs, gs.node, 'get_info_single returns the value stored under the requested key', ok, slot='single-key', message='get_info_single extracts %s' % [src(b) for b in lam])


def pk_roles(pk):
    """local names of parse_keywords by role: result dict, (key, value) pair, line loop variable,
    the "this line starts a new key" flag, the split parts"""
    rn = returned_names(pk)
    if len(rn) != 1:
        raise Undecided('parse_keywords: result name')
    R = rn[0]
    kv = [n for n in walk_unit(pk) if isinstance(n, ast.Assign) and isinstance(n.targets[0], ast.Tuple) and len(n.targets[0].elts) == 2
          and isinstance(n.value, ast.Call) and callee_attr(n.value) in ('split', 'partition', 'groups') and all(isinstance(e, ast.Name) for e in n.targets[0].elts)]
    if not kv:
        raise Undecided('parse_keywords: (key, value) = line.split(...) not found')
    K, V = kv[0].targets[0].elts[0].id, kv[0].targets[0].elts[1].id
    loops = [n for n in walk_unit(pk) if isinstance(n, ast.For) and isinstance(n.target, ast.Name) and any(x is kv[0] for x in ast.walk(n))]
    L = loops[0].target.id if loops else None
    fk = names_defined_by(pk, lambda v: isinstance(v, ast.BoolOp) and any(isinstance(c, ast.Compare) and const(c.left) == '=' for c in ast.walk(v)))
    if not fk:
        # the flag is whatever plain name guards the (key, value) assignment
        gk = cfg_of(pk)
        for cn in gk.nodes_containing(kv[0]):
            fk = [dotted(t.ast) for t, lab in gk.guarded_by(cn, lambda t: isinstance(t, ast.Name)) if lab == 'T']
    SP = names_defined_by(pk, lambda v: isinstance(v, ast.Call) and callee_attr(v) == 'split' and v.args and const(v.args[0]) == '=' and dotted(receiver(v)) == L)
    return dict(R=R, K=K, V=V, L=L, FK=fk[0] if fk else None, SP=SP[0] if SP else None, kv=kv)


def r13_3(run, ok_rule=True):
    pk = inline_local_helpers(run.idx.unit(MOD + '.parse_keywords'))
    g = cfg_of(pk)
    defs = local_defs(pk)
    ro = pk_roles(pk)
    R, K, V, L, FK = ro['R'], ro['K'], ro['V'], ro['L'], ro['FK']
    # sentinel on the no-"=" leg, split remainder on the "=" leg
    stores = [n for n in walk_unit(pk) if isinstance(n, ast.Assign) and isinstance(n.targets[0], ast.Subscript) and dotted(n.targets[0].value) == R]
    run.floor('R13.3', 'stores into the result dict', len(stores), 5)
    sentinel = [s for s in stores if dotted(s.value) == 'DEFAULT_VALUE']
    run.ob('R13.3', pk, pk.node, 'a key without "=" is reported with the DEFAULT_VALUE sentinel', bool(sentinel), slot='sentinel-leg', message='no store of DEFAULT_VALUE')
    for s in sentinel:
        for n in g.nodes_containing(s):
            gd = g.guarded_by(n, lambda t: dotted(t) == FK)
            run.ob('R13.3', pk, s, 'the sentinel is stored only for lines that are not key=value', any(lab == 'F' for _, lab in gd), slot='sentinel-guard',
                   message='DEFAULT_VALUE stored on a key=value line')
    # key/value come from one split with maxsplit 1
    kv = ro['kv']
    ok = bool(kv) and all(isinstance(a.value, ast.Call) and callee_attr(a.value) in ('split', 'partition', 'groups') for a in kv)
    run.ob('R13.3', pk, pk.node, 'key and value come from one split of the line', ok, slot='kv-split', message='(key, value) assigned from %s' % [src(a.value) for a in kv])
    # the stored value is the (unquoted) remainder, distinct from the sentinel; '' stays ''
    vals = [s for s in stores if not (dotted(s.value) == 'DEFAULT_VALUE')]

    def derives(e, depth=0):
        """e mentions the value variable, or a local every definition of which does (a temporary holding unquote(value))"""
        for x in ast.walk(e):
            if isinstance(x, ast.Name):
                if x.id == V:
                    return True
                ds = [d for d in defs.get(x.id, []) if len(d) > 1 and isinstance(d[1], ast.AST)]
                if depth < 2 and ds and x.id not in (R, K, L) and all(derives(d[1], depth + 1) for d in ds):
                    return True
        return False
    okv = all(derives(s.value) for s in vals)
    run.ob('R13.3', pk, pk.node, 'stored values derive from the text after "="', okv, slot='value-source', message='stores: %s' % [src(s.value) for s in vals])
    for d in defs.get(V, []):
        bad = len(d) > 1 and isinstance(d[1], ast.AST) and any(dotted(x) == 'DEFAULT_VALUE' for x in ast.walk(d[1])) and d[0] == 'expr'
        run.ob('R13.3', pk, d[1] if len(d) > 1 and isinstance(d[1], ast.AST) else pk.node, 'a parsed value is never replaced by the unset sentinel', not bad,
               slot='value-never-sentinel', message='parse_keywords turns a value into DEFAULT_VALUE: "set to the empty string" becomes indistinguishable from "unset"')
    # the value is exactly the text Tor sent: its only definitions are '', the split remainder and the
    # continuation; what is stored is the value itself or unquote(value) - no trimming, no case change
    kdef = 0
    for n in walk_unit(pk):
        if isinstance(n, (ast.Assign, ast.AugAssign)) and V in assigned_targets(n):
            kdef += 1
            v = n.value
            ok = const(v) == '' or (isinstance(n, ast.Assign) and isinstance(n.targets[0], (ast.Tuple, ast.List)) and isinstance(v, ast.Call) and callee_attr(v) in ('split', 'partition', 'groups')) \
                or (isinstance(v, ast.BinOp) and norm_src(v, {V: 'VALUE', L: 'LINE'}).replace(' ', '') == "VALUE+'\\n'+LINE") \
                or (isinstance(v, ast.Subscript) and isinstance(v.value, ast.Name) and v.value.id == ro['SP'] and const(v.slice) == 1)
            run.ob('R13.3', pk, n, 'the value is only ever the text after "=" plus whole continuation lines', ok, slot='value-defs',
                   message='parse_keywords redefines the value as %s: the reply\'s text is altered (e.g. trailing blanks of the last value trimmed)' % src(v)[:60])
    run.floor('R13.3', 'definitions of the value', kdef, 3)
    for s_ in vals:
        for x in ast.walk(s_.value):
            if isinstance(x, ast.Call) and any(isinstance(y, ast.Name) and y.id == V for y in ast.walk(x)):
                okc = dotted(x.func) == 'unquote' and len(x.args) == 1 and dotted(x.args[0]) == V
                run.ob('R13.3', pk, x, 'a stored value passes only through unquote()', okc, slot='value-transform',
                       message='parse_keywords stores %s' % src(x)[:60])
    # no line of a value is dropped: the reply terminator "OK" may be skipped in the last position only
    loop = [n for n in walk_unit(pk) if isinstance(n, ast.For) and isinstance(n.target, ast.Name) and n.target.id == L]
    inloop = [t for lp_ in loop for t in ast.walk(lp_) if isinstance(t, ast.Compare) and const(t.comparators[0]) == 'OK' and any(isinstance(x, ast.Name) and x.id == L for x in ast.walk(t.left))]
    for t in inloop:
        run.ob('R13.3', pk, t, 'no line of a value is dropped inside the line loop', False, slot='ok-line-dropped:any-position',
               message='parse_keywords skips every line that reads "OK", wherever it stands: a multi-line value (e.g. config-text) containing such a line comes back without it')
    pre = [t for t in walk_unit(pk) if isinstance(t, ast.Compare) and const(t.comparators[0]) == 'OK' and t not in inloop]
    for t in (pre if ok_rule else []):
        last = any(isinstance(x, ast.Subscript) and const(x.slice) == -1 for x in ast.walk(t.left))
        run.ob('R13.3', pk, t, 'a value whose last line reads "OK" keeps it', False if last else None, slot='ok-line-dropped:last-line',
               message='parse_keywords removes a trailing "OK" line as the reply terminator; after _broadcast_response has already cut the terminator off a '
                       'command reply, that line is the last line of the value (ambiguity kept because event payloads still carry their terminator)')
    run.ob('R13.3', pk, pk.node, 'OK-line handling examined', True)
    # a plain store of a value never overwrites an earlier value of the same key: it sits on the "key not yet present" leg
    # (in either line mode - the one-line-per-value mode is what CONF_CHANGED events are parsed with)
    for s_ in vals:
        if isinstance(s_.value, ast.List):
            continue
        for n in g.nodes_containing(s_):
            gd = g.guarded_by(n, lambda t: isinstance(t, ast.Compare) and len(t.ops) == 1 and isinstance(t.ops[0], (ast.In, ast.NotIn)) and dotted(t.comparators[0]) == R
                              and src(t.left) == src(s_.targets[0].slice))
            okn = any((lab == 'F') == isinstance(t.ast.ops[0], ast.In) for t, lab in gd)
            run.ob('R13.3', pk, s_, 'a value is stored plainly only when its key is not present yet', okn, slot='store-no-overwrite',
                   message='parse_keywords assigns %s without testing whether the key already has a value: an option reported several times loses its earlier values' % src(s_)[:50])
    # repeated keys accumulate in arrival order: [old, new] then append
    lists = [s for s in stores if isinstance(s.value, ast.List) and len(s.value.elts) == 2]
    ok = bool(lists) and all(isinstance(s.value.elts[0], ast.Subscript) and dotted(s.value.elts[0].value) == R and derives(s.value.elts[1]) for s in lists)
    run.ob('R13.3', pk, pk.node, 'a repeated key becomes [earlier, later]', ok, slot='repeat-pair', message='repeat handling: %s' % [src(s.value) for s in lists])
    apps = [c for c in calls_in(pk) if callee_attr(c) == 'append' and isinstance(receiver(c), ast.Subscript) and dotted(receiver(c).value) == R]
    ok = bool(apps) and all(derives(c.args[0]) for c in apps)
    run.ob('R13.3', pk, pk.node, 'further repeats are appended (arrival order)', ok, slot='repeat-append', message='appends: %s' % [src(c) for c in apps])
    # ... at every flush site: the test "already a list" selects append on its true edge and the [earlier, later] pair on its false edge
    il = [t for t in g.live if t.kind == 'test' and isinstance(t.ast, ast.Call) and dotted(t.ast.func) == 'isinstance' and len(t.ast.args) == 2 and
          isinstance(t.ast.args[0], ast.Subscript) and dotted(t.ast.args[0].value) == R and dotted(t.ast.args[1]) == 'list']
    run.floor('R13.3', 'flush sites (already-a-list tests)', len(il), 3)
    for t in il:
        on_t = [c for c in apps if any(g.edge_dominates(t, 'T', n) for n in g.nodes_containing(c))]
        on_f = [s_ for s_ in lists if any(g.edge_dominates(t, 'F', n) for n in g.nodes_containing(s_))]
        wrong = [c for c in apps if any(g.edge_dominates(t, 'F', n) for n in g.nodes_containing(c))] + \
                [s_ for s_ in lists if any(g.edge_dominates(t, 'T', n) for n in g.nodes_containing(s_))]
        run.ob('R13.3', pk, t.ast, 'a value that already is a list is appended to, anything else becomes [earlier, later]', bool(on_t) and bool(on_f) and not wrong,
               slot='flush-site-legs', message='parse_keywords: at %s the list leg %s and the pair leg %s: the third and later values of a repeated key are lost (or the second '
               'raises)' % (src(t.ast), 'appends' if on_t else 'does not append', 'builds the pair' if on_f else 'does not build [earlier, later]'))
    ins = [c for c in calls_in(pk) if callee_attr(c) == 'insert' and isinstance(receiver(c), ast.Subscript)]
    run.ob('R13.3', pk, pk.node, 'no front insertion of repeated values', not ins, slot='no-insert', message='repeated values inserted with %s' % [src(c) for c in ins])
    # the final flush after the loop mirrors the in-loop flush
    loop = [n for n in walk_unit(pk) if isinstance(n, ast.For)]
    after = [s for s in stores if loop and s.lineno > loop[0].end_lineno]
    run.ob('R13.3', pk, pk.node, 'the last pending key is flushed after the loop', len(after) >= 2, slot='final-flush', message='%d stores after the loop' % len(after))
    # multi-line values keep every line in order
    cont = [n for n in walk_unit(pk) if isinstance(n, ast.Assign) and dotted(n.targets[0]) == V and isinstance(n.value, ast.BinOp)]
    ok = any(norm_src(n.value, {V: 'VALUE', L: 'LINE'}).replace(' ', '') == "VALUE+'\\n'+LINE" for n in cont)
    run.ob('R13.3', pk, pk.node, 'continuation lines are appended to the value in order', ok, slot='continuation', message='continuation: %s' % [src(n.value) for n in cont])
    # hints restrict, they never rename
    kh = [t for t in g.live if t.kind == 'test' and mentions(t.ast, 'key_hints')]
    ok = bool(kh) and any(isinstance(t.ast, ast.Compare) and isinstance(t.ast.ops[0], ast.NotIn) and dotted(t.ast.comparators[0]) == 'key_hints' for t in kh)
    run.ob('R13.3', pk, pk.node, 'with hints, only a hinted name starts a new key', ok, slot='hints-test', message='key_hints tests: %s' % [src(t.ast) for t in kh])


def r13_4(run):
    """every split of a key=value line on '=' whose value part is used has maxsplit 1"""
    k = 0
    for uname in (MOD + '.parse_keywords', 'util.find_keywords'):
        u = run.idx.unit(uname)
        nodes = list(walk_unit(u))
        for ch in u.children:
            nodes += list(walk_unit(ch))
        for n in nodes:
            if isinstance(n, ast.Call) and callee_attr(n) in ('split', 'rsplit') and n.args and const(n.args[0]) == '=':
                k += 1
                ms = const(n.args[1]) if len(n.args) > 1 else next((const(kw.value) for kw in n.keywords if kw.arg == 'maxsplit'), None)
                # a split used only for its first element (the key) may be unbounded
                par = [p for p in nodes if isinstance(p, ast.Subscript) and p.value is n]
                key_only = bool(par) and all(const(p.slice) == 0 for p in par)
                ok = (callee_attr(n) == 'split' and ms == 1) or key_only
                run.ob('R13.4', u, n, 'key=value lines are split at the first "=" only', ok, slot='maxsplit@%s:%s' % (u.name, src(n)[:30]),
                       message='%s splits on every "=": a value containing "=" is truncated / raises' % src(n))
    # the same for a regex-based split: the key group must not be able to run past the first "="
    import re._parser as sre
    import re._constants as sc
    pk0 = run.idx.unit(MOD + '.parse_keywords')
    mod = pk0.module
    for n in walk_unit(pk0):
        if isinstance(n, ast.Call) and callee_attr(n) in ('match', 'search', 'fullmatch') and isinstance(receiver(n), ast.Name):
            pat = None
            for st in mod.tree.body:
                if isinstance(st, ast.Assign) and dotted(st.targets[0]) == receiver(n).id and isinstance(st.value, ast.Call) and dotted(st.value.func) == 're.compile' and st.value.args:
                    pat = const(st.value.args[0])
            if not isinstance(pat, str):
                run.ob('R13.4', pk0, n, 'regex used to split key=value lines is a module constant', None, message='pattern of %s not resolvable' % src(n)[:40])
                continue
            k += 1
            verdict, why = None, 'pattern shape not recognised'
            try:
                items = list(sre.parse(pat))
                items = [it for it in items if it[0] is not sc.AT]
                if items and items[0][0] is sc.SUBPATTERN and len(items) > 1 and items[1] == (sc.LITERAL, ord('=')):
                    inner = list(items[0][1][3])
                    if len(inner) == 1 and inner[0][0] in (sc.MAX_REPEAT, sc.MIN_REPEAT):
                        rep_kind, (lo_, hi_, what) = inner[0]
                        what = list(what)

                        def can_match_eq(node):
                            op, av = node
                            if op is sc.ANY:
                                return True
                            if op is sc.LITERAL:
                                return av == ord('=')
                            if op is sc.NOT_LITERAL:
                                return av != ord('=')
                            if op is sc.IN:
                                neg = any(x[0] is sc.NEGATE for x in av)
                                hit = False
                                for x in av:
                                    if x[0] is sc.LITERAL and x[1] == ord('='):
                                        hit = True
                                    elif x[0] is sc.RANGE and x[1][0] <= ord('=') <= x[1][1]:
                                        hit = True
                                    elif x[0] is sc.CATEGORY:
                                        cat = x[1]
                                        if cat in (sc.CATEGORY_NOT_SPACE, sc.CATEGORY_NOT_DIGIT, sc.CATEGORY_NOT_WORD):
                                            hit = True
                                return (not hit) if neg else hit
                            return True
                        greedy_over_eq = rep_kind is sc.MAX_REPEAT and len(what) == 1 and can_match_eq(what[0])
                        verdict = not greedy_over_eq
                        why = 'the key group %s can match "=" and is greedy: the key ends at the LAST "=" of its run, so a value containing "=" before its first blank moves into the key' % pat
            except Exception as e:      # an unparsable pattern stays undecided
                why = 'pattern not parsed: %s' % e
            run.ob('R13.4', pk0, n, 'key=value lines are split at the first "=" only (regex form)', verdict, slot='regex-first-eq', message='%s: %s' % (src(n)[:40], why))
    run.floor('R13.4', 'splits on "="', k, 3)
    pk = run.idx.unit(MOD + '.parse_keywords')
    ro = pk_roles(pk)
    fk = sorted([n for n in walk_unit(pk) if isinstance(n, ast.Assign) and dotted(n.targets[0]) == ro['FK']], key=lambda n: n.lineno)
    ok = bool(fk) and ro['SP'] is not None and ("%s[0]" % ro['SP']) in src(fk[0].value) and ("'=' in %s" % ro['L']) in src(fk[0].value)
    if fk and not ok:
        # regex form: found_key = <m> is not None, m = <REGEX>.match(<line>) - what the pattern accepts is decided above
        v = fk[0].value
        if isinstance(v, ast.Compare) and isinstance(v.ops[0], ast.IsNot) and is_none(v.comparators[0]) and isinstance(v.left, ast.Name):
            md = [d for d in local_defs(pk).get(v.left.id, []) if d[0] == 'expr']
            if len(md) == 1 and isinstance(md[0][1], ast.Call) and callee_attr(md[0][1]) in ('match', 'fullmatch') and md[0][1].args and dotted(md[0][1].args[0]) == ro['L']:
                ok = True
    run.ob('R13.4', pk, pk.node, 'the key test looks only at the text before the first "="', ok, slot='key-test', message='found_key = %s' % (src(fk[0].value) if fk else None))


def r13_5(run):
    for name, key_param in (('get_conf_single', True), ('get_conf', False)):
        u = U(run, name)
        cbs = [c for c in calls_in(u) if callee_attr(c) == 'addCallback' and c.args]
        pk = [c for c in cbs if dotted(c.args[0]) == 'parse_keywords']
        run.ob('R13.5', u, u.node, '%s parses the reply with parse_keywords (no key hints needed, no defaults applied)' % name, len(pk) == 1 and not pk[0].keywords,
               slot='parse:%s' % name, message='%s parse step: %s' % (name, [src(c)[:50] for c in pk]))
        cmd = [c for c in calls_in(u) if callee_attr(c) == 'queue_command']
        sh = shape(cmd[0].args[0]) if cmd else []
        run.ob('R13.5', u, u.node, '%s sends GETCONF <keys>' % name, shape_prefix(sh) == 'GETCONF ', slot='cmd:%s' % name, message='%s sends %s' % (name, shape_text(sh)))
    gs = U(run, 'get_conf_single')
    bodies = [src(b) for b in callback_bodies(gs)]
    ok = any(b in ('list(kw.values())[0]', 'next(iter(kw.values()))') or b.endswith('.values())[0]') for b in bodies)
    bad = any((' or ' in b) or ('.get(' in b and ',' in b) for b in bodies)
    run.ob('R13.5', gs, gs.node, 'get_conf_single hands back the parsed value itself (unset stays the sentinel, "" stays empty)', ok and not bad, slot='single-value',
           message='get_conf_single extracts %s' % bodies)
    m = run.idx.module(MOD)
    dv = m.assigns.get('DEFAULT_VALUE')
    run.ob('R13.5', m.rel, dv, 'the unset sentinel differs from the empty string', dv is not None and isinstance(const(dv), str) and const(dv) != '', slot='sentinel-distinct',
           message='DEFAULT_VALUE is %r' % (const(dv) if dv is not None else None))


def r13_6(run):
    """removing a fixed prefix/suffix from reply text is done exactly: str.strip()/rstrip()/lstrip() take a
    *set of characters*, so using them with a multi-character literal that the same function tests with
    endswith()/startswith() eats into the value"""
    ci = proto(run)
    units = class_units(run.idx, ci) + [run.idx.unit(MOD + '.parse_keywords'), run.idx.unit(MOD + '.unquote')]
    k = 0
    for u in units:
        lits = set()
        for n in walk_unit(u):
            if isinstance(n, ast.Call) and callee_attr(n) in ('endswith', 'startswith') and n.args and isinstance(const(n.args[0]), str):
                lits.add(const(n.args[0]))
        for n in walk_unit(u):
            if isinstance(n, ast.Call) and callee_attr(n) in ('strip', 'rstrip', 'lstrip') and n.args:
                a = const(n.args[0])
                if isinstance(a, str) and len(a) > 1:
                    k += 1
                    bad = a in lits or len(set(a)) < len(a) or any(ch.isalnum() for ch in a)
                    run.ob('R13.6', u, n, 'fixed text is removed exactly, not with a character-set strip', not bad, slot='strip-set@%s:%r' % (u.short, a),
                           message='%s uses %s: strip-family methods remove any run of those characters, so a value ending in '
                                   'one of them loses part of itself' % (u.short, src(n)[:50]))
    ok_removal(run, 'R13.6')
    # unquote removes exactly one pair of quotes: every return is the word itself or word[1:-1]
    uq = run.idx.unit(MOD + '.unquote')
    wp = uq.params[0]
    rets = [n for n in walk_unit(uq) if isinstance(n, ast.Return)]
    run.floor('R13.6', 'returns of unquote', len(rets), 2)
    for r in rets:
        v = r.value
        same = v is not None and dotted(v) == wp
        pair = isinstance(v, ast.Subscript) and dotted(v.value) == wp and isinstance(v.slice, ast.Slice) and const(v.slice.lower) == 1 and const(v.slice.upper) == -1
        run.ob('R13.6', uq, r, 'unquote returns the word or the word without its first and last character', same or pair, slot='unquote-return',
               message='unquote returns %s: more (or less) than one pair of quotes is removed, so a value that itself begins or ends with a quote is cut short' % (src(v)[:40] if v is not None else None))
    # the reply text is cut into lines at LF only, keeping empty lines (str.splitlines drops a final empty line and also
    # splits at \r, \x0b, \x0c, \x1c-\x1e, \x85, \u2028, \u2029)
    pk = run.idx.unit(MOD + '.parse_keywords')
    L_ = pk_roles(pk)['L']
    lp = [n for n in walk_unit(pk) if isinstance(n, ast.For) and isinstance(n.target, ast.Name) and n.target.id == L_]
    for n in lp[:1]:
        it = n.iter
        if isinstance(it, ast.Name):
            d = [x for x in local_defs(pk).get(it.id, []) if x[0] == 'expr']
            if len(d) == 1:
                it = d[0][1]
        good = isinstance(it, ast.Call) and callee_attr(it) == 'split' and len(it.args) == 1 and const(it.args[0]) == '\n' and dotted(receiver(it)) == pk.params[0]
        bad = any(isinstance(x, ast.Call) and (callee_attr(x) == 'splitlines' or (callee_attr(x) == 'split' and not x.args)) for x in ast.walk(it))
        run.ob('R13.6', pk, n, 'the reply is cut into lines at LF only and empty lines are kept', True if good else (False if bad else None), slot='line-split',
               message='parse_keywords iterates %s: %s' % (src(it)[:40], 'a blank last line of a multi-line value is dropped and other separators split lines' if bad else 'shape not recognised'))


def ok_removal(run, rid):
    # the OK terminator removal in _broadcast_response
    bc = U(run, '_broadcast_response')
    g = cfg_of(bc)
    cbs = [c for c in calls_in(bc) if dotted(c.func) == 'self.defer.callback' and c.args and isinstance(c.args[0], ast.Name)]
    RESP = cbs[0].args[0].id if cbs else 'resp'
    cut = [n for n in g.real_nodes() if n.kind == 'stmt' and isinstance(n.ast, ast.Assign) and assign_to(n.ast, RESP) is not None and
           any(lab == 'T' for _, lab in g.guarded_by(n, lambda t: isinstance(t, ast.Call) and dotted(t.func) == RESP + '.endswith'))]
    run.floor(rid, 'final-OK removal sites', len(cut), 1)
    for n in cut:
        v = assign_to(n.ast, RESP)
        tests = [t for t, lab in g.guarded_by(n, lambda t: isinstance(t, ast.Call) and dotted(t.func) == RESP + '.endswith') if lab == 'T']
        suffix = const(tests[0].ast.args[0]) if tests and tests[0].ast.args else None
        ok = False
        if isinstance(v, ast.Subscript) and dotted(v.value) == RESP and isinstance(v.slice, ast.Slice) and v.slice.lower is None:
            up = v.slice.upper
            cv = const(up)
            ok = isinstance(suffix, str) and (cv == -len(suffix) or src(up) in ('-len(%r)' % suffix,))
        elif isinstance(v, ast.Call) and dotted(v.func) == RESP + '.removesuffix' and const(v.args[0]) == suffix:
            ok = True
        run.ob(rid, bc, n.ast, 'the final OK line is cut off by exactly the length of the tested suffix', ok, slot='ok-removal',
               message='the reply terminator %r is removed with %s (not an exact cut of len(suffix) characters)' % (suffix, src(v)))


def r13_7(run):
    """the reply text handed to the parsers is exactly the lines of this reply: the accumulation buffer is
    emptied on every path of _broadcast_response (also after 650 events), and every received line - empty
    ones included - reaches the line machine"""
    from . import c01
    bc = U(run, '_broadcast_response')
    g = cfg_of(bc)
    for c in c01.code_reps(run):
        for p in g.paths(eval_hook=hook_for_env({'self.code': c})):
            run.paths_enumerated += 1
            if p.exit == 'raise':
                continue
            tags = [t for t, _, _ in path_effects(p, c01.bc_classify)]
            run.ob('R13.7', bc, bc.node, 'the reply buffer is emptied when a reply or event ends [code class %s]' % c01.code_class(c), 'reset_response' in tags,
                   slot='buffer-reset[%s]' % c01.code_class(c), message='self.response is not reset after a %s reply: its text is prepended to the next single-line reply' % c01.code_class(c))
    borrow(run, c01.r01_7, 'R13.7')
    lr = U(run, 'lineReceived')
    gl = cfg_of(lr)
    for p in gl.paths():
        if p.exit == 'raise':
            continue
        k = sum(1 for n, _ in p.steps if any(is_call_to(a, 'self.fsm.process') for a in node_asts(n)))
        run.ob('R13.7', lr, lr.node, 'every received line (empty ones too) is fed to the line machine', k == 1, slot='every-line',
               message='lineReceived drops a line on path %s: blank lines vanish from multi-line values' % p.describe())


def r13_8(run):
    """a reply with several keys is put together by the line machine before parse_keywords sees it: every line class goes to the
    handler the control-spec names for it (a "250+key=" line inside a reply continues it, it does not start a new reply text) -
    the FSM routing rule of C01 (R01.6), shared"""
    from . import c01
    borrow(run, c01.r01_6, 'R13.8')


def r13_9(run):
    """only a line that contains "=" starts a new key.  A line without it is a bare keyword or one more line of a value - a
    data-block line that happens to read like a requested key must stay part of the value.  Independent of how the line is cut
    (split / partition / a flag): wherever the current key is (re)bound from the line, "the line has an =" is established."""
    pk = run.idx.unit(MOD + '.parse_keywords')
    g = cfg_of(pk)
    defs = local_defs(pk)
    loops = [n for n in walk_unit(pk) if isinstance(n, ast.For) and isinstance(n.target, ast.Name)]
    if not loops:
        raise Undecided('parse_keywords: loop over the lines not found')
    L = loops[0].target.id
    # names cut out of the line at "=": (name, sep, rest) = line.partition('=') / parts = line.split('=', 1)
    seps, parts = set(), set()
    for n in walk_unit(pk):
        if isinstance(n, ast.Assign) and isinstance(n.value, ast.Call) and dotted(receiver(n.value)) == L and n.value.args and const(n.value.args[0]) == '=':
            if callee_attr(n.value) == 'partition' and isinstance(n.targets[0], (ast.Tuple, ast.List)) and len(n.targets[0].elts) == 3 and isinstance(n.targets[0].elts[1], ast.Name):
                seps.add(n.targets[0].elts[1].id)
            elif callee_attr(n.value) == 'split' and isinstance(n.targets[0], ast.Name):
                parts.add(n.targets[0].id)

    assuming = set()

    def implies(e, depth=0):
        """truth of e implies that the line contains '=' (three-valued: True / False)"""
        if isinstance(e, ast.Constant):
            return e.value is False or e.value is None
        if isinstance(e, ast.BoolOp):
            vs = [implies(v, depth) for v in e.values]
            return any(vs) if isinstance(e.op, ast.And) else all(vs)
        if isinstance(e, ast.Compare) and len(e.ops) == 1:
            op, l, r = e.ops[0], e.left, e.comparators[0]
            if isinstance(op, ast.In) and const(l) == '=' and dotted(r) == L:
                return True
            if isinstance(op, ast.Eq) and ((dotted(l) in seps and const(r) == '=') or (dotted(r) in seps and const(l) == '=')):
                return True
            if isinstance(op, ast.NotEq) and dotted(l) in seps and const(r) == '':
                return True
            if isinstance(l, ast.Call) and dotted(l.func) == 'len' and l.args and dotted(l.args[0]) in parts:
                c = const(r)
                if (isinstance(op, ast.Eq) and c == 2) or (isinstance(op, ast.Gt) and c == 1) or (isinstance(op, ast.GtE) and c == 2) or (isinstance(op, ast.NotEq) and c == 1):
                    return True
            return False
        if isinstance(e, ast.Name):
            if e.id in seps:
                return True
            if e.id in assuming:
                return True         # (a flag refined under a test of itself: its earlier value already implied the "=")
            ds = [d for d in defs.get(e.id, []) if d[0] == 'expr']
            if depth < 3 and ds and len(ds) == len(defs.get(e.id, [])):
                assuming.add(e.id)
                try:
                    for n_ in g.real_nodes():
                        if n_.kind == 'stmt' and isinstance(n_.ast, ast.Assign) and assign_to(n_.ast, e.id) is not None:
                            v_ = assign_to(n_.ast, e.id)
                            if implies(v_, depth + 1):
                                continue
                            if any((lab == 'T' and implies(t.ast, depth + 1)) or (lab == 'F' and refutes(t.ast)) for t, lab in g.guarded_by(n_, lambda t_: True)):
                                continue
                            return False
                    return True
                finally:
                    assuming.discard(e.id)
        return False

    def refutes(e):
        """falsity of e implies that the line contains '='"""
        if isinstance(e, ast.Compare) and len(e.ops) == 1:
            op, l, r = e.ops[0], e.left, e.comparators[0]
            if isinstance(op, ast.NotIn) and const(l) == '=' and dotted(r) == L:
                return True
            if isinstance(op, ast.NotEq) and dotted(l) in seps and const(r) == '=':
                return True
            if isinstance(op, ast.Eq) and dotted(l) in seps and const(r) == '':
                return True
        return False
    # where the current key is bound from the line
    linevars = set([L]) | seps | parts
    changed = True
    while changed:
        changed = False
        for n in walk_unit(pk):
            if isinstance(n, ast.Assign) and any(isinstance(x, ast.Name) and x.id in linevars for x in ast.walk(n.value)):
                for t in n.targets:
                    for x in ast.walk(t):
                        if isinstance(x, ast.Name) and isinstance(x.ctx, ast.Store) and x.id not in linevars and x.id not in ('rtn',):
                            linevars.add(x.id)
                            changed = True
    # the key variable: the name used as subscript of the result dict most often
    subs = {}
    for n in walk_unit(pk):
        if isinstance(n, ast.Subscript) and isinstance(n.slice, ast.Name):
            subs[n.slice.id] = subs.get(n.slice.id, 0) + 1
    if not subs:
        raise Undecided('parse_keywords: the key variable was not found')
    K = max(subs, key=lambda k_: subs[k_])
    k = 0
    for n in g.real_nodes():
        if n.kind != 'stmt' or not isinstance(n.ast, ast.Assign):
            continue
        v = assign_to(n.ast, K)
        if v is None or is_none(v) or not any(isinstance(x, ast.Name) and x.id in linevars for x in ast.walk(n.ast.value)):
            continue
        if any(isinstance(x, ast.Call) and callee_attr(x) in ('group', 'groups', 'groupdict') for x in ast.walk(n.ast.value)):
            k += 1
            continue        # cut by a regular expression: whether the pattern demands the "=" is R13.4's question
        k += 1
        ok = any((lab == 'T' and implies(t.ast)) or (lab == 'F' and refutes(t.ast)) for t, lab in g.guarded_by(n, lambda t_: True))
        run.ob('R13.9', pk, n.ast, 'a new key is taken from a line only where the line is known to contain "="', ok, slot='key-needs-equals',
               message='parse_keywords starts a new key (%s) on a path where nothing has established that the line contains "=": a value line of a data block that '
                       'reads like a key (e.g. equals a requested key) splits the value in two' % src(n.ast)[:50])
    run.floor('R13.9', 'bindings of the current key from the line', k, 1)


RULES = [
    ('R13.8', 'line-machine routing per line class (R01.6 borrowed): a data-block line inside a multi-key reply continues the reply text', r13_8),
    ('R13.7', 'reply buffer emptied on every path of _broadcast_response; every received line reaches the machine', r13_7),
    ('R13.6', 'exact removal of fixed prefixes/suffixes (no character-set strip with the tested literal; final OK cut by len(suffix))', r13_6),
    ('R13.1', 'dot-unstuffing exists on the data-line path and precedes accumulation; terminator matched first', r13_1),
    ('R13.2', 'GETINFO wrappers request exactly the given keys and parse with key_hints = those keys', r13_2),
    ('R13.3', 'parse_keywords legs: sentinel only without "=", value = remainder, repeats accumulate in arrival order, final flush', r13_3),
    ('R13.9', 'a line starts a new key only where "the line contains =" is established (split, partition or flag form)', r13_9),
    ('R13.4', 'every split on "=" whose value part is used has maxsplit 1', r13_4),
    ('R13.5', 'GETCONF wrappers return the parsed value without defaults; sentinel distinct from ""', r13_5),
]

from ..selftest import M  # noqa: E402
F = 'txtorcon/torcontrolprotocol.py'
MUTANTS = [
    M('hints-land-in-multiline-flag', F, "        d.addCallback(parse_keywords, key_hints=[key])\n        d.addCallback(lambda values: values[key])", "        d.addCallback(lambda raw: parse_keywords(raw, [key])[key])", ['R13.2']),
    M('one-line-list-test-negated', F, "                    if isinstance(rtn[key], list):\n                        rtn[key].append(value)\n", "                    if not isinstance(rtn[key], list):\n                        rtn[key].append(value)\n", ['R13.3']),
    M('one-line-append-dropped', F, "                    if isinstance(rtn[key], list):\n                        rtn[key].append(value)\n", "                    if isinstance(rtn[key], list):\n                        pass\n", ['R13.3']),
    M('one-line-pair-dropped', F, "                        rtn[key].append(value)\n                    else:\n                        rtn[key] = [rtn[key], value]\n", "                        rtn[key].append(value)\n", ['R13.3']),
    M('regex-split-greedy', F, ["def parse_keywords(lines, multiline_values=True, key_hints=None):", "        sp = line.split('=', 1)\n        found_key = ('=' in line and ' ' not in sp[0])\n        if found_key and key_hints and sp[0] not in key_hints:", "            (key, value) = line.split('=', 1)\n"],
      ["_KW = re.compile(r'^(\\S+)=(.*)$')\n\n\ndef parse_keywords(lines, multiline_values=True, key_hints=None):", "        m = _KW.match(line)\n        found_key = m is not None\n        if found_key and key_hints and m.group(1) not in key_hints:", "            (key, value) = m.groups()\n"], ['R13.4']),
    M('oneline-mode-overwrites', F, "            elif multiline_values is False:\n                # (same as above: an earlier line for this key must\n                # not be lost)\n                if key in rtn:\n                    if isinstance(rtn[key], list):\n                        rtn[key].append(value)\n                    else:\n                        rtn[key] = [rtn[key], value]\n                else:\n                    rtn[key] = value\n", "            elif multiline_values is False:\n                rtn[key] = value\n", ['R13.3']),
    M('ok-skipped-anywhere', F, "    for line in all_lines:\n", "    for line in all_lines:\n        if line.strip() == 'OK':\n            continue\n", ['R13.3']),
    M('splitlines', F, "    all_lines = lines.split('\\n')", "    all_lines = lines.splitlines() or ['']", ['R13.6']),
    M('unquote-by-strip', F, "    if word[0] == '\"' and word[-1] == '\"':\n        return word[1:-1]", "    if word[0] == '\"' and word[-1] == '\"':\n        return word.strip('\"')", ['R13.6']),
    M('final-value-rstripped', F, "    if key:\n        if key in rtn:", "    if key:\n        value = value.rstrip()\n        if key in rtn:", ['R13.3']),
    M('stored-value-stripped', F, "        else:\n            rtn[key] = unquote(value)\n    return rtn", "        else:\n            rtn[key] = unquote(value.strip())\n    return rtn", ['R13.3']),
    M('rstrip-ok', F, "                resp = resp[:-3]", "                resp = resp.rstrip('\\nOK')", ['R13.6']),
    M('cut-two', F, "                resp = resp[:-3]", "                resp = resp[:-2]", ['R13.6']),
    M('no-unstuffing', F, "        if line.startswith('.'):\n            line = line[1:]\n", "", ['R13.1']),
    M('unstuff-after-accumulate', F, "        if line.startswith('.'):\n            line = line[1:]\n        if self._wants_lines():\n            self.command[2](line)\n\n        else:\n            self.response += (line + '\\n')\n", "        if self._wants_lines():\n            self.command[2](line)\n\n        else:\n            self.response += (line + '\\n')\n        if line.startswith('.'):\n            line = line[1:]\n", ['R13.1']),
    M('no-key-hints', F, "        d.addCallback(parse_keywords, key_hints=args)", "        d.addCallback(parse_keywords)", ['R13.2']),
    M('single-hints-dropped', F, "        d.addCallback(parse_keywords, key_hints=[key])", "        d.addCallback(parse_keywords)", ['R13.2']),
    M('sentinel-on-empty-value', F, "            (key, value) = line.split('=', 1)\n", "            (key, value) = line.split('=', 1)\n            if value == '':\n                value = DEFAULT_VALUE\n", ['R13.3']),
    M('repeat-prepended', F, "                        rtn[key] = [rtn[key], unquote(value)]\n                else:\n                    rtn[key] = unquote(value)\n            (key, value)", "                        rtn[key] = [unquote(value), rtn[key]]\n                else:\n                    rtn[key] = unquote(value)\n            (key, value)", ['R13.3']),
    M('split-all-equals', F, "            (key, value) = line.split('=', 1)", "            (key, value) = line.split('=')[:2]", ['R13.4', 'R13.3']),
    M('find_keywords-unbounded', 'txtorcon/util.py', "    return dict(x.split('=', 1) for x in filtered)", "    return dict(x.split('=')[:2] for x in filtered)", ['R13.4']),
    M('single-default-mapped', F, "        d.addCallback(lambda kw: list(kw.values())[0])", "        d.addCallback(lambda kw: list(kw.values())[0] or DEFAULT_VALUE)", ['R13.5']),
]
TWINS = [
    M('single-folded-lambda', F, "        d.addCallback(parse_keywords, key_hints=[key])\n        d.addCallback(lambda values: values[key])", "        d.addCallback(lambda raw: parse_keywords(raw, key_hints=[key])[key])"),
    M('regex-split-correct', F, ["def parse_keywords(lines, multiline_values=True, key_hints=None):", "        sp = line.split('=', 1)\n        found_key = ('=' in line and ' ' not in sp[0])\n        if found_key and key_hints and sp[0] not in key_hints:", "            (key, value) = line.split('=', 1)\n"],
      ["_KW = re.compile(r'^([^= ]+)=(.*)$', re.DOTALL)\n\n\ndef parse_keywords(lines, multiline_values=True, key_hints=None):", "        m = _KW.match(line)\n        found_key = m is not None\n        if found_key and key_hints and m.group(1) not in key_hints:", "            (key, value) = m.groups()\n"]),
    M('store-helper-correct', F, ["""    # FIXME could use some refactoring to reduce code duplication!
    all_lines""", """                if key in rtn:
                    if isinstance(rtn[key], list):
                        rtn[key].append(unquote(value))
                    else:
                        rtn[key] = [rtn[key], unquote(value)]
                else:
                    rtn[key] = unquote(value)
""", """        if key in rtn:
            if isinstance(rtn[key], list):
                rtn[key].append(unquote(value))
            else:
                rtn[key] = [rtn[key], unquote(value)]
        else:
            rtn[key] = unquote(value)
    return rtn
"""], ["""
    def add_value(key, value):
        if key in rtn:
            if isinstance(rtn[key], list):
                rtn[key].append(value)
            else:
                rtn[key] = [rtn[key], value]
        else:
            rtn[key] = value

    all_lines""", "                add_value(key, unquote(value))\n", "        add_value(key, unquote(value))\n    return rtn\n"]),
    M('hints-list', F, "        d.addCallback(parse_keywords, key_hints=args)", "        d.addCallback(parse_keywords, key_hints=list(args))"),
    M('dot-index-test', F, "        if line.startswith('.'):\n            line = line[1:]\n", "        if line[:1] == '.':\n            line = line[1:]\n"),
]
