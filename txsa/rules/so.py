"""R-SO: util.SingleObserver is a guard-and-latch one-shot (shared by C03/C05/C08/C19)."""
import ast

from .common import *  # noqa


def so_class(run):
    return run.idx.cls('SingleObserver', 'util')


def so_fields(idx):
    """attribute names assigned a SingleObserver() anywhere in the package."""
    out = set()
    for u in idx.all_units():
        for n in walk_unit(u):
            if isinstance(n, ast.Assign) and isinstance(n.value, ast.Call) and \
                    (dotted(n.value.func) or '').split('.')[-1] == 'SingleObserver':
                for t in n.targets:
                    d = dotted(t)
                    if d:
                        out.add(d.split('.')[-1])
    return out


def check_so(run, rid):
    so = so_class(run)
    fire = run.idx.find_method(so, 'fire')
    wf = run.idx.find_method(so, 'when_fired')
    af = run.idx.find_method(so, 'already_fired')
    if not (fire and wf and af):
        raise AnchorVanished('SingleObserver.fire/when_fired/already_fired')
    # ---- fire: every normal path either leaves early under "already fired" with no callback,
    # or stores the value, calls back each observer once (one loop), then latches.
    g = cfg_of(fire)

    def cls(a):
        if isinstance(a, ast.Call) and callee_attr(a) in ('callback', 'errback'):
            return 'cb'
        if isinstance(a, ast.Assign):
            v = assign_to(a, 'self._observers')
            if v is not None:
                return 'latch' if is_none(v) else 'rebind'
            if assign_to(a, 'self._fired') is not None:
                return 'store'
        return None
    latch_tests = slot_tests(g, 'self._observers') + fired_tests(g)
    for p in g.paths(loop_bound=2):
        run.paths_enumerated += 1
        if p.exit == 'raise':
            continue
        eff = path_effects(p, cls)
        tags = [t for t, _, _ in eff]
        already = path_says_fired(p, latch_tests)
        loops = [lab for n, lab in p.steps if n.kind == 'iter']
        if already:
            run.ob(rid, fire, fire.node, 'SingleObserver.fire: a second fire notifies nobody and stores nothing',
                   'cb' not in tags and 'store' not in tags, slot='fire-guard',
                   message='SingleObserver.fire calls observers / overwrites the value although it has already fired (%s)' % p.describe())
        else:
            niter = loops.count('body')
            run.ob(rid, fire, fire.node, 'SingleObserver.fire: first fire stores the value, then latches',
                   'store' in tags and 'latch' in tags and tags.index('store') < (tags.index('cb') if 'cb' in tags else len(tags)),
                   slot='fire-latch',
                   message='SingleObserver.fire: first fire does not store the value before notifying and latch afterwards (%s)' % p.describe())
            run.ob(rid, fire, fire.node, 'SingleObserver.fire: each observer called back once per iteration',
                   tags.count('cb') == niter, slot='fire-fanout',
                   message='SingleObserver.fire: %d callbacks for %d observers' % (tags.count('cb'), niter))
    guard = [t for t in g.live if t.kind == 'test']
    run.ob(rid, fire, fire.node, 'SingleObserver.fire has an already-fired guard', bool(latch_tests), slot='fire-has-guard',
           message='SingleObserver.fire has no already-fired test (fires observers again, or iterates None)')
    # ---- when_fired (it may delegate the fired leg to already_fired(d): seen with that call written out)
    if any(is_call_to(c, 'self.already_fired') for c in calls_in(wf)):
        from ..normalize import force_inline
        import copy as _copy
        nn = force_inline(wf.node, af.node, True)
        if nn is not None:
            wf = _copy.copy(wf)
            wf.node = nn
    g = cfg_of(wf)

    def cls2(a):
        if isinstance(a, ast.Call) and callee_attr(a) == 'callback':
            return 'cb'
        if isinstance(a, ast.Call) and (dotted(a.func) or '') == 'self._observers.append':
            return 'register'
        return None
    tests = fired_tests(g) + slot_tests(g, 'self._observers')
    run.ob(rid, wf, wf.node, 'when_fired tests the fired state', bool(tests), slot='when-has-test',
           message='SingleObserver.when_fired does not test whether it has fired')
    for p in g.paths():
        run.paths_enumerated += 1
        if p.exit == 'raise':
            continue
        tags = [t for t, _, _ in path_effects(p, cls2)]
        fired = path_says_fired(p, tests)
        if fired:
            ok = tags == ['cb']
            msg = 'fired leg must call back the new Deferred at once and not register it'
        else:
            ok = tags == ['register']
            msg = 'not-fired leg must register the Deferred and not fire it'
        run.ob(rid, wf, wf.node, 'when_fired: %s' % msg, ok, slot='when-%s' % ('fired' if fired else 'pending'),
               message='SingleObserver.when_fired: %s; effects=%s on %s' % (msg, tags, p.describe()))
        ret = [n.ast for n, _ in p.steps if n.kind == 'stmt' and isinstance(n.ast, ast.Return)]
        okr = bool(ret) and isinstance(ret[-1].value, ast.Name)
        run.ob(rid, wf, wf.node, 'when_fired returns the Deferred', okr, slot='when-return',
               message='SingleObserver.when_fired does not return the Deferred')
    # ---- re-entrancy: an observer's callback may itself call when_fired(); that request must not be lost.
    # If when_fired decides by the stored value, fire stores it before the loop (checked above).  If it decides by
    # the latched slot (None only after the loop), the request is appended to the list while the loop runs, so the
    # loop must walk that live list, not a copy.
    by_slot = bool(slot_tests(g, 'self._observers')) and not fired_tests(g)
    if by_slot:
        for lp in [n for n in walk_unit(fire) if isinstance(n, ast.For)]:
            live = dotted(lp.iter) == 'self._observers'
            run.ob(rid, fire, lp, 'a when_fired() made from inside an observer callback is still notified', live, slot='reentrant-request',
                   message='when_fired() decides by "self._observers is None" (true only after fire\'s loop) while fire iterates %s: a request '
                           'made from inside an observer callback is appended to a list nobody walks and then discarded' % src(lp.iter))
    # ---- already_fired
    g = cfg_of(af)
    tests = fired_tests(g) + slot_tests(g, 'self._observers')
    run.ob(rid, af, af.node, 'already_fired tests the fired state', bool(tests), slot='already-has-test',
           message='SingleObserver.already_fired does not test whether it has fired')
    for p in g.paths():
        run.paths_enumerated += 1
        if p.exit == 'raise':
            continue
        tags = [t for t, _, _ in path_effects(p, cls2)]
        fired = path_says_fired(p, tests)
        ret = [n.ast for n, _ in p.steps if n.kind == 'stmt' and isinstance(n.ast, ast.Return)]
        rv = const(ret[-1].value) if ret and ret[-1].value is not None else None
        if fired:
            ok = tags == ['cb'] and rv is True
        else:
            ok = tags == [] and rv is False
        run.ob(rid, af, af.node, 'already_fired: calls back and returns True iff fired', ok,
               slot='already-%s' % ('fired' if fired else 'pending'),
               message='SingleObserver.already_fired: fired=%s effects=%s returns %r' % (fired, tags, rv))
    # ---- every .fire( receiver is a SingleObserver field
    fields = so_fields(run.idx)
    n = 0
    for u in run.idx.all_units():
        for a in walk_unit(u):
            if isinstance(a, ast.Attribute) and a.attr == 'fire':
                d = dotted(a.value)
                n += 1
                ok = d is not None and d.split('.')[-1] in fields
                run.ob(rid, u, a, '.fire receivers are SingleObserver fields', ok, slot='fire-recv@%s:%s' % (u.short, d),
                       message='%s.fire used in %s but %s is not a SingleObserver field' % (d, u.short, d))
    run.floor(rid, '.fire( sites on SingleObserver fields', n, 12)
    run.floor(rid, 'SingleObserver fields', len(fields), 6)


def fired_tests(g):
    """[(test, label_meaning_fired)] for tests on self._fired / self.has_fired()."""
    out = []
    for t in g.live:
        if t.kind != 'test':
            continue
        a = t.ast
        if isinstance(a, ast.Call) and dotted(a.func) == 'self.has_fired':
            out.append((t, 'T'))
        elif isinstance(a, ast.Compare) and dotted(a.left) == 'self._fired' and len(a.ops) == 1 and \
                dotted(a.comparators[0]) in ('self._NotFired', 'SingleObserver._NotFired'):
            if isinstance(a.ops[0], ast.IsNot):
                out.append((t, 'T'))
            elif isinstance(a.ops[0], ast.Is):
                out.append((t, 'F'))
    return out


def slot_tests(g, text):
    """tests of `text is None` (T means fired/latched) or truthiness."""
    out = []
    for t in g.live:
        if t.kind != 'test':
            continue
        a = t.ast
        if isinstance(a, ast.Compare) and dotted(a.left) == text and len(a.ops) == 1 and is_none(a.comparators[0]):
            if isinstance(a.ops[0], ast.Is):
                out.append((t, 'T'))
            elif isinstance(a.ops[0], ast.IsNot):
                out.append((t, 'F'))
    return out


def path_says_fired(p, tests):
    for n, lab in p.steps:
        for t, fired_lab in tests:
            if n is t and lab in ('T', 'F'):
                return lab == fired_lab
    return False
