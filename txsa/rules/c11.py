"""C11 - config view equals Tor's configuration, with stable types, across change events."""
import ast

from .common import *  # noqa
from .c10 import TC, CU, MOD

PRIVATE_KEYS = ('EphemeralOnionServices', 'DetachedOnionServices')


def _excluding_edges(g, vname):
    """(key_edges, value_edges): CFG edges whose being taken establishes "not a list-typed
    option" (tests on the option name) / "this value is not a list" (isinstance on the value)."""
    key_edges, value_edges = set(), set()
    for t in g.live:
        if t.kind != 'test':
            continue
        a = t.ast
        if isinstance(a, ast.Call) and (dotted(a.func) or '').split('.')[-1] == 'is_list_config_type':
            key_edges.add((t.id, 'F'))
        elif isinstance(a, ast.Compare) and len(a.ops) == 1 and dotted(a.comparators[0]) == 'self.list_parsers':
            key_edges.add((t.id, 'F' if isinstance(a.ops[0], ast.In) else 'T'))
        elif isinstance(a, ast.Call) and dotted(a.func) == 'isinstance' and len(a.args) == 2 and dotted(a.args[1]) == 'list' \
                and vname and dotted(a.args[0]) == vname:
            value_edges.add((t.id, 'F'))
    return key_edges, value_edges


def _def_excluded(g, dnode, store, vname):
    """every path entry -> dnode -> store (no other definition of vname in between) takes an
    excluding edge: a name test anywhere, or an isinstance test on the value after dnode."""
    key_edges, value_edges = _excluding_edges(g, vname)
    reach_d = g.reachable([g.entry], skip_edges=key_edges)
    if dnode not in reach_d:
        return True
    after = g.reachable([s_ for lab, s_ in dnode.succ if (dnode.id, lab) not in key_edges | value_edges],
                        avoid=lambda n: n is not store and node_assigns(n, vname), skip_edges=key_edges | value_edges)
    return store not in after


def r11_1(run):
    tc = TC(run)
    k = 0
    # save(): a list-typed option that was assigned a scalar (a str for a *Port option, whose parser is String) becomes a
    # one-element list before it is stored, so that it is wrapped like every other list value
    sv = CU(run, 'save')
    gsv = cfg_of(sv)
    listify = [n for n in gsv.real_nodes() if n.kind == 'stmt' and isinstance(n.ast, ast.Assign) and isinstance(n.ast.value, ast.List) and len(n.ast.value.elts) == 1
               and assigned_targets(n.ast) == [dotted(n.ast.value.elts[0])]]
    okl = False
    for n in listify:
        gd = gsv.guarded_by(n, lambda t: isinstance(t, ast.Compare) and dotted(t.comparators[0]) == 'self.list_parsers' and isinstance(t.ops[0], ast.In))
        wraps_after = [m for m in gsv.reachable([s_ for _, s_ in n.succ], follow_exc=False) if m.kind == 'stmt' and isinstance(m.ast, ast.Assign)
                       and isinstance(m.ast.value, ast.Call) and dotted(m.ast.value.func) == '_ListWrapper']
        if any(lab == 'T' for _, lab in gd) and wraps_after:
            okl = True
    run.ob('R11.1', sv, sv.node, 'save(): a list-typed option given as a scalar is stored as a (tracked) one-element list', okl, slot='save-listify',
           message='save() stores whatever the parser returns: for a list option whose parser yields a str (*Port options use String) the option turns '
                   'into a plain str and stops being a tracked list')
    for u in class_units(run.idx, tc):
        g = None
        defs = local_defs(u)
        for n in walk_unit(u):
            if not (isinstance(n, ast.Assign) and isinstance(n.targets[0], ast.Subscript) and dotted(n.targets[0].value) == 'self.config'):
                continue
            key = n.targets[0].slice
            kc = const(key)
            if kc in PRIVATE_KEYS:
                continue
            k += 1
            g = g or cfg_of(u)
            v = n.value
            ok, why = False, src(v)[:60]
            vname = v.id if isinstance(v, ast.Name) else None
            cands = []
            if vname:
                for cn in g.nodes_containing(n):
                    for rd in reaching_defs(g, cn, vname):
                        cands.append((rd, cn))
            all_ok = True
            if not vname:
                ok_direct = isinstance(v, ast.Call) and dotted(v.func) == '_ListWrapper'
                if not ok_direct:
                    for cn in g.nodes_containing(n):
                        ke, _ = _excluding_edges(g, None)
                        if cn in g.reachable([g.entry], skip_edges=ke):
                            all_ok = False
                cands = [None]
            for item in (cands if vname else []):
                rd, cn = item
                dv = def_value(rd, vname)
                if isinstance(dv, ast.Call) and dotted(dv.func) == '_ListWrapper':
                    continue
                if rd.kind == 'iter' and 'self.unsaved' in src(rd.ast.iter):
                    continue    # pending values: __setattr__ wraps lists, mark_unsaved copies wrapped ones
                if isinstance(dv, ast.Name):
                    # a plain copy of the pending value (saved = value)
                    rd2 = reaching_defs(g, rd, dv.id)
                    if rd2 and all(r.kind == 'iter' and 'self.unsaved' in src(r.ast.iter) for r in rd2):
                        continue
                if _def_excluded(g, rd, cn, vname):
                    continue
                all_ok = False
                why = (src(dv)[:60] if dv is not None else rd.text()[:60])
            ok = all_ok and bool(cands)
            run.ob('R11.1', u, n, 'a value stored for an option that may be list-typed is a tracked _ListWrapper', ok,
                   slot='store@%s:%s' % (u.short, src(key)),
                   message='%s stores %s under self.config[%s] without wrapping it: after this, reading a list-valued option '
                           'gives a plain list/str (in-place edits are no longer tracked; shape differs from bootstrap)' % (u.short, why, src(key)))
    run.floor('R11.1', 'stores into self.config under a Tor option key', k, 8)
    # __setattr__ wraps lists before they enter unsaved
    sa = CU(run, '__setattr__')
    g = cfg_of(sa)
    for n in walk_unit(sa):
        if isinstance(n, ast.Assign) and isinstance(n.targets[0], ast.Subscript) and dotted(n.targets[0].value) == 'self.unsaved':
            vn = dotted(n.value)
            wraps = [x for x in walk_unit(sa) if isinstance(x, ast.Assign) and dotted(x.targets[0]) == vn and isinstance(x.value, ast.Call)
                     and dotted(x.value.func) == '_ListWrapper']
            ok = False
            for w in wraps:
                for wn in g.nodes_containing(w):
                    gd = g.guarded_by(wn, lambda t: isinstance(t, ast.Call) and dotted(t.func) == 'isinstance' and dotted(t.args[0]) == vn and dotted(t.args[1]) == 'list')
                    if any(lab == 'T' for _, lab in gd):
                        ok = True
            run.ob('R11.1', sa, n, 'assigned lists are wrapped before becoming pending', ok, slot='setattr-wraps', message='__setattr__ stores an unwrapped list into unsaved')


def r11_2(run):
    fr = CU(run, '_find_real_name')
    cmps = [n for n in walk_unit(fr) if isinstance(n, ast.Compare) and len(n.ops) == 1 and isinstance(n.ops[0], ast.Eq)]
    ok = bool(cmps) and all(src(c.left).endswith('.lower()') and src(c.comparators[0]).endswith('.lower()') for c in cmps)
    run.ob('R11.2', fr, fr.node, '_find_real_name compares lower-cased names on both sides', ok, slot='lower-both',
           message='_find_real_name compares %s' % [src(c) for c in cmps])
    its = [n for n in walk_unit(fr) if isinstance(n, (ast.For,))]
    # (wherever the candidate tables are named: a list built first, an itertools.chain, a generator expression)
    keys_src = ' '.join(sorted(set(src(x) for x in walk_unit(fr) if isinstance(x, (ast.Subscript, ast.Attribute)) and (src(x).endswith("['parsers']") or src(x).endswith("['config']") or src(x) in ('self.parsers', 'self.config')))))
    run.ob('R11.2', fr, fr.node, 'candidates are the parser and config keys', 'parsers' in keys_src and 'config' in keys_src, slot='candidates', message='_find_real_name searches %s' % keys_src[:80])
    # entry points use the resolved name for every table subscript
    for name, param_idx in (('__getattr__', 1), ('__setattr__', 1), ('mark_unsaved', 1), ('_conf_changed', None)):
        u = CU(run, name)
        g = cfg_of(u)
        ext = u.params[param_idx] if param_idx is not None else None
        if name == '_conf_changed':
            loops = [n for n in walk_unit(u) if isinstance(n, ast.For)]
            ext = loops[0].target.elts[0].id if loops and isinstance(loops[0].target, ast.Tuple) else None
        subs = [n for n in walk_unit(u) if isinstance(n, ast.Subscript) and dotted(n.value) in ('self.config', 'self.parsers', 'self.unsaved')]
        run.floor('R11.2', 'table subscripts in %s' % name, len(subs), 1)
        for sb in subs:
            kn = sb.slice
            ok = False
            why = src(kn)
            if isinstance(kn, ast.Call) and dotted(kn.func) == 'self._find_real_name':
                ok = True
            elif isinstance(kn, ast.Name):
                for cn in g.nodes_containing(sb):
                    vals = [def_value(rd, kn.id) for rd in reaching_defs(g, cn, kn.id)]
                    ok = bool(vals) and all(v is not None and isinstance(v, ast.Call) and dotted(v.func) == 'self._find_real_name' for v in vals)
                    why = '%s defined by %s' % (kn.id, [src(v) if v is not None else '<parameter>' for v in vals])
            run.ob('R11.2', u, sb, '%s indexes %s with the case-insensitively resolved name' % (name, dotted(sb.value)), ok, slot='resolved:%s:%s' % (name, dotted(sb.value)),
                   message='%s indexes %s with %s: option names would be matched case-sensitively' % (name, dotted(sb.value), why))


def r11_3(run):
    """the unset sentinel never reaches a scalar type parser"""
    idx = run.idx
    base = idx.cls('TorConfigType', MOD)
    raising = set()
    for c in [base] + idx.subclasses(base):
        m = idx.find_method(c, 'parse')
        if m is not None and any(isinstance(n, ast.Call) and dotted(n.func) in ('int', 'float') for n in walk_unit(m)):
            raising.add(c.name)
    run.floor('R11.3', 'scalar parsers that raise on non-numeric text', len(raising), 4)
    sites = 0
    for name in ('_do_setup', '_conf_changed'):
        u = CU(run, name)
        g = cfg_of(u)
        for c in calls_in(u):
            if callee_attr(c) != 'parse' or not isinstance(receiver(c), ast.Subscript) or dotted(receiver(c).value) != 'self.parsers':
                continue
            sites += 1
            arg = c.args[0] if c.args else None
            may_default = False
            why = ''
            cnodes = g.nodes_containing(c)
            # is this site on a leg known to be a list parser?
            list_leg = any(any((lab == 'T') for t, lab in g.guarded_by(cn, lambda t: isinstance(t, ast.Call) and (dotted(t.func) or '').endswith('is_list_config_type')))
                           for cn in cnodes) or \
                any(any((lab == 'T') == isinstance(t.ast.ops[0], ast.In) for t, lab in
                        g.guarded_by(cn, lambda t: isinstance(t, ast.Compare) and dotted(t.comparators[0]) == 'self.list_parsers')) for cn in cnodes)
            if list_leg:
                run.ob('R11.3', u, c, 'list parsers may see the sentinel (result compared with [DEFAULT_VALUE])', True)
                continue
            # the parser is known to be String() on this leg (assigned just above): parse is the identity, nothing can raise
            key_src = src(receiver(c).slice)
            strp = [n for n in g.real_nodes() if n.kind == 'stmt' and isinstance(n.ast, ast.Assign) and isinstance(n.ast.targets[0], ast.Subscript)
                    and dotted(n.ast.targets[0].value) == 'self.parsers' and src(n.ast.targets[0].slice) == key_src
                    and isinstance(n.ast.value, ast.Call) and dotted(n.ast.value.func) == 'String']
            if strp and all(any(g.dominates(sn, cn) for sn in strp) for cn in cnodes):
                run.ob('R11.3', u, c, 'the parser on this leg is String() (identity)', True)
                continue
            # explicit fallback to the sentinel: x.get(k, DEFAULT_VALUE)
            if isinstance(arg, ast.Call) and callee_attr(arg) == 'get' and len(arg.args) == 2 and dotted(arg.args[1]) == 'DEFAULT_VALUE':
                may_default = True
                why = 'argument %s falls back to DEFAULT_VALUE' % src(arg)
            elif isinstance(arg, ast.Name):
                # value from parse_keywords / get_conf: sentinel possible unless a dominating comparison excludes it
                excluded = False
                for cn in cnodes:
                    gd = g.guarded_by(cn, lambda t: isinstance(t, ast.Compare) and dotted(t.left) == arg.id and
                                      dotted(t.comparators[0]) == 'DEFAULT_VALUE')
                    for t, lab in gd:
                        if (isinstance(t.ast.ops[0], (ast.Eq, ast.Is)) and lab == 'F') or (isinstance(t.ast.ops[0], (ast.NotEq, ast.IsNot)) and lab == 'T'):
                            excluded = True
                if not excluded:
                    may_default = True
                    why = '%s may be DEFAULT_VALUE (an option Tor reports as unset) and no dominating test excludes it' % arg.id
            run.ob('R11.3', u, c, 'the unset sentinel does not reach a scalar parser', not may_default, slot='sentinel@%s:%s' % (name, src(arg)[:30]),
                   message='%s: %s; Integer/Port/Boolean/Float parsers then raise ValueError (int(\'DEFAULT\')) and abort %s' % (
                       name, why, 'the whole bootstrap' if name == '_do_setup' else 'the change event'))
    run.floor('R11.3', 'parser.parse call sites in bootstrap/change handler', sites, 4)
    # type flow: parsers take the raw string Tor sent; a value already in list form (the [] placeholder for an unset list
    # option, or a looked-up default list) must not reach one (CommaList.parse would call [].split)
    for name in ('_do_setup', '_conf_changed'):
        u = CU(run, name)
        g = cfg_of(u)
        for c in calls_in(u):
            if callee_attr(c) != 'parse' or not c.args or not isinstance(c.args[0], ast.Name):
                continue
            for cn in g.nodes_containing(c):
                for dnode in reaching_defs(g, cn, c.args[0].id):
                    v = def_value(dnode, c.args[0].id)
                    listy = isinstance(v, ast.List) or (isinstance(v, ast.Call) and callee_attr(v) == 'get' and len(v.args) == 2 and isinstance(v.args[1], ast.List))
                    if listy:
                        run.ob('R11.3', u, c, 'a value already in list form does not reach a type parser', False, slot='list-to-parser@%s' % name,
                               message='%s: %s can hold %s (a list) when it is handed to %s: comma-list parsers call .split on it and the handler '
                                       'aborts, leaving the view stale' % (name, c.args[0].id, src(v)[:40], src(c.func)[:40]))
            run.ob('R11.3', u, c, 'parser argument examined for list-typed definitions', True)
    ga = CU(run, '__getattr__')
    ok = any(isinstance(n, ast.Compare) and dotted(n.comparators[0]) == 'DEFAULT_VALUE' for n in walk_unit(ga)) and \
        any(isinstance(n, ast.Call) and callee_attr(n) == 'get' and '_defaults' in src(n) for n in walk_unit(ga))
    run.ob('R11.3', ga, ga.node, 'reads map the unset sentinel to the option default', ok, slot='getattr-default', message='__getattr__ no longer maps DEFAULT_VALUE to _defaults')


def list_types_agree(run, rid):
    """is_list_config_type(klass) is evaluated (statically, from its AST) for every declared option type and compared with what that
    type's parse() returns: exactly the types whose parse() gives a list are list types.  Recognised forms: a literal in
    klass.__name__, klass.__name__ in [...], klass in <tuple of classes>, issubclass(klass, ...), and / or / not."""
    m = run.idx.module(MOD)
    il = run.idx.unit(MOD + '.is_list_config_type')
    base = run.idx.cls('TorConfigType', MOD)
    declared = sorted(c.name for c in run.idx.subclasses(base))
    kp = il.params[0]
    rets = [r for r in walk_unit(il) if isinstance(r, ast.Return)]
    if len(rets) != 1:
        raise Undecided('is_list_config_type: not a single return expression')

    def class_set(e):
        if isinstance(e, ast.Name) and isinstance(m.assigns.get(e.id), (ast.Tuple, ast.List)):
            e = m.assigns[e.id]
        if isinstance(e, (ast.Tuple, ast.List)):
            return [dotted(x) for x in e.elts]
        if isinstance(e, ast.Name):
            return [e.id]
        return None

    def ev(e, cname):
        if isinstance(e, ast.BoolOp):
            vs = [ev(x, cname) for x in e.values]
            if any(v is None for v in vs):
                return None
            return all(vs) if isinstance(e.op, ast.And) else any(vs)
        if isinstance(e, ast.UnaryOp) and isinstance(e.op, ast.Not):
            v = ev(e.operand, cname)
            return None if v is None else (not v)
        if isinstance(e, ast.Compare) and len(e.ops) == 1 and isinstance(e.ops[0], (ast.In, ast.NotIn)):
            l, r = e.left, e.comparators[0]
            res = None
            if isinstance(const(l), str) and dotted(r) == kp + '.__name__':
                res = const(l) in cname
            elif dotted(l) == kp + '.__name__' and isinstance(const(r), (list, tuple)):
                res = cname in const(r)
            elif dotted(l) == kp and class_set(r) is not None:
                res = cname in class_set(r)
            if res is None:
                return None
            return res if isinstance(e.ops[0], ast.In) else (not res)
        if isinstance(e, ast.Call) and dotted(e.func) == 'issubclass' and len(e.args) == 2 and dotted(e.args[0]) == kp:
            cs = class_set(e.args[1])
            if cs is None:
                return None
            c = run.idx.cls(cname, MOD)
            return any(x.simple in cs for x in run.idx.mro(c))
        return None
    k = 0
    for cname in declared:
        c = run.idx.cls(cname, MOD)
        pm = run.idx.find_method(c, 'parse')
        prets = [r for r in walk_unit(pm) if isinstance(r, ast.Return)] if pm is not None else []
        gives_list = bool(prets) and all(isinstance(r.value, (ast.ListComp, ast.List)) or (isinstance(r.value, ast.Call) and dotted(r.value.func) == 'list') for r in prets)
        verdict = ev(rets[0].value, cname)
        k += 1
        run.ob(rid, il, il.node, 'option type %s is %sa list type' % (cname, '' if gives_list else 'not '), None if verdict is None else (verdict == gives_list),
               slot='is-list:%s' % cname,
               message='is_list_config_type(%s) is %s but %s.parse() returns %s: options of that type are %s' % (
                   cname, verdict, cname, 'a list' if gives_list else 'a scalar',
                   'stored as plain untracked lists (in-place edits are never sent)' if gives_list else 'wrapped as lists'))
    run.floor(rid, 'declared option types', k, 8)


def r11_4(run):
    """bootstrap: every listed option gets its declared parser and a GETCONF; change events are subscribed"""
    ds = CU(run, '_do_setup')
    bs = CU(run, 'bootstrap')
    ok = any(callee_attr(c) == 'add_event_listener' and c.args and const(c.args[0]) == 'CONF_CHANGED' and dotted(c.args[1]) == 'self._conf_changed' for c in calls_in(bs))
    run.ob('R11.4', bs, bs.node, 'bootstrap subscribes _conf_changed to CONF_CHANGED', ok, slot='subscribe', message='bootstrap does not subscribe to CONF_CHANGED')
    names = [dotted(c.args[0]) for c in calls_in(bs) if callee_attr(c) in ('addCallback',) and c.args]
    if 'self._do_setup' not in names:
        # not a callback chain here: the same order written as a coroutine (yield self._do_setup(...) before do_post_bootstrap), possibly
        # in a helper bootstrap hands the listing to
        seq = []
        for u_ in [bs] + [m for m in TC(run).methods.values() if m is not bs and any(dotted(c.func) == 'self.' + m.name or (c.args and dotted(c.args[0]) == 'self.' + m.name) for c in calls_in(bs))]:
            for n_ in walk_unit(u_):
                if isinstance(n_, ast.Call) and dotted(n_.func) in ('self._do_setup', 'self.do_post_bootstrap'):
                    seq.append((n_.lineno, dotted(n_.func), isinstance(getattr(n_, '_parent', None), ast.Yield)))
        seq.sort()
        fs = [f for _, f, _ in seq]
        if 'self._do_setup' in fs and 'self.do_post_bootstrap' in fs:
            raise Undecided('bootstrap: _do_setup / do_post_bootstrap are not chained with addCallback here (coroutine form): order not decided by this rule')
    ok = 'self._do_setup' in names and 'self.do_post_bootstrap' in names and names.index('self._do_setup') < names.index('self.do_post_bootstrap')
    run.ob('R11.4', bs, bs.node, 'ready only after _do_setup', ok, slot='order', message='bootstrap chain is %s' % names)
    eb = [dotted(c.args[0]) for c in calls_in(bs) if callee_attr(c) == 'addErrback' and c.args]
    run.ob('R11.4', bs, bs.node, 'bootstrap failures reach post_bootstrap', 'self.do_post_errback' in eb, slot='errback', message='bootstrap chain has no do_post_errback')
    # parser chosen by declared type name from config_types
    loops = [n for n in walk_unit(ds) if isinstance(n, ast.For) and dotted(n.iter) == 'config_types']
    ok = bool(loops) and any(isinstance(x, ast.Compare) and '__name__' in src(x) for lp in loops for x in ast.walk(lp))
    if not ok:
        # the same as a table: {cls.__name__: cls for cls in config_types} (dict(...) of a generator, or a dict comprehension) looked up
        # with the declared type name
        tables = names_defined_by(ds, lambda v: any(isinstance(c_, ast.comprehension) and dotted(c_.iter) == 'config_types' for c_ in ast.walk(v)) and '__name__' in src(v))
        ok = any((isinstance(x, ast.Subscript) and dotted(x.value) in tables) or (isinstance(x, ast.Call) and callee_attr(x) == 'get' and dotted(receiver(x)) in tables)
                 for x in walk_unit(ds))
    run.ob('R11.4', ds, ds.node, 'parser instance chosen by the declared type name', ok, slot='parser-by-type', message='_do_setup no longer selects the parser by type name')
    m = run.idx.module(MOD)
    ct = m.assigns.get('config_types')
    listed = set(dotted(e) for e in ct.elts) if isinstance(ct, ast.List) else set()
    base = run.idx.cls('TorConfigType', MOD)
    declared = set(c.name for c in run.idx.subclasses(base))
    run.ob('R11.4', m.rel, ct, 'every declared config type is selectable', declared <= listed, slot='types-listed', message='types not in config_types: %s' % sorted(declared - listed))
    il = run.idx.unit(MOD + '.is_list_config_type')
    list_types_agree(run, 'R11.4')
    for cname in sorted(declared):
        c = run.idx.cls(cname, MOD)
        pm = run.idx.find_method(c, 'parse')
        islist = 'List' in cname
        rets = [r for r in walk_unit(pm) if isinstance(r, ast.Return)]
        if islist:
            ok = bool(rets) and all(isinstance(r.value, (ast.ListComp, ast.List)) or (isinstance(r.value, ast.Call) and dotted(r.value.func) == 'list') for r in rets)
            run.ob('R11.4', pm, pm.node, '%s.parse returns a list on every path' % cname, ok, slot='list-parse:%s' % cname, message='%s.parse returns %s' % (cname, [src(r.value)[:30] for r in rets]))


def names_value(u, name):
    d = single_def(local_defs(u), name)
    return d[1] if d is not None and d[0] == 'expr' else None


def r11_5(run):
    """siblings: both places that turn Tor's answer into a scalar value consult the option default
    when Tor reports the option unset, and parse it like any other value"""
    for name, dmap in (('_do_setup', 'defaults'), ('_conf_changed', 'self._defaults')):
        u = CU(run, name)
        g = cfg_of(u)
        found = False
        for n in g.real_nodes():
            if n.kind != 'stmt' or not isinstance(n.ast, ast.Assign):
                continue
            v = n.ast.value
            calls = [c for c in ast.walk(v) if isinstance(c, ast.Call) and callee_attr(c) == 'get' and 'defaults' in (dotted(receiver(c)) or src(receiver(c)))
                     and len(c.args) == 2 and dotted(c.args[1]) == 'DEFAULT_VALUE']
            if not calls:
                continue
            gd = g.guarded_by(n, lambda t: isinstance(t, ast.Compare) and dotted(t.comparators[0]) == 'DEFAULT_VALUE' and isinstance(t.ops[0], (ast.Eq, ast.Is)))
            sentinel_leg = any(lab == 'T' for _, lab in gd) or any(
                n in g.reachable([s_ for lab, s_ in t.succ if lab == 'T'])
                for t in g.live if t.kind == 'test' and isinstance(t.ast, ast.Compare) and dotted(t.ast.comparators[0]) == 'DEFAULT_VALUE'
                and isinstance(t.ast.ops[0], (ast.Eq, ast.Is)))
            # the looked-up default must flow into the parser (same variable later parsed, or parsed directly)
            tgt = assigned_targets(n.ast)
            parsed_directly = any(isinstance(c, ast.Call) and callee_attr(c) == 'parse' for c in ast.walk(v))
            parsed_later = any(isinstance(c, ast.Call) and callee_attr(c) == 'parse' and c.args and dotted(c.args[0]) in tgt
                               for x in g.reachable([s_ for _, s_ in n.succ]) if x.kind in ('stmt', 'test') for c in node_asts(x))
            if sentinel_leg and (parsed_directly or parsed_later):
                found = True
        run.ob('R11.5', u, u.node, '%s: an unset scalar option takes the (parsed) default Tor reported' % name, found, slot='default-lookup:%s' % name,
               message='%s no longer looks the option default up when Tor reports the option unset: the value degrades to the '
                       'raw marker / raw default string and changes type' % name)
    # "set to the empty string / no values" is not "unset": a default is substituted only for the unset marker, so no test for
    # emptiness (== '', truthiness, len) may lead to a default lookup
    for name in ('_do_setup', '_conf_changed'):
        u = CU(run, name)
        g = cfg_of(u)
        lookups = [n for n in g.real_nodes() if n.kind == 'stmt' and isinstance(n.ast, ast.Assign) and any(
            (isinstance(c, ast.Call) and callee_attr(c) == 'get' and 'defaults' in (dotted(receiver(c)) or src(receiver(c)))) or
            (isinstance(c, ast.Subscript) and 'defaults' in (dotted(c.value) or '')) for c in ast.walk(n.ast.value))]
        for t in g.live:
            if t.kind != 'test':
                continue
            a = t.ast
            empt = None
            if isinstance(a, ast.Compare) and len(a.ops) == 1 and isinstance(a.ops[0], (ast.Eq, ast.NotEq)) and const(a.comparators[0]) in ('', [], b''):
                empt = 'T' if isinstance(a.ops[0], ast.Eq) else 'F'
            elif isinstance(a, ast.Name) and a.id in ('v', 'value', 'parsed'):
                empt = 'F'
            if empt is None:
                continue
            def is_unset_test(n):
                return n.kind == 'test' and any(dotted(x) == 'DEFAULT_VALUE' for x in ast.walk(n.ast))
            # the lookup is reached from the "empty" leg without any test for the unset marker in between, and is not
            # simply code that follows the whole if-statement (reachable the same way from the other leg)
            leg = g.reachable([s_ for lab, s_ in t.succ if lab == empt], avoid=is_unset_test, follow_exc=False)
            other = g.reachable([s_ for lab, s_ in t.succ if lab not in (empt, 'exc')], avoid=is_unset_test, follow_exc=False)
            hit = [n for n in lookups if n in leg and n not in other]
            # list options only: for scalar options the code (and the unedited test_default_port) deliberately reads '' as unset
            def on_list_leg(n):
                return any(lab == 'T' for t_, lab in g.guarded_by(n, lambda x: isinstance(x, ast.Call) and (dotted(x.func) or '').endswith('is_list_config_type'))) or \
                    any((lab == 'T') == isinstance(t_.ast.ops[0], ast.In) for t_, lab in g.guarded_by(n, lambda x: isinstance(x, ast.Compare) and dotted(x.comparators[0]) == 'self.list_parsers'))
            # (that reading is pinned for the bootstrap answers only: a CONF_CHANGED line "Key=" says the option was set to the empty string)
            hit = [n for n in hit if on_list_leg(n) or name == '_conf_changed']
            run.ob('R11.5', u, a, 'an empty value (of a list option; of any option in a change event) is not treated as unset', not hit, slot='empty-not-unset:%s' % name,
                   message='%s: when %s says the value is empty, the option default is substituted: an option Tor reports as explicitly empty shows its '
                           'defaults, and a later edit + save sends those defaults to Tor' % (name, src(a)[:40]))
    # port lists: when config/defaults has no entry for an unset / auto port option, its __FooPort default is asked for.
    # The fallback must be chosen per key (KeyError on defaults[key] / a membership test), not by whether the map is empty.
    ds = CU(run, '_do_setup')
    gds = cfg_of(ds)
    fb = []
    for c in calls_in(ds):
        if callee_attr(c) in ('get_conf_single', 'get_conf') and c.args:
            a = c.args[0]
            v = a
            if isinstance(a, ast.Name):
                dv = names_value(ds, a.id)
                v = dv if dv is not None else a
            sh = shape(v)
            if sh and isinstance(sh[0], str) and sh[0].startswith('__'):
                fb.append(c)
    run.floor('R11.5', '__FooPort fallback queries in _do_setup', len(fb), 1)
    for c in fb:
        per_key = False
        for t in [x for x in walk_unit(ds) if isinstance(x, ast.Try)]:
            in_handler = any(c is y for h in t.handlers for b in h.body for y in ast.walk(b)
                             if h.type is None or (dotted(h.type) or '').split('.')[-1] in ('KeyError', 'LookupError', 'Exception'))
            subs = any(isinstance(y, ast.Subscript) and 'defaults' in (dotted(y.value) or '') for b in t.body for y in ast.walk(b))
            if in_handler and subs:
                per_key = True
        for cn in gds.nodes_containing(c):
            for t, lab in gds.guarded_by(cn, lambda t: isinstance(t, ast.Compare) and len(t.ops) == 1 and isinstance(t.ops[0], (ast.In, ast.NotIn))
                                         and 'defaults' in (dotted(t.comparators[0]) or '')):
                if (lab == 'T') == isinstance(t.ast.ops[0], ast.NotIn):
                    per_key = True
        run.ob('R11.5', ds, c, 'the __FooPort default is consulted whenever config/defaults lacks that port', per_key, slot='port-default-fallback',
               message='_do_setup asks for the __FooPort default only when the whole defaults map is empty / on some other condition: with a Tor that reports '
                       'defaults for other options but not this port, an unset or auto port list reads [] instead of its default')
    # list_parsers: writers and the change-event reader agree on the key form (raw vs lower-cased)
    tc = TC(run)
    forms = {}
    for u in class_units(run.idx, tc):
        for c in calls_in(u):
            if dotted(c.func) == 'self.list_parsers.add' and c.args:
                a = c.args[0]
                form = 'lower' if (isinstance(a, ast.Call) and callee_attr(a) == 'lower') else 'raw'
                forms.setdefault(form, []).append((u, c))
    cc = CU(run, '_conf_changed')
    tests = [n for n in walk_unit(cc) if isinstance(n, ast.Compare) and dotted(n.comparators[0]) == 'self.list_parsers']
    rforms = set('lower' if (isinstance(t.left, ast.Call) and callee_attr(t.left) == 'lower') else 'raw' for t in tests)
    run.floor('R11.5', 'list_parsers.add sites', sum(len(v) for v in forms.values()), 2)
    ok = len(forms) == 1 and len(rforms) == 1 and set(forms) == rforms
    where = forms.get('lower', forms.get('raw', [(cc, cc.node)]))[0]
    run.ob('R11.5', where[0], where[1], 'list-option names are recorded and looked up in one key form', ok, slot='list_parsers-key-form',
           message='self.list_parsers is written with %s keys and read by _conf_changed with %s keys: some list options are not '
                   'recognised as lists after a change event' % (sorted(forms), sorted(rforms)))


def r11_7(run):
    sa = CU(run, '__setattr__')
    g = cfg_of(sa)
    for t in g.live:
        if t.kind == 'test' and '_ListWrapper' in src(t.ast):
            run.ob('R11.7', sa, t.ast, 'every assigned list is wrapped for its own option', False, slot='wrap-every-list',
                   message='__setattr__ skips wrapping when the value is already a _ListWrapper: list-valued options then share one tracked list bound to the wrong option name')
    run.ob('R11.7', sa, sa.node, 'wrap tests examined', True)
    from . import c10
    c10.wrap_always(run, 'R11.7')


def r11_14(run):
    """save() leaves a pending tracked list in place: the list the caller read and edited is the object the view keeps after the
    save (only a value that was *not* a list - a string assigned to a list option - is parsed and wrapped).  Re-wrapping a tracked
    list copies it: the caller's handle then edits an orphan whose change callback marks the *copy* pending, and the next save
    sends the old values"""
    sv = CU(run, 'save')
    g = cfg_of(sv)
    k = 0
    for c in calls_in(sv):
        if dotted(c.func) != '_ListWrapper' or not c.args or not isinstance(c.args[0], ast.Name):
            continue
        nm = c.args[0].id
        for n in g.nodes_containing(c):
            k += 1
            # (the pending value under its own name, or under the name it was copied from: saved = value)
            alias = set([nm]) | set(dotted(a.value) for a in walk_unit(sv) if isinstance(a, ast.Assign) and assign_to(a, nm) is not None and isinstance(a.value, ast.Name))
            gd = g.guarded_by(n, lambda t: isinstance(t, ast.Call) and dotted(t.func) == 'isinstance' and len(t.args) == 2 and dotted(t.args[0]) in alias and dotted(t.args[1]) == 'list')
            fresh = any(lab == 'F' for _, lab in gd)
            run.ob('R11.14', sv, c, 'save() wraps only values that were not lists; a pending tracked list stays the same object', fresh, slot='save-keeps-list-identity',
                   message='save() builds a new _ListWrapper from %s also when the pending value already is a (tracked) list: the view then holds a copy, the list the '
                           'caller read and edited is orphaned, and its next edit is saved with the old values' % nm)
    run.floor('R11.14', '_ListWrapper constructions in save', k, 1)


def _from_pending(u):
    """local names of u whose value comes out of the pending set (self.unsaved), by fixpoint over assignments and loop targets"""
    def pend(e, tainted):
        t = src(e)
        return 'self.unsaved' in t or "__dict__['unsaved']" in t or any(isinstance(x, ast.Name) and x.id in tainted for x in ast.walk(e))
    tainted = set()
    while True:
        before = len(tainted)
        for n in walk_unit(u):
            if isinstance(n, (ast.For, ast.comprehension)) and pend(n.iter, tainted):
                tainted.update(x.id for x in ast.walk(n.target) if isinstance(x, ast.Name))
            elif isinstance(n, ast.Assign) and pend(n.value, tainted):
                for t in n.targets:
                    tainted.update(x.id for x in ast.walk(t) if isinstance(x, ast.Name) and isinstance(x.ctx, ast.Store))
        if len(tainted) == before:
            return tainted


def r11_15(run):
    """the view (self.config) equals Tor's configuration: it takes a *pending* value only inside save(), at the moment that value
    is put into the SETCONF.  Any other method that copies from self.unsaved into self.config publishes values Tor was never sent
    (an acknowledgement callback reads the pending set at completion time - it also holds what was assigned while the SETCONF
    was in flight)"""
    tc = TC(run)
    sv = CU(run, 'save')
    k = 0
    for u in [m for c in run.idx.mro(tc) for m in c.methods.values()]:
        if u is sv or u.name in ('__init__',):
            continue
        tainted = None
        for n in walk_unit(u):
            stores = []
            if isinstance(n, ast.Assign):
                stores = [(t, n.value) for t in n.targets if isinstance(t, ast.Subscript) and dotted(t.value) in ('self.config', "self.__dict__['config']")]
            elif isinstance(n, ast.Call) and callee_attr(n) in ('update', 'setdefault', '__setitem__') and dotted(n.func.value) == 'self.config' and n.args:
                stores = [(n, n.args[-1])]
            for t, v in stores:
                k += 1
                if tainted is None:
                    tainted = _from_pending(u)
                bad = 'self.unsaved' in src(v) or any(isinstance(x, ast.Name) and x.id in tainted for x in ast.walk(v))
                run.ob('R11.15', u, n, 'a store into the view outside save() does not take its value from the pending set', not bad, slot='publish-pending@%s' % u.name,
                       message='%s writes %s into the view from the pending set: values assigned while a SETCONF was in flight (never sent to Tor) '
                               'become what reads return, and the pending state is then cleared' % (u.name, src(v)[:50]))
    run.floor('R11.15', 'stores into the view outside save()', k, 6)


def const_str(e):
    return e.value if isinstance(e, ast.Constant) and isinstance(e.value, str) else None


def _mode_key(run):
    """the 'no Tor yet' mode flag: the string key K tested as `K in self.__dict__` by __getattr__ before it answers from the pending set"""
    ga = CU(run, '__getattr__')
    keys = set()
    for n in walk_unit(ga):
        if isinstance(n, ast.Compare) and len(n.ops) == 1 and isinstance(n.ops[0], (ast.In, ast.NotIn)) and isinstance(n.left, ast.Constant) \
                and isinstance(n.left.value, str) and dotted(n.comparators[0]) in ('self.__dict__', 'o.__dict__'):
            keys.add(n.left.value)
    if len(keys) != 1:
        raise Undecided('__getattr__: mode flag not recognised (%s)' % sorted(keys))
    return keys.pop()


def _clears(run, a, key, depth=0):
    """statement/expression a removes self.__dict__[key] (directly, or by an unconditional statement of a called self method)"""
    for x in ast.walk(a):
        if isinstance(x, ast.Delete) and any(isinstance(t, ast.Subscript) and dotted(t.value) == 'self.__dict__' and const_str(t.slice) == key for t in x.targets):
            return True
        if isinstance(x, ast.Call) and callee_attr(x) == 'pop' and dotted(x.func.value) == 'self.__dict__' and x.args and const_str(x.args[0]) == key:
            return True
        if isinstance(x, ast.Call) and isinstance(x.func, ast.Attribute) and dotted(x.func.value) == 'self' and depth < 2:
            m = run.idx.find_method(TC(run), x.func.attr)
            if m is not None and any(_clears(run, st, key, depth + 1) for st in m.node.body if not isinstance(st, (ast.If, ast.For, ast.While, ast.Try, ast.FunctionDef))):
                return True
    return False


def r11_16(run):
    """a TorConfig made without a protocol answers reads from the *pending* set and skips validation ("accept all" mode, for
    launch()); attaching it to a Tor must end that mode - otherwise the view keeps reporting local assignments instead of what Tor
    returned and sends unvalidated values.  Typestate: every normal path through a method that installs a protocol removes the flag"""
    key = _mode_key(run)
    tc = TC(run)
    k = 0
    for u in [m for c in run.idx.mro(tc) for m in c.methods.values()]:
        if u.name == '__init__':
            continue
        inst = [n for n in walk_unit(u) if isinstance(n, ast.Assign) and any(isinstance(t, ast.Subscript) and dotted(t.value) == 'self.__dict__' and const_str(t.slice) == '_protocol'
                                                                            for t in n.targets) and not (isinstance(n.value, ast.Constant) and n.value.value is None)]
        if not inst:
            continue
        g = cfg_of(u)
        for a in inst:
            for n in g.nodes_containing(a):
                k += 1
                r = g.reachable([g.entry], avoid=lambda x: x.ast is not None and x.kind == 'stmt' and _clears(run, x.ast, key), follow_exc=False)
                through = n in r
                esc = [e for e in g.normal_exits() if e in r] if through else []
                # the path must also contain the installation: entry ->* n ->* exit without a clearing node
                if esc:
                    r2 = g.reachable([n], avoid=lambda x: x.ast is not None and x.kind == 'stmt' and _clears(run, x.ast, key), follow_exc=False)
                    esc = [e for e in g.normal_exits() if e in r2]
                run.ob('R11.16', u, a, 'installing a protocol ends accept-all mode on every normal path', not esc, slot='leave-accept-all@%s' % u.name,
                       message="%s installs a protocol but can return with %r still in __dict__: reads keep answering from the pending set, "
                               "assignments skip the option type's validate()" % (u.name, key))
    run.floor('R11.16', 'protocol installations outside __init__', k, 1)
    # and only the constructor enters the mode
    for u in [m for c in run.idx.mro(tc) for m in c.methods.values()]:
        for n in walk_unit(u):
            if isinstance(n, ast.Assign) and any(isinstance(t, ast.Subscript) and dotted(t.value) == 'self.__dict__' and const_str(t.slice) == key for t in n.targets):
                run.ob('R11.16', u, n, 'accept-all mode is entered only by the constructor', u.name == '__init__', slot='enter-accept-all@%s' % u.name,
                       message='%s switches the view to accept-all mode' % u.name)


def r11_17(run):
    """a change event can arrive while the bootstrap is still asking for option values (every GETCONF is a yield): _conf_changed
    and __getattr__ read Tor's defaults from self._defaults, so that table is in place before the first option value is awaited.
    Publishing it only after the loop leaves a window in which an option reported unset is stored as the raw marker / an empty
    list and never revisited"""
    u = CU(run, '_do_setup')
    g = cfg_of(u)
    stores = [n for n in g.real_nodes() if n.kind == 'stmt' and isinstance(n.ast, ast.Assign) and any(
        (isinstance(t, ast.Subscript) and dotted(t.value) == 'self.__dict__' and const_str(t.slice) == '_defaults') or dotted(t) == 'self._defaults' for t in n.ast.targets)]
    run.floor('R11.17', 'stores of the defaults table in _do_setup', len(stores), 1)
    waits = [n for n in g.real_nodes() if n.kind == 'stmt' and any(isinstance(a, ast.Yield) and isinstance(a.value, ast.Call) and callee_attr(a.value) in ('get_conf', 'get_conf_raw')
                                                                  for a in node_asts(n))]
    run.floor('R11.17', 'awaited GETCONF sites in _do_setup', len(waits), 1)
    for w in waits:
        ok = any(g.dominates(s_, w) for s_ in stores)
        run.ob('R11.17', u, w.ast, "Tor's defaults are published before the first option value is awaited", ok, slot='defaults-before-getconf',
               message='_do_setup awaits %s before self._defaults is set: a CONF_CHANGED that reports an already loaded option as unset in that window finds no '
                       'defaults (scalar: raw marker, list: empty) and the loop never revisits the option' % src(w.ast)[:50])


def r11_8(run):
    from . import c10
    c10.wrapper_callbacks(run, 'R11.8')


def r11_9(run):
    """list leg of the change handler, by path enumeration over (value is the unset marker, a type parser is known, the value is a
    list by then): unset -> the option's default list (never parsed); otherwise parsed exactly once when a parser is known;
    a scalar result is put in a list; the result is always wrapped, last."""
    cc = CU(run, '_conf_changed')
    g = cfg_of(cc)
    lt = [t for t in g.live if t.kind == 'test' and isinstance(t.ast, ast.Compare) and dotted(t.ast.comparators[0]) == 'self.list_parsers' and isinstance(t.ast.ops[0], (ast.In, ast.NotIn))]
    run.floor('R11.9', 'list-option tests in _conf_changed', len(lt), 1)
    # (the wrapped list may be assigned back to the value variable first, or stored into the view directly)
    wraps = [n for n in g.real_nodes() if n.kind == 'stmt' and isinstance(n.ast, ast.Assign) and isinstance(n.ast.value, ast.Call) and dotted(n.ast.value.func) == '_ListWrapper'
             and n.ast.value.args and isinstance(n.ast.value.args[0], ast.Name)]
    run.floor('R11.9', 'wrap sites in _conf_changed', len(wraps), 1)
    V = wraps[0].ast.value.args[0].id

    def eff(n):
        if n in wraps:
            return 'wrap'
        if n.kind != 'stmt' or not isinstance(n.ast, ast.Assign) or V not in assigned_targets(n.ast):
            return None
        v = n.ast.value
        if isinstance(v, ast.Call) and callee_attr(v) == 'get' and 'defaults' in (dotted(receiver(v)) or ''):
            return 'default'
        if isinstance(v, ast.Call) and callee_attr(v) == 'parse':
            return 'parse'
        if isinstance(v, ast.List) and len(v.elts) == 1 and dotted(v.elts[0]) == V:
            return 'listify'
        return 'other'
    k = 0
    for S in (True, False):
        for P in (True, False):
            for L in (True, False):
                def hook(node, val, trail, S=S, P=P, L=L):
                    a = node.ast
                    if node in lt:
                        return isinstance(a.ops[0], ast.In)
                    if isinstance(a, ast.Compare) and dotted(a.left) == V and dotted(a.comparators[0]) == 'DEFAULT_VALUE' and len(a.ops) == 1:
                        changed = any(eff(n) for n, _ in trail)
                        if changed:
                            return None
                        return S if isinstance(a.ops[0], (ast.Eq, ast.Is)) else (not S)
                    if isinstance(a, ast.Compare) and dotted(a.comparators[0]) == 'self.parsers' and isinstance(a.ops[0], (ast.In, ast.NotIn)):
                        return P if isinstance(a.ops[0], ast.In) else (not P)
                    if isinstance(a, ast.Call) and dotted(a.func) == 'isinstance' and len(a.args) == 2 and dotted(a.args[0]) == V and dotted(a.args[1]) == 'list':
                        effs = [eff(n) for n, _ in trail if eff(n)]
                        if 'default' in effs or 'listify' in effs:
                            return True
                        return L
                    return None
                for p_ in g.paths(eval_hook=hook, loop_bound=1, follow_exc=False):
                    run.paths_enumerated += 1
                    if p_.exit == 'raise' or not any(n in wraps for n, _ in p_.steps):
                        continue
                    effs = [eff(n) for n, _ in p_.steps if eff(n)]
                    k += 1
                    desc = 'unset=%s parser=%s list=%s' % (S, P, L)
                    if S:
                        ok = effs.count('default') == 1 and 'parse' not in effs
                        want = 'the default list, unparsed'
                    elif P:
                        ok = effs.count('parse') == 1 and 'default' not in effs
                        want = 'the value parsed once'
                    else:
                        ok = 'parse' not in effs and 'default' not in effs
                        want = 'the value as it is'
                    islist = S or L or 'listify' in effs
                    if 'other' in effs:
                        # the value is rebound by something this rule has no reading for (a temporary of an inlined helper, a new
                        # operation): what the leg does to the value is not known - not a finding
                        run.undecide('R11.9', cc.qual, '_conf_changed list leg [%s]: the value is rebound by an operation the rule does not read (%s)' % (desc, effs))
                        continue
                    ok = ok and islist and effs[-1] == 'wrap' and effs.count('wrap') == 1 and 'other' not in effs
                    run.ob('R11.9', cc, cc.node, 'list option in a change event [%s]: %s, as a list, wrapped' % (desc, want), ok, slot='list-leg:%s' % desc,
                           message='_conf_changed list leg [%s] does %s (wanted %s, a list, wrapped last)' % (desc, effs, want), path=p_.describe(10))
    run.floor('R11.9', 'list-leg paths', k, 6)


def r11_10(run):
    """change events are parsed with parse_keywords(multiline_values=False): an option listed several times in one event keeps all its
    values (rule R13.3 on parse_keywords, shared)"""
    from . import c13
    # (without the trailing-OK clause: for event payloads the trailing OK really is the terminator)
    borrow(run, lambda r: c13.r13_3(r, ok_rule=False), 'R11.10')


def _list_typed(v, g, n, listvars):
    """is the expression certainly a list?"""
    if isinstance(v, (ast.List, ast.ListComp)):
        return True
    if isinstance(v, ast.Call) and dotted(v.func) in ('list', 'sorted', '_ListWrapper'):
        return True
    if isinstance(v, ast.Name) and v.id in listvars:
        return True
    if isinstance(v, ast.BinOp) and isinstance(v.op, ast.Add) and (_list_typed(v.left, g, n, listvars) or _list_typed(v.right, g, n, listvars)):
        return True
    if isinstance(v, ast.Call) and callee_attr(v) == 'parse':
        # the result of a *list* type parser (R11.4: list parsers return lists) - known from a dominating list-type test
        gd = g.guarded_by(n, lambda x: isinstance(x, ast.Call) and (dotted(x.func) or '').endswith('is_list_config_type'))
        return any(lab == 'T' for _, lab in gd)
    return False


_depth = [0]


def must_be_list(g, site, name):
    """forward must-analysis over the CFG: at `site`, is `name` a list on every path?  Facts: assigned a list-typed expression;
    the true leg of isinstance(name, list); a value that survived `if not isinstance(name, list): name = [name]`."""
    order = list(g.live)
    state = dict((n.id, None) for n in order)       # None = unvisited (top), True = list, False = maybe not
    edge_in = {}
    work = [g.entry]
    state[g.entry.id] = False

    def out_state(n, lab):
        cur = state[n.id]
        if n.kind == 'stmt' and isinstance(n.ast, (ast.Assign, ast.AugAssign)) and name in assigned_targets(n.ast) and lab != 'exc':
            if isinstance(n.ast, ast.Assign) and isinstance(n.ast.targets[0], ast.Name):
                v_ = n.ast.value
                if isinstance(v_, ast.Name) and v_.id != name and _depth[0] < 3:
                    # a plain copy: a list exactly when the copied local is one here
                    _depth[0] += 1
                    try:
                        return must_be_list(g, n, v_.id)
                    finally:
                        _depth[0] -= 1
                return _list_typed(v_, g, n, set([name]) if cur else set())
            return False
        if n.kind in ('iter',) and isinstance(n.ast, ast.For) and name in [x.id for x in ast.walk(n.ast.target) if isinstance(x, ast.Name)]:
            return False
        if n.kind == 'test' and isinstance(n.ast, ast.Call) and dotted(n.ast.func) == 'isinstance' and len(n.ast.args) == 2 and dotted(n.ast.args[0]) == name \
                and dotted(n.ast.args[1]) == 'list':
            if lab == 'T':
                return True
        return cur
    while work:
        n = work.pop()
        for lab, s_ in n.succ:
            v = out_state(n, lab)
            old = state[s_.id]
            new = v if old is None else (old and v)
            if new != old:
                state[s_.id] = new
                work.append(s_)
    return bool(state.get(site.id))


def r11_11(run):
    """what is handed to _ListWrapper(...) as the list is a list on every path (a str would be split into characters, a list of
    lists would nest): decided by a forward must-be-list analysis of the variable"""
    tc = TC(run)
    k = 0
    for u in class_units(run.idx, tc, include_subclasses=False):
        sites = [c for c in calls_in(u) if dotted(c.func) == '_ListWrapper' and c.args]
        if not sites:
            continue
        g = cfg_of(u)
        for c in sites:
            a = c.args[0]
            for n in g.nodes_containing(c):
                k += 1
                if isinstance(a, ast.Name):
                    ok = must_be_list(g, n, a.id)
                else:
                    ok = _list_typed(a, g, n, set())
                run.ob('R11.11', u, c, 'the value wrapped as a tracked list is a list on every path', ok, slot='wrapped-is-list@%s:%s' % (u.short, src(a)[:20]),
                       message='%s passes %s to _ListWrapper although it can be a str (split into characters) or anything else that is not the flat list of values' % (u.short, src(a)[:30]))
                # ... and a flat one: no list literal around something that may itself be a list
                if isinstance(a, ast.Name):
                    for dn in reaching_defs(g, n, a.id):
                        v = def_value(dn, a.id)
                        if isinstance(v, ast.List) and len(v.elts) == 1 and isinstance(v.elts[0], ast.Call) and callee_attr(v.elts[0]) == 'parse' and v.elts[0].args \
                                and isinstance(v.elts[0].args[0], ast.Name):
                            inner = v.elts[0].args[0].id
                            gd = g.guarded_by(dn, lambda x: isinstance(x, ast.Call) and dotted(x.func) == 'isinstance' and len(x.args) == 2 and dotted(x.args[0]) == inner
                                              and dotted(x.args[1]) == 'list')
                            flat = any(lab == 'F' for _, lab in gd)
                            run.ob('R11.11', u, dn.ast, 'a value that may itself be a list of values is not wrapped in another list', flat, slot='nested-list@%s' % u.short,
                                   message='%s builds [parse(%s)] without knowing that %s is a single value: when Tor reports several lines GETCONF returns a list and the '
                                           'result is nested' % (u.short, inner, inner))
    run.floor('R11.11', '_ListWrapper construction sites in TorConfig', k, 6)


def r11_12(run):
    """(a) a change event is applied to every option it names: no path through one iteration of _conf_changed's loop skips the store
    (a pending local edit, for instance, is no reason to ignore what another controller changed);
    (b) the bootstrap writes each GETCONF answer into the view when it arrives: CONF_CHANGED is subscribed before the GETCONF loop, so
    values collected in a local and published after later suspension points overwrite changes the handler applied meanwhile."""
    cc = CU(run, '_conf_changed')
    g = cfg_of(cc)
    stores = g.nodes_where(lambda n: n.kind == 'stmt' and isinstance(n.ast, ast.Assign) and any(isinstance(t, ast.Subscript) and dotted(t.value) == 'self.config' for t in n.ast.targets))
    loops = [n for n in g.live if n.kind == 'iter' and isinstance(n.ast, ast.For) and any(s_.ast is x for s_ in stores for x in ast.walk(n.ast))]
    run.floor('R11.12', 'event loops in _conf_changed', len(loops), 1)
    for lp in loops:
        start = [s_ for lab, s_ in lp.succ if lab == 'body']
        skip = g.reachable(start, avoid=lambda n: n in stores, follow_exc=False)
        run.ob('R11.12', cc, lp.ast, 'every option named in a change event is stored', lp not in skip and not any(e in skip for e in g.normal_exits()), slot='event-applied-to-all',
               message='_conf_changed can move on to the next option (or return) without storing the reported value: a change made by another controller is '
                       'ignored and reads keep the old value')
    ds = CU(run, '_do_setup')
    ups = [c for c in calls_in(ds) if dotted(c.func) == 'self.config.update' and c.args and isinstance(c.args[0], ast.Name)]
    for c in ups:
        nm = c.args[0].id
        filled_in_loop = any(isinstance(lp_, (ast.For, ast.While)) and any(isinstance(x, (ast.Yield, ast.Await)) for x in ast.walk(lp_)) and
                             any(isinstance(x, ast.Assign) and any(isinstance(t, ast.Subscript) and dotted(t.value) == nm for t in x.targets) for x in ast.walk(lp_))
                             for lp_ in walk_unit(ds))
        run.ob('R11.12', ds, c, 'bootstrap answers are written to the view as they arrive (no late bulk publication)', not filled_in_loop, slot='late-publication',
               message='_do_setup collects the GETCONF answers in %s across its suspension points and publishes them with self.config.update() afterwards: a CONF_CHANGED '
                       'handled in between is overwritten by the older answer' % nm)
    run.ob('R11.12', ds, ds.node, 'bulk publications examined', True)


def _unset_decision(t, lab):
    """did taking edge `lab` of test atom t establish "Tor reported no value" (comparison with the unset marker, '' or 'auto')?"""
    if not (isinstance(t, ast.Compare) and len(t.ops) == 1):
        return False
    c = t.comparators[0]
    marks = [c] + (list(c.elts) if isinstance(c, (ast.List, ast.Tuple)) else [])
    if not any(dotted(m) == 'DEFAULT_VALUE' or const(m) in ('', 'auto') for m in marks):
        return False
    if isinstance(t.ops[0], (ast.Eq, ast.Is, ast.In)):
        return lab == 'T'
    if isinstance(t.ops[0], (ast.NotEq, ast.IsNot, ast.NotIn)):
        return lab == 'F'
    return False


def r11_13(run):
    """bootstrap, per GETCONF answer: on every path from the answer to the store into the view on which no test found the option
    unset, what is stored is computed from the answer (a forward dependency walk along the path: an assignment whose right side
    mentions a dependent name makes its targets dependent, any other assignment clears them)."""
    ds = CU(run, '_do_setup')

    def may_raise(node):
        for x in (ast.walk(node) if not isinstance(node, (ast.If, ast.For, ast.While, ast.Try, ast.With)) else ()):
            if isinstance(x, ast.Subscript) and isinstance(x.ctx, ast.Load) and isinstance(x.value, ast.Name):
                return ['KeyError']
        return None
    g = cfg_of(ds, may_raise=may_raise)
    stores = set(g.nodes_where(lambda n: n.kind == 'stmt' and isinstance(n.ast, ast.Assign) and
                               any(isinstance(t, ast.Subscript) and dotted(t.value) == 'self.config' for t in n.ast.targets)))
    ans = []
    for n in g.real_nodes():
        if n.kind == 'stmt' and isinstance(n.ast, ast.Assign) and isinstance(n.ast.value, (ast.Yield, ast.Await)) and isinstance(n.ast.value.value, ast.Call) \
                and callee_attr(n.ast.value.value) == 'get_conf' and len(n.ast.targets) == 1 and isinstance(n.ast.targets[0], ast.Name):
            ans.append(n)
    run.floor('R11.13', 'GETCONF answers in _do_setup', len(ans), 2)
    loops_ast = [x for x in walk_unit(ds) if isinstance(x, (ast.For, ast.While))]
    k = 0
    for a in ans:
        vname = a.ast.targets[0].id
        for p_ in g.paths(start=a, stop=lambda n: n in stores or n.kind == 'iter', loop_bound=1):
            run.paths_enumerated += 1
            last = p_.last
            if last not in stores:
                continue
            dep = set([vname])
            unset = False
            for n, lab in p_.steps[1:-1]:
                if n.kind == 'test' and _unset_decision(n.ast, lab):
                    unset = True
                if n.kind == 'stmt' and isinstance(n.ast, (ast.Assign, ast.AugAssign)) and lab != 'exc':
                    tg = [x.id for t in (n.ast.targets if isinstance(n.ast, ast.Assign) else [n.ast.target]) for x in ast.walk(t)
                          if isinstance(x, ast.Name) and isinstance(x.ctx, ast.Store)]
                    reads = set(x.id for x in ast.walk(n.ast.value) if isinstance(x, ast.Name))
                    if reads & dep:
                        dep.update(tg)
                    elif isinstance(n.ast, ast.Assign):
                        dep.difference_update(tg)
            used = set(x.id for x in ast.walk(last.ast.value) if isinstance(x, ast.Name))
            # whatever the leg: a local the store reads was assigned for *this* option (on this path, or at a point every path to the
            # store passes inside the loop body) - otherwise it is what an earlier option left behind
            on_path = set()
            for n, lab in p_.steps[:-1]:
                if n.kind == 'stmt' and lab != 'exc' and isinstance(n.ast, (ast.Assign, ast.AugAssign)):
                    on_path.update(assigned_targets(n.ast))
            for nm in sorted(used):
                assigners = [n for n in g.live if n.kind in ('stmt', 'iter') and node_assigns(n, nm)]
                in_loop = [n for n in assigners if any(lp_ is not n.ast and any(x is n.ast for x in ast.walk(lp_)) for lp_ in loops_ast)]
                if not in_loop or nm in on_path:
                    continue
                fresh = any(g.dominates(n, last) for n in in_loop)
                run.ob('R11.13', ds, last.ast, 'a local the store reads was computed for this option', fresh, slot='stale-local:%s:%s' % (src(last.ast.targets[0]), nm),
                       message='_do_setup stores %s on %s, where %s was not assigned for this option: it still holds what an earlier option left in it'
                               % (src(last.ast.value)[:50], p_.describe(8), nm))
            if unset:
                continue
            k += 1
            run.ob('R11.13', ds, last.ast, 'what the view stores for a set option is computed from Tor\'s answer', bool(used & dep),
                   slot='answer-stored:%s' % src(last.ast.targets[0]),
                   message='_do_setup stores %s, which does not depend on the GETCONF answer %s, on %s: the view reports something else than Tor\'s value'
                           % (src(last.ast.value)[:50], vname, p_.describe(8)))
    run.floor('R11.13', 'answer-to-store paths on which the option is set', k, 3)


def r11_6(run):
    us = [CU(run, '_do_setup'), CU(run, '_get_defaults'), run.idx.find_method(TC(run), 'from_protocol')]
    k = dropped_deferreds(run, 'R11.6', [u for u in us if u is not None], 'the configuration bootstrap')
    run.floor('R11.6', 'suspension points in the configuration bootstrap', k, 6)


RULES = [
    ('R11.7', 'every assigned list value gets its own tracked wrapper (no aliasing between options)', r11_7),
    ('R11.8', 'every tracked list\'s modification callback binds its own option name eagerly (partial / lambda default), equal to the key it is stored under', r11_8),
    ('R11.9', 'list leg of _conf_changed by path enumeration over (unset marker, parser known, already a list): default / parse once / listify / wrap last', r11_9),
    ('R11.10', 'parse_keywords keeps every value of a repeated key in both line modes (R13.3 borrowed; CONF_CHANGED uses the one-line mode)', r11_10),
    ('R11.11', 'forward must-be-list analysis: every _ListWrapper(x, ...) in TorConfig gets a flat list on every path', r11_11),
    ('R11.12', 'a change event is applied to every option it names; bootstrap answers are not published late in bulk', r11_12),
    ('R11.13', 'bootstrap: on every answer-to-store path on which the option is set, the stored value depends on the GETCONF answer (path dependency walk)', r11_13),
    ('R11.14', 'save() re-wraps only non-list values (a pending tracked list keeps its identity in the view)', r11_14),
    ('R11.15', 'who may publish: outside save() no store into self.config takes its value from self.unsaved', r11_15),
    ('R11.16', 'mode typestate: a method that installs a protocol leaves accept-all mode on every normal path; only __init__ enters it', r11_16),
    ('R11.17', 'ordering: the defaults table is stored before the first GETCONF of the bootstrap is awaited', r11_17),
    ('R11.6', 'no dropped Deferred in the configuration bootstrap (every GETCONF is awaited before the view is declared ready)', r11_6),
    ('R11.5', 'sibling agreement: default lookup + parse on the unset leg in _do_setup and _conf_changed; key-form agreement of list_parsers writers/reader', r11_5),
    ('R11.1', 'store-site typing: every value stored under a Tor option key that may be list-typed is a _ListWrapper (or excluded by a dominating test / copied from the wrapped pending set)', r11_1),
    ('R11.2', 'name routing: entry points index config/parsers/unsaved only with _find_real_name results; it compares lower() on both sides', r11_2),
    ('R11.3', 'sentinel flow: DEFAULT_VALUE cannot reach a scalar type parser', r11_3),
    ('R11.4', 'bootstrap wiring: CONF_CHANGED subscribed, parser by declared type, list parsers return lists', r11_4),
]

from ..selftest import M  # noqa: E402
F = 'txtorcon/torconfig.py'
MUTANTS = [
    M('ack-publishes-pending', F, "        '''internal callback'''\n        self.__dict__['unsaved'] = {}", "        '''internal callback'''\n        for (key, value) in self.unsaved.items():\n            if isinstance(value, _ListWrapper):\n                self.config[self._find_real_name(key)] = value\n        self.__dict__['unsaved'] = {}", ['R11.15']),
    M('attach-stays-accept-all', F, "        del self.__dict__['_accept_all_']\n", "", ['R11.16']),
    M('attach-leaves-mode-only-when-bootstrapping', F, "        del self.__dict__['_accept_all_']\n        self.__dict__['post_bootstrap'] = defer.Deferred()\n        if proto.post_bootstrap:\n", "        self.__dict__['post_bootstrap'] = defer.Deferred()\n        if proto.post_bootstrap:\n            del self.__dict__['_accept_all_']\n", ['R11.16']),
    M('save-rewraps-tracked-lists', F, "                if isinstance(value, list):\n                    value = _ListWrapper(\n                        value, functools.partial(self.mark_unsaved, real_name))\n            self.config[real_name] = value", "            if isinstance(value, list):\n                value = _ListWrapper(\n                    value, functools.partial(self.mark_unsaved, real_name))\n            self.config[real_name] = value", ['R11.14']),
    M('helper-signature-changed-one-site', F, "    def _find_real_name(self, name):\n", "    def _find_real_name(self, name, strict):\n", ['R-X']),
    M('event-skips-pending-options', F, "            real_name = self._find_real_name(k)\n            if real_name in self.list_parsers:", "            real_name = self._find_real_name(k)\n            if real_name in self.unsaved:\n                continue\n            if real_name in self.list_parsers:", ['R11.12']),
    M('single-default-line-as-str', F, "                    parsed = defaults.get(rn, [])\n                    if not isinstance(parsed, list):\n                        parsed = [parsed]  # just one default line\n", "                    parsed = defaults.get(rn, [])\n", ['R11.11']),
    M('unset-scalar-keeps-previous-option', F, "                    parsed = DEFAULT_VALUE\n                else:\n                    parsed = self.parsers[rn].parse(v)", "                    pass\n                else:\n                    parsed = self.parsers[rn].parse(v)", ['R11.13']),
    M('port-list-answer-dropped', F, "                    initial = [self.parsers[rn].parse(x) for x in v]\n", "                    pass\n", ['R11.13']),
    M('scalar-answer-dropped', F, "                else:\n                    parsed = self.parsers[rn].parse(v)\n                self.config[rn] = parsed", "                else:\n                    parsed = DEFAULT_VALUE\n                self.config[rn] = parsed", ['R11.13']),
    M('port-values-nested', F, "                elif isinstance(v, list):\n                    initial = [self.parsers[rn].parse(x) for x in v]\n                else:", "                else:", ['R11.11']),
    M('saved-string-stays-string', F, "                if real_name in self.list_parsers and not isinstance(value, list):\n                    value = [value]\n", "", ['R11.1']),
    M('empty-list-gets-defaults', F, "                parsed = self.parsers[rn].parse(v)\n                if parsed == [DEFAULT_VALUE]:\n                    parsed = defaults.get(rn, [])", "                if v == '' or v == DEFAULT_VALUE:\n                    parsed = defaults.get(rn, [])\n                else:\n                    parsed = self.parsers[rn].parse(v)", ['R11.5']),
    M('list-leg-unset-negated', F, "                if v == DEFAULT_VALUE:\n                    v = self._defaults.get(real_name, [])\n                elif real_name in self.parsers:", "                if v != DEFAULT_VALUE:\n                    v = self._defaults.get(real_name, [])\n                elif real_name in self.parsers:", ['R11.9']),
    M('list-leg-no-default', F, "                if v == DEFAULT_VALUE:\n                    v = self._defaults.get(real_name, [])\n                elif real_name in self.parsers:", "                if v == DEFAULT_VALUE:\n                    pass\n                elif real_name in self.parsers:", ['R11.9']),
    M('list-leg-not-parsed', F, "                elif real_name in self.parsers:\n                    v = self.parsers[real_name].parse(v)\n                if not isinstance(v, list):", "                elif real_name in self.parsers:\n                    pass\n                if not isinstance(v, list):", ['R11.9']),
    M('list-leg-no-listify', F, "                if not isinstance(v, list):\n                    v = [v]\n                v = _ListWrapper(", "                v = _ListWrapper(", ['R11.9']),
    M('port-default-by-map-truthiness', F, "                    try:\n                        initial = defaults[name[:-5]]\n                        if not isinstance(initial, list):\n                            initial = [initial]  # just one default line\n                    except KeyError:\n", "                    if defaults:\n                        initial = list(defaults.get(name[:-5], []))\n                    else:\n", ['R11.5']),
    M('default-list-parsed', F, "                    v = self._defaults.get(real_name, [])\n                elif real_name in self.parsers:", "                    v = self._defaults.get(real_name, [])\n                if real_name in self.parsers:", ['R11.3']),
    M('conf-changed-late-bound-callback', F, "                v = _ListWrapper(\n                    v, functools.partial(self.mark_unsaved, real_name))\n            else:\n                if v == DEFAULT_VALUE:", "                v = _ListWrapper(v, lambda: self.mark_unsaved(real_name))\n            else:\n                if v == DEFAULT_VALUE:", ['R11.8']),
    M('post-bootstrap-not-awaited', F, "        cfg = TorConfig(control=proto)\n        yield cfg.post_bootstrap", "        cfg = TorConfig(control=proto)\n        cfg.post_bootstrap", ['R11.6']),
    M('conf-changed-unwrapped', F, "                v = _ListWrapper(\n                    v, functools.partial(self.mark_unsaved, real_name))\n            else:\n                if v == DEFAULT_VALUE:", "                pass\n            else:\n                if v == DEFAULT_VALUE:", ['R11.1']),
    M('conf-changed-plain-parse', F, "            if real_name in self.list_parsers:\n                # same shape", "            if False and real_name in self.list_parsers:\n                # same shape", ['R11.1']),
    M('save-unwrapped', F, "                if real_name in self.list_parsers and not isinstance(value, list):\n                    value = [value]\n                if isinstance(value, list):\n                    value = _ListWrapper(\n                        value, functools.partial(self.mark_unsaved, real_name))\n", "", ['R11.1']),
    M('setup-list-unwrapped', F, "                        parsed = [parsed]  # just one default line\n                self.config[rn] = _ListWrapper(\n                    parsed, functools.partial(self.mark_unsaved, rn))", "                        parsed = [parsed]  # just one default line\n                self.config[rn] = parsed", ['R11.1']),
    M('getattr-raw-name', F, "        self._maybe_create_listwrapper(rn)\n        v = self.config[rn]", "        self._maybe_create_listwrapper(rn)\n        v = self.config[name]", ['R11.2']),
    M('find-real-name-one-lower', F, "            if x.lower() == name.lower():", "            if x.lower() == name:", ['R11.2']),
    M('conf-changed-raw-key', F, "            self.config[real_name] = v\n\n    def bootstrap", "            self.config[k] = v\n\n    def bootstrap", ['R11.2']),
    M('setup-sentinel-parsed', F, "                if v == DEFAULT_VALUE:\n                    # unset and Tor didn't tell us a default;\n                    # __getattr__ knows about this marker\n                    parsed = DEFAULT_VALUE\n                else:\n                    parsed = self.parsers[rn].parse(v)", "                parsed = self.parsers[rn].parse(v)", ['R11.3']),
    M('event-sentinel-parsed', F, "                if real_name in self.parsers and v != DEFAULT_VALUE:\n                    v = self.parsers[real_name].parse(v)", "                if real_name in self.parsers:\n                    v = self.parsers[real_name].parse(v)", ['R11.3']),
    M('no-conf-changed-subscription', F, "            d = self.protocol.add_event_listener(\n                'CONF_CHANGED', self._conf_changed)", "            d = self.protocol.add_event_listener(\n                'CONF_CHANGED', lambda _: None)", ['R11.4']),
    M('commalist-returns-str', F, "class CommaList(TorConfigType):\n    def parse(self, s):\n        return [x.strip() for x in s.split(',')]", "class CommaList(TorConfigType):\n    def parse(self, s):\n        return s", ['R11.4']),
]
TWINS = [
    M('event-list-leg-stores-wrapper-directly', F, "                v = _ListWrapper(\n                    v, functools.partial(self.mark_unsaved, real_name))\n            else:", "                self.config[real_name] = _ListWrapper(\n                    v, functools.partial(self.mark_unsaved, real_name))\n                continue\n            else:"),
    M('port-default-by-membership', F, "                    try:\n                        initial = defaults[name[:-5]]\n                        if not isinstance(initial, list):\n                            initial = [initial]  # just one default line\n                    except KeyError:\n", "                    if name[:-5] in defaults:\n                        initial = defaults[name[:-5]]\n                        if not isinstance(initial, list):\n                            initial = [initial]\n                    else:\n"),
    M('conf-changed-default-bound-lambda', F, "                v = _ListWrapper(\n                    v, functools.partial(self.mark_unsaved, real_name))\n            else:\n                if v == DEFAULT_VALUE:", "                v = _ListWrapper(v, lambda n=real_name: self.mark_unsaved(n))\n            else:\n                if v == DEFAULT_VALUE:"),
    M('conf-changed-not-in', F, "            if real_name in self.list_parsers:\n                # same shape as _do_setup produces: a tracked list,\n                # whether Tor reports zero, one or many values\n                if v == DEFAULT_VALUE:\n                    v = self._defaults.get(real_name, [])\n                elif real_name in self.parsers:\n                    v = self.parsers[real_name].parse(v)\n                if not isinstance(v, list):\n                    v = [v]\n                v = _ListWrapper(\n                    v, functools.partial(self.mark_unsaved, real_name))\n            else:\n                if v == DEFAULT_VALUE:\n                    v = self._defaults.get(real_name, DEFAULT_VALUE)\n                if real_name in self.parsers and v != DEFAULT_VALUE:\n                    v = self.parsers[real_name].parse(v)\n",
      "            if real_name not in self.list_parsers:\n                if v == DEFAULT_VALUE:\n                    v = self._defaults.get(real_name, DEFAULT_VALUE)\n                if real_name in self.parsers and v != DEFAULT_VALUE:\n                    v = self.parsers[real_name].parse(v)\n            else:\n                if v == DEFAULT_VALUE:\n                    v = self._defaults.get(real_name, [])\n                elif real_name in self.parsers:\n                    v = self.parsers[real_name].parse(v)\n                if not isinstance(v, list):\n                    v = [v]\n                v = _ListWrapper(\n                    v, functools.partial(self.mark_unsaved, real_name))\n"),
]
