"""C08 - one notification per transition; built/closed waits complete exactly once."""
import ast

from .common import *  # noqa
from . import c07
from . import so
from .c07 import TS, TU, stream_cls, circuit_cls, top_of, replay, attach_effect

CIRC_ORACLE = {'LAUNCHED': ['circuit_launched'], 'BUILT': ['circuit_built'], 'CLOSED': ['circuit_closed'],
               'FAILED': ['circuit_failed'], 'EXTENDED': [], '<OTHER>': []}
STREAM_ORACLE = {'NEW': ['stream_new'], 'SUCCEEDED': ['stream_succeeded'], 'CLOSED': ['stream_closed'],
                 'FAILED': ['stream_failed'], 'DETACHED': ['stream_detach'], 'REMAP': [], 'SENTCONNECT': [],
                 'SENTRESOLVE': [], 'CONTROLLER_WAIT': []}


def fanout_method(loop):
    """for x in self.listeners: x.<m>(...)  ->  m (only direct calls on the loop variable)."""
    if not (isinstance(loop.target, ast.Name) and dotted(loop.iter) in ('self.listeners',) or
            (isinstance(loop.iter, ast.Call) and loop.iter.args and dotted(loop.iter.args[0]) == 'self.listeners')):
        return None
    tv = loop.target.id if isinstance(loop.target, ast.Name) else None
    ms = [callee_attr(c) for c in ast.walk(loop) if isinstance(c, ast.Call) and isinstance(c.func, ast.Attribute)
          and dotted(c.func.value) == tv]
    return ms


def r08_1(run):
    # ---- circuits
    cu = run.idx.find_method(circuit_cls(run), 'update')
    g = cfg_of(cu)
    loops = [n for n in walk_unit(cu) if isinstance(n, ast.For) and fanout_method(n)]
    run.floor('R08.1', 'listener fan-out loops in Circuit.update', len(loops), 5)
    for S, want in sorted(CIRC_ORACLE.items()):
        for first in (True, False):
            env = {'self.state': S, 'self.id': None if first else 7}
            paths = g.paths(eval_hook=hook_for_env(env, frozen_after_write=False), loop_bound=1,
                            pure_calls=('self.update_path', 'self._create_flags', 'self.maybe_call_closing_deferred'))
            run.paths_enumerated += len(paths)
            seen = set()
            for p in paths:
                if p.exit == 'raise':
                    continue
                got = []
                entered = {}
                for n, lab in p.steps:
                    if n.kind == 'iter' and n.ast in loops:
                        entered[id(n.ast)] = entered.get(id(n.ast), 0) + (1 if lab == 'body' else 0)
                # every fan-out loop reached on the path counts once (it runs for every listener)
                for n, lab in p.steps:
                    if n.kind == 'iter' and n.ast in loops and lab == 'exit':
                        got += fanout_method(n.ast)
                exp = (['circuit_new'] if first else []) + want
                key = (tuple(got))
                if key in seen:
                    continue
                seen.add(key)
                run.ob('R08.1', cu, cu.node, 'Circuit.update[%s%s] notifies exactly %s' % (S, ', first sight' if first else '', exp),
                       sorted(got) == sorted(exp), slot='circuit:%s:%s' % (S, 'new' if first else 'known'),
                       message='Circuit.update for %s%s notifies %s, expected %s' % (S, ' (first sight)' if first else '', got, exp), path=p.describe(8))
    # ---- streams
    su = run.idx.find_method(stream_cls(run), 'update')

    def may_raise(node):
        return None
    g = cfg_of(su)
    ncalls = [c for c in calls_in(su, 'self._notify')]
    run.floor('R08.1', '_notify calls in Stream.update', len(ncalls), 6)
    for S, want in sorted(STREAM_ORACLE.items()):
        for init in (('None', 'unlisted'), ('Some', 'listed')):
            def hook(node, val, trail, S=S, init=init):
                C, L, _ = replay(trail, init)
                a = node.ast
                r = eval_small(a, {'self.state': S})
                if r is not UNKNOWN and mentions(a, 'self.state'):
                    return bool(r)
                if dotted(a) == 'self.circuit':
                    return C == 'Some'
                if isinstance(a, ast.Compare) and dotted(a.left) == 'self.circuit' and len(a.ops) == 1 and is_none(a.comparators[0]):
                    return (C == 'None') if isinstance(a.ops[0], ast.Is) else (C == 'Some')
                if isinstance(a, ast.Compare) and dotted(a.left) == 'self' and dotted(a.comparators[0]) == 'self.circuit.streams':
                    if C == 'None':
                        return None
                    return (L == 'listed') if isinstance(a.ops[0], ast.In) else (L != 'listed')
                return None
            paths = g.paths(eval_hook=hook, loop_bound=1, pure_calls=('self._notify', 'self._create_flags', 'self.maybe_call_closing_deferred'))
            run.paths_enumerated += len(paths)
            seen = set()
            for p in paths:
                if p.exit == 'raise':
                    continue
                got = []
                attached = False
                C, L = init
                for n, lab in p.steps:
                    if n.kind != 'stmt':
                        continue
                    for a in node_asts(n):
                        if is_call_to(a, 'self._notify') and a.args:
                            got.append(const(a.args[0]))
                        e = attach_effect(a)
                        if e == 'append':
                            attached = True
                exp = list(want) + (['stream_attach'] if attached else [])
                key = tuple(got) + (attached,)
                if key in seen:
                    continue
                seen.add(key)
                run.ob('R08.1', su, su.node, 'Stream.update[%s from %s] notifies exactly %s' % (S, init[0], exp), sorted(map(str, got)) == sorted(exp),
                       slot='stream:%s:%s' % (S, init[0]),
                       message='Stream.update for %s (circuit %s before) notifies %s, expected %s' % (S, init[0], got, exp), path=p.describe(8))
    # listeners are told about a transition only after the object shows it: status and flags are
    # assigned before the first notification of the update (except the first-sight "new" announcement)
    for ci_, nm in ((circuit_cls(run), 'Circuit'), (stream_cls(run), 'Stream')):
        up_ = run.idx.find_method(ci_, 'update')
        g_ = cfg_of(up_)
        sets = dict((f, [n for n in g_.real_nodes() if n.kind == 'stmt' and assign_to(n.ast, f) is not None]) for f in ('self.state', 'self.flags'))
        if nm == 'Circuit':
            notes = [n for n in g_.live if n.kind == 'iter' and fanout_method(n.ast) and 'circuit_new' not in fanout_method(n.ast)]
        else:
            notes = g_.nodes_where(lambda n: any(is_call_to(a, 'self._notify') for a in node_asts(n)))
        for f, ws in sets.items():
            ok = bool(ws) and all(any(g_.dominates(w, n) for w in ws) for n in notes)
            run.ob('R08.1', up_, up_.node, '%s.update assigns %s before notifying listeners' % (nm, f), ok, slot='state-before-notify:%s:%s' % (nm, f),
                   message='%s.update notifies listeners before %s is updated: a listener reading it during the notification sees the previous value' % (nm, f))
    # _notify: one loop, one call per listener, isolated
    nt = run.idx.find_method(stream_cls(run), '_notify')
    loops = [n for n in walk_unit(nt) if isinstance(n, ast.For) and dotted(n.iter) in ('self.listeners',) or
             (isinstance(n, ast.For) and isinstance(n.iter, ast.Call) and n.iter.args and dotted(n.iter.args[0]) == 'self.listeners')]
    run.ob('R08.1', nt, nt.node, '_notify is one loop over the listeners', len(loops) == 1, slot='notify-loop', message='_notify has %d listener loops' % len(loops))
    for lp in loops:
        calls = [c for c in ast.walk(lp) if isinstance(c, ast.Call) and isinstance(c.func, ast.Call) and dotted(c.func.func) == 'getattr']
        ok = len(calls) == 1 and dotted(calls[0].func.args[0]) == lp.target.id and dotted(calls[0].func.args[1]) == nt.params[1]
        run.ob('R08.1', nt, lp, '_notify calls the named listener method once per listener', ok, slot='notify-call', message='_notify body calls %s' % [src(c)[:40] for c in calls])
        tr = [t for t in ast.walk(lp) if isinstance(t, ast.Try)]
        iso = bool(tr) and any((h.type is None or dotted(h.type) in ('Exception', 'BaseException')) and
                               not [x for b in h.body for x in walk_local(b, descend_root=False) if isinstance(x, (ast.Raise, ast.Break, ast.Return))]
                               for t in tr for h in t.handlers)
        run.ob('R08.1', nt, lp, 'a raising stream listener does not stop the others', iso, slot='notify-isolation', message='_notify does not isolate listener exceptions')


def r08_2(run):
    for ci, name in ((circuit_cls(run), 'Circuit'), (stream_cls(run), 'Stream')):
        cf = run.idx.find_method(ci, '_create_flags')
        if cf is None:
            raise AnchorVanished(name + '._create_flags')
        p = cf.params[1]
        # names bound to a key of the keyword dict (loop / comprehension over kw, kw.keys(), kw.items()) and the key expressions
        # under which something is stored (subscript stores; dict-comprehension keys, a name ranging over a literal tuple expanded)
        keyvars, keys = set(), set()
        for n in walk_unit(cf):
            if isinstance(n, (ast.For, ast.comprehension)):
                it = n.iter
                if dotted(it) == p or src(it) in ('%s.keys()' % p, '%s.items()' % p, 'list(%s)' % p, 'list(%s.keys())' % p, 'list(%s.items())' % p, 'sorted(%s)' % p):
                    t = n.target
                    if isinstance(t, ast.Name):
                        keyvars.add(t.id)
                    elif isinstance(t, (ast.Tuple, ast.List)) and t.elts and isinstance(t.elts[0], ast.Name) and src(it).endswith('.items()') or \
                            (isinstance(t, (ast.Tuple, ast.List)) and t.elts and isinstance(t.elts[0], ast.Name) and 'items()' in src(it)):
                        keyvars.add(t.elts[0].id)
            if isinstance(n, ast.Assign) and isinstance(n.targets[0], ast.Subscript):
                keys.add(src(n.targets[0].slice))
            if isinstance(n, ast.DictComp):
                kexpr = n.key
                expanded = False
                if isinstance(kexpr, ast.Name):
                    for g_ in n.generators:
                        if isinstance(g_.target, ast.Name) and g_.target.id == kexpr.id and isinstance(g_.iter, (ast.Tuple, ast.List)):
                            keys.update(src(e) for e in g_.iter.elts)
                            expanded = True
                if not expanded:
                    keys.add(src(kexpr))
        ok = any(k in keys and ('%s.lower()' % k) in keys for k in keyvars)
        if not keyvars and not keys:
            raise Undecided('%s._create_flags: neither a loop over the flags nor a store by key was recognised' % name)
        run.ob('R08.2', cf, cf.node, '%s._create_flags stores every flag under its own and its lower-case name' % name, ok, slot='flags:%s' % name,
               message='%s._create_flags no longer stores both k and k.lower()' % name)
        up = run.idx.find_method(ci, 'update')
        defs = local_defs(up)
        methods = ('circuit_closed', 'circuit_failed') if name == 'Circuit' else ('stream_closed', 'stream_failed', 'stream_detach')
        found = 0
        for c in calls_in(up):
            m = callee_attr(c)
            is_n = (m in methods) or (dotted(c.func) == 'self._notify' and c.args and const(c.args[0]) in methods)
            if not is_n:
                continue
            found += 1
            kws = [kw for kw in c.keywords if kw.arg is None]
            ok2 = False
            if len(kws) == 1 and isinstance(kws[0].value, ast.Name):
                ds = defs.get(kws[0].value.id, [])
                ok2 = bool(ds) and all(d[0] == 'expr' and isinstance(d[1], ast.Call) and dotted(d[1].func) == 'self._create_flags'
                                       and d[1].args and dotted(d[1].args[0]) in names_defined_by(up, lambda v: isinstance(v, ast.Call) and (dotted(v.func) or '').endswith('find_keywords')) for d in ds)
            run.ob('R08.2', up, c, 'closed/failed/detach notifications carry **_create_flags(kw)', ok2, slot='kwargs:%s:%s' % (name, m if m in methods else const(c.args[0])),
                   message='%s notification does not pass the both-case flags: %s' % (name, src(c)[:70]))
        run.floor('R08.2', '%s closed/failed/detach notifications' % name, found, 2)


def r08_3(run):
    for add, index, registry, creator in (('add_circuit_listener', 'self.circuits', 'self.circuit_listeners', '_maybe_create_circuit'),
                                          ('add_stream_listener', 'self.streams', 'self.stream_listeners', '_stream_update')):
        u = TU(run, add)
        loops = [n for n in walk_unit(u) if isinstance(n, ast.For) and src(n.iter) in (index + '.values()', 'list(%s.values())' % index)]
        ok = bool(loops) and any(any(is_method_call(c, 'listen') and dotted(receiver(c)) == lp.target.id for c in ast.walk(lp)) for lp in loops)
        run.ob('R08.3', u, u.node, '%s attaches the listener to every existing object' % add, ok, slot='existing:%s' % add,
               message='%s does not listen() on the existing %s' % (add, index))
        gu = cfg_of(u)
        its = [n for n in gu.live if n.kind == 'iter' and any(n.ast is lp for lp in loops)]
        skip = gu.reachable([gu.entry], avoid=lambda n: n in its, follow_exc=False)
        run.ob('R08.3', u, u.node, '%s attaches to the existing objects on every path (also for an already registered listener)' % add,
               bool(its) and not any(e in skip for e in gu.normal_exits()), slot='existing-always:%s' % add,
               message='%s can return without attaching the listener to the existing %s (e.g. an early return for a listener that is already registered): '
                       'a listener that was detached from one object and is added again never hears of it' % (add, index))
        ap = [c for c in calls_in(u) if dotted(c.func) == registry + '.append']
        run.ob('R08.3', u, u.node, '%s records the listener for future objects' % add, len(ap) == 1, slot='registry:%s' % add,
               message='%s does not append to %s' % (add, registry))
        cu = TU(run, creator)
        loops = [n for n in walk_unit(cu) if isinstance(n, ast.For) and dotted(n.iter) == registry]
        ok = bool(loops) and all(any(is_method_call(c, 'listen') and c.args and dotted(c.args[0]) == lp.target.id for c in ast.walk(lp)) for lp in loops)
        run.ob('R08.3', cu, cu.node, '%s attaches all global listeners to a new object' % creator, ok, slot='future:%s' % creator,
               message='%s does not attach %s to new objects' % (creator, registry))
    # TorState's own bookkeeping listener is registered before the global ones, so that the new
    # object is indexed by the time any user listener hears about it (and can add listeners)
    mc = TU(run, '_maybe_create_circuit')
    gm = cfg_of(mc)
    selfl = gm.nodes_where(lambda n: any(is_method_call(a, 'listen') and a.args and dotted(a.args[0]) == 'self' for a in node_asts(n)))
    regl = [n for n in gm.live if n.kind == 'iter' and dotted(n.ast.iter) == 'self.circuit_listeners']
    ok = bool(selfl) and bool(regl) and all(any(gm.dominates(s_, r_) for s_ in selfl) for r_ in regl)
    run.ob('R08.3', mc, mc.node, 'the index-maintaining listener (TorState) is attached before the global listeners', ok, slot='self-first:circuit',
           message='_maybe_create_circuit attaches the global listeners before c.listen(self): a listener added from '
                   'inside circuit_new does not find the circuit in .circuits and never hears about it')
    for ci, name in ((circuit_cls(run), 'Circuit'), (stream_cls(run), 'Stream')):
        li = run.idx.find_method(ci, 'listen')
        g = cfg_of(li)
        ap = g.nodes_where(lambda n: any(is_call_to(a, 'self.listeners.append') for a in node_asts(n)))
        ok = bool(ap) and all(g.guarded_by(a, lambda t: isinstance(t, ast.Compare) and isinstance(t.ops[0], (ast.NotIn, ast.In)) and
                                           dotted(t.comparators[0]) == 'self.listeners') for a in ap)
        run.ob('R08.3', li, li.node, '%s.listen registers a listener at most once' % name, ok, slot='dedup:%s' % name,
               message='%s.listen appends without a membership test (duplicate notifications)' % name)
        ul = run.idx.find_method(ci, 'unlisten')
        ok = any(is_call_to(c, 'self.listeners.remove') for c in calls_in(ul))
        run.ob('R08.3', ul, ul.node, '%s.unlisten removes the listener' % name, ok, slot='unlisten:%s' % name, message='%s.unlisten does not remove' % name)


def r08_4(run):
    cc = circuit_cls(run)
    cu = run.idx.find_method(cc, 'update')
    g = cfg_of(cu)
    # _when_built.fire(self) only on BUILT
    sites = []
    for u in run.idx.all_units():
        for c in calls_in(u):
            d = dotted(c.func) or ''
            if d.endswith('._when_built.fire'):
                sites.append((u, c))
    run.floor('R08.4', '_when_built.fire sites', len(sites), 4)
    for u, c in sites:
        arg = src(c.args[0]) if c.args else ''
        if 'Failure' in arg:
            ok = u.owner_cls is TS(run) and u.name in ('circuit_closed', 'circuit_failed', 'circuit_destroy')
            run.ob('R08.4', u, c, 'built-wait fails only when Tor closes/fails the circuit', ok, slot='built-fail@%s' % u.short, message='%s fails the built wait' % u.short)
        else:
            ok = u is cu and dotted(c.func) == 'self._when_built.fire' and arg == 'self'
            run.ob('R08.4', u, c, 'built-wait succeeds only from Circuit.update', ok, slot='built-ok@%s' % u.short, message='%s fires _when_built with %s' % (u.short, arg))
            if ok:
                for n in g.nodes_containing(c):
                    gs = g.guarded_by(n, lambda t: isinstance(t, ast.Compare) and dotted(t.left) == 'self.state' and const(t.comparators[0]) == 'BUILT'
                                      and isinstance(t.ops[0], ast.Eq))
                    run.ob('R08.4', u, c, 'built-wait succeeds only in state BUILT', any(lab == 'T' for _, lab in gs), slot='built-guard',
                           message='_when_built.fire(self) reachable in a state other than BUILT')
    for S in ('BUILT', 'CLOSED', 'FAILED', 'EXTENDED', 'LAUNCHED'):
        for p in g.paths(eval_hook=hook_for_env({'self.state': S, 'self.id': 7}, frozen_after_write=False), loop_bound=1,
                         pure_calls=('self.update_path', 'self._create_flags', 'self.maybe_call_closing_deferred')):
            run.paths_enumerated += 1
            if p.exit == 'raise':
                continue
            nb = sum(1 for n, _ in p.steps for a in node_asts(n) if n.kind == 'stmt' and is_call_to(a, 'self._when_built.fire'))
            nc = sum(1 for n, _ in p.steps for a in node_asts(n) if n.kind == 'stmt' and is_call_to(a, 'self.maybe_call_closing_deferred'))
            run.ob('R08.4', cu, cu.node, 'Circuit.update[%s]: built-wait fired %s' % (S, 'once' if S == 'BUILT' else 'never'),
                   nb == (1 if S == 'BUILT' else 0), slot='built:%s' % S, message='state %s fires _when_built %d times' % (S, nb))
            run.ob('R08.4', cu, cu.node, 'Circuit.update[%s]: close-wait completed %s' % (S, 'once' if S in ('CLOSED', 'FAILED') else 'never'),
                   nc == (1 if S in ('CLOSED', 'FAILED') else 0), slot='closed:%s' % S, message='state %s calls maybe_call_closing_deferred %d times' % (S, nc))
    # the close wait is completed before the (unguarded) listener fan-out of the same event: a listener that raises on the
    # terminal event must not keep close()/when_closed() pending for ever
    closers = g.nodes_where(lambda n: any(is_call_to(a, 'self.maybe_call_closing_deferred') for a in node_asts(n)))
    for lp in [n for n in g.live if n.kind == 'iter' and dotted(n.ast.iter) == 'self.listeners' and
               any(isinstance(c, ast.Call) and callee_attr(c) in ('circuit_closed', 'circuit_failed') for c in ast.walk(n.ast))]:
        ok = any(g.dominates(c_, lp) for c_ in closers)
        run.ob('R08.4', cu, lp.ast, 'the close wait completes before the terminal event is fanned out to listeners', ok, slot='close-before-fanout',
               message='Circuit.update notifies the listeners of CLOSED/FAILED before completing the close wait: the loop is unguarded, so one listener that raises '
                       '(e.g. a one-argument callback given REASON=...) leaves every pending close()/when_closed() hanging')
    su = run.idx.find_method(stream_cls(run), 'update')
    gs_ = cfg_of(su)
    for S in sorted(STREAM_ORACLE):
        for p in gs_.paths(eval_hook=hook_for_env({'self.state': S, 'self.id': 7}, frozen_after_write=False), loop_bound=1,
                           pure_calls=('self._notify', 'self._create_flags', 'self.maybe_call_closing_deferred')):
            run.paths_enumerated += 1
            if p.exit == 'raise':
                continue
            nc = sum(1 for n, _ in p.steps for a in node_asts(n) if n.kind == 'stmt' and is_call_to(a, 'self.maybe_call_closing_deferred'))
            run.ob('R08.4', su, su.node, 'Stream.update[%s]: close-wait completed %s' % (S, 'once' if S in ('CLOSED', 'FAILED') else 'never'),
                   nc == (1 if S in ('CLOSED', 'FAILED') else 0), slot='stream-closed:%s' % S, message='stream state %s completes the close wait %d times' % (S, nc))
    # _when_closed / _closing_deferred fired only in maybe_call_closing_deferred; guard-and-clear there
    for ci, name in ((cc, 'Circuit'), (stream_cls(run), 'Stream')):
        for u in class_units(run.idx, ci):
            for c in calls_in(u):
                d = dotted(c.func) or ''
                if d in ('self._closing_deferred.callback', 'self._closing_deferred.errback', 'self._when_closed.fire'):
                    run.ob('R08.4', u, c, '%s close waits completed only in maybe_call_closing_deferred' % name, u.name == 'maybe_call_closing_deferred',
                           slot='close-fire@%s' % u.short, message='%s completes the close wait' % u.short)
        mc = run.idx.find_method(ci, 'maybe_call_closing_deferred')
        g2 = cfg_of(mc)
        cbn = g2.nodes_where(lambda n: any(is_call_to(a, 'self._closing_deferred.callback') for a in node_asts(n)))
        ok = bool(cbn) and all(any(lab == 'T' for _, lab in g2.guarded_by(n, lambda t: dotted(t) == 'self._closing_deferred')) or
                               any((lab == 'F') == isinstance(t.ast.ops[0], ast.Is) for t, lab in
                                   g2.guarded_by(n, lambda t: isinstance(t, ast.Compare) and dotted(t.left) == 'self._closing_deferred'
                                                 and isinstance(t.ops[0], (ast.Is, ast.IsNot)) and is_none(t.comparators[0]))) for n in cbn)
        run.ob('R08.4', mc, mc.node, '%s: closing Deferred fired only if one is pending' % name, ok, slot='close-guard:%s' % name, message='closing Deferred fired unguarded')
        for n in cbn:
            esc = g2.escapes(n, lambda x: x.kind == 'stmt' and assign_to(x.ast, 'self._closing_deferred') is not None and is_none(assign_to(x.ast, 'self._closing_deferred')),
                             exits=g2.normal_exits())
            run.ob('R08.4', mc, n.ast, '%s: the fired closing Deferred is forgotten (never fired twice)' % name, not esc, slot='close-clear:%s' % name,
                   message='%s.maybe_call_closing_deferred does not clear _closing_deferred after firing it' % name)
    wb = run.idx.find_method(cc, 'when_built')
    g3 = cfg_of(wb)
    for p in g3.paths(eval_hook=hook_for_env({'self.state': 'BUILT'})):
        ret = [n.ast for n, _ in p.steps if n.kind == 'stmt' and isinstance(n.ast, ast.Return)]
        run.ob('R08.4', wb, wb.node, 'when_built on a BUILT circuit succeeds at once', bool(ret) and 'succeed(self)' in src(ret[-1]), slot='when_built:BUILT',
               message='when_built() in state BUILT returns %s' % (src(ret[-1].value) if ret else None))
    for S in ('LAUNCHED', 'EXTENDED', 'CLOSED', 'FAILED', 'UNKNOWN'):
        for p in g3.paths(eval_hook=hook_for_env({'self.state': S})):
            ret = [n.ast for n, _ in p.steps if n.kind == 'stmt' and isinstance(n.ast, ast.Return)]
            run.ob('R08.4', wb, wb.node, 'when_built in state %s answers from the shared one-shot observer (so all waits share one outcome)' % S,
                   bool(ret) and src(ret[-1].value) == 'self._when_built.when_fired()', slot='when_built:%s' % S,
                   message='when_built() in state %s returns %s instead of the shared observer: a circuit that was BUILT and then closed answers later waits differently from earlier ones' % (S, src(ret[-1].value) if ret else None))
    so.check_so(run, 'R08.4')


_IDX = [None]


def _nested_returns_closing(u, cb, depth=0):
    """cb: the callback expression given to addCallback - a nested def (possibly through a
    local alias) or a lambda - whose every result is self._closing_deferred."""
    if isinstance(cb, ast.Lambda):
        return dotted(cb.body) == 'self._closing_deferred'
    if isinstance(cb, ast.Attribute) and dotted(cb.value) == 'self' and _IDX[0] is not None and u.owner_cls is not None:
        # a bound method of the same class used as the callback
        m = _IDX[0].find_method(u.owner_cls, cb.attr)
        if m is not None:
            rets = [n for n in walk_unit(m) if isinstance(n, ast.Return)]
            return bool(rets) and all(dotted(r.value) == 'self._closing_deferred' for r in rets)
        return False
    if not isinstance(cb, ast.Name) or depth > 3:
        return False
    for c in u.children:
        if c.name == cb.id:
            rets = [n for n in walk_unit(c) if isinstance(n, ast.Return)]
            return bool(rets) and all(dotted(r.value) == 'self._closing_deferred' for r in rets)
    d = single_def(local_defs(u), cb.id)
    if d is not None and d[0] == 'expr':
        return _nested_returns_closing(u, d[1], depth + 1)
    return False


def r08_5(run):
    _IDX[0] = run.idx
    for ci, name, cmd in ((circuit_cls(run), 'Circuit', 'close_circuit'), (stream_cls(run), 'Stream', 'close_stream')):
        cl = run.idx.find_method(ci, 'close')
        g = cfg_of(cl)
        rets = [n for n in g.real_nodes() if n.kind == 'stmt' and isinstance(n.ast, ast.Return)]
        run.floor('R08.5', '%s.close return sites' % name, len(rets), 1)
        for rn in rets:
            v = rn.ast.value
            ok, why = False, 'returns %s' % src(v)
            if dotted(v) == 'self._closing_deferred':
                ok = True
                # ... but a *repeated* request (the leg on which a close is already pending) gets a Deferred of its own, relayed
                # from the pending one: sharing one callback chain lets one caller's callbacks change what the others receive
                rep = g.guarded_by(rn, lambda t: dotted(t) == 'self._closing_deferred')
                if any(lab == 'T' for _, lab in rep):
                    ok = False
                    why = 'hands the shared pending Deferred to a repeated request: the callers share one callback chain, so a callback one of them adds changes (or fails) the outcome the others see'
            elif isinstance(v, ast.Call) and dotted(v.func) in ('defer.succeed', 'succeed'):
                gs = g.guarded_by(rn, lambda t: isinstance(t, ast.Compare) and dotted(t.left) == 'self.state')
                ok = any(lab == 'T' and const(t.ast.comparators[0]) in ('CLOSED', 'FAILED', ['CLOSED', 'FAILED']) for t, lab in gs)
                why = 'returns an already-fired Deferred although the object is not known to be gone'
            elif isinstance(v, ast.Name):
                vals = [def_value(r, v.id) for r in reaching_defs(g, rn, v.id)]
                if len(vals) == 1 and isinstance(vals[0], ast.Call):
                    call = vals[0]
                    if callee_attr(call) == cmd:
                        # must be chained on the closing Deferred before being returned
                        chained = False
                        for c in calls_in(cl):
                            if callee_attr(c) == 'addCallback' and dotted(receiver(c)) == v.id and c.args:
                                if _nested_returns_closing(cl, c.args[0]) and any(g.dominates(m, rn) for m in g.nodes_containing(c)):
                                    chained = True
                        ok = chained
                        why = 'returns the %s command Deferred without chaining it on the closing Deferred (completes on the acknowledgement, not on the event)' % cmd
                    elif dotted(call.func) in ('defer.Deferred', 'Deferred'):
                        # fired from a callback added to the pending closing Deferred
                        fired = False
                        for c in calls_in(cl):
                            if callee_attr(c) in ('addBoth', 'addCallback') and dotted(receiver(c)) == 'self._closing_deferred' and c.args and isinstance(c.args[0], ast.Name):
                                for ch in cl.children:
                                    if ch.name == c.args[0].id and any(is_call_to(x, v.id + '.callback') for x in walk_unit(ch)):
                                        fired = True
                                # ... or a module-level relay given the fresh Deferred as an extra argument: addBoth(relay, d)
                                mf = cl.module.functions.get(c.args[0].id)
                                if mf is not None and any(dotted(a_) == v.id for a_ in c.args[1:]):
                                    pos = [dotted(a_) for a_ in c.args[1:]].index(v.id) + 1
                                    if pos < len(mf.params) and any(is_call_to(x, mf.params[pos] + '.callback') for x in walk_unit(mf)):
                                        fired = True
                        ok = fired
                        why = 'returns a fresh Deferred that nothing fires'
            run.ob('R08.5', cl, rn.ast, '%s.close returns a Deferred tied to the closing event' % name, ok, slot='close-return:%s:%s' % (name, src(v)[:30]),
                   message='%s.close %s' % (name, why))
        # a relay hung on the shared pending Deferred hands on what it was given: whatever it returns is what every callback
        # added later to the pending Deferred (the first caller's, the other repeated requests') receives instead of the outcome
        for c in calls_in(cl):
            if callee_attr(c) in ('addBoth', 'addCallback', 'addErrback') and dotted(receiver(c)) == 'self._closing_deferred' and c.args and isinstance(c.args[0], ast.Name):
                cands = [ch for ch in cl.children if ch.name == c.args[0].id]
                if not cands and c.args[0].id in cl.module.functions:
                    cands = [cl.module.functions[c.args[0].id]]
                for ch in cands:
                    if not ch.node.args.args:
                        continue
                    par = ch.node.args.args[0].arg
                    gc = cfg_of(ch)
                    bad = gc.exit_fall in gc.live
                    for n in gc.real_nodes():
                        if n.kind == 'stmt' and isinstance(n.ast, ast.Return) and not (isinstance(n.ast.value, ast.Name) and n.ast.value.id == par):
                            bad = True
                    rebound = any(isinstance(x, ast.Name) and x.id == par and isinstance(x.ctx, ast.Store) for x in walk_unit(ch))
                    run.ob('R08.5', ch, ch.node, 'a relay on the pending closing Deferred passes the outcome through unchanged', not bad and not rebound,
                           slot='relay-pass-through:%s:%s' % (name, ch.name),
                           message='%s.close: %s, added to the shared pending Deferred, does not return its argument on every path: the other waiters receive its '
                                   'return value instead of the outcome (a failure is swallowed)' % (name, ch.name))
        # the close command is actually sent on the fresh-request path
        sends = [c for c in calls_in(cl) if callee_attr(c) == cmd]
        run.ob('R08.5', cl, cl.node, '%s.close sends the close command' % name, len(sends) == 1, slot='close-sends:%s' % name, message='%s.close sends %d close commands' % (name, len(sends)))


def r08_9(run):
    """a stream's transition is announced only after Stream.update got through its attachment bookkeeping: if that can raise (the
    circuit's stream list no longer holding the stream, a missing circuit) no listener hears the transition and a close() wait
    never completes - the bookkeeping invariant and its only-writers are rule R07.2, shared"""
    borrow(run, c07.r07_2, 'R08.9')


def r08_7(run):
    c07.event_reaches_update(run, 'R08.7')


def r08_6(run):
    k = 0
    for ci, name in ((circuit_cls(run), 'Circuit'), (stream_cls(run), 'Stream')):
        for u in class_units(run.idx, ci):
            if top_of(u).name == '__init__':
                continue
            g = cfg_of(u)
            for n in g.real_nodes():
                if n.kind != 'stmt' or not isinstance(n.ast, ast.Assign):
                    continue
                for t in n.ast.targets:
                    d = dotted(t)
                    if d and d.startswith('self.') and isinstance(n.ast.value, ast.Call) and dotted(n.ast.value.func) in ('defer.Deferred', 'Deferred'):
                        k += 1
                        gs = g.guarded_by(n, lambda tt, d=d: dotted(tt) == d or (isinstance(tt, ast.Compare) and dotted(tt.left) == d and is_none(tt.comparators[0])))
                        ok = any((dotted(tt.ast) == d and lab == 'F') or (isinstance(tt.ast, ast.Compare) and
                                                                          ((isinstance(tt.ast.ops[0], ast.Is) and lab == 'T') or
                                                                           (isinstance(tt.ast.ops[0], ast.IsNot) and lab == 'F'))) for tt, lab in gs)
                        run.ob('R08.6', u, n.ast, 'a pending waiter (%s) is never overwritten' % d, ok, slot='overwrite:%s.%s' % (name, d),
                               message='%s.%s replaces %s without testing that none is pending: a second request orphans the first caller\'s '
                                       'Deferred, which then never fires' % (name, u.name, d))
    run.floor('R08.6', 're-assignments of a handed-out Deferred field', k, 2)


RULES = [
    ('R08.9', 'Stream.update cannot raise in its attachment bookkeeping before notifying listeners (R07.2 borrowed: invariant + who-writes of circuit.streams)', r08_9),
    ('R08.1', 'path enumeration over state names x first-sight / attachment state: multiset of listener fan-outs equals the oracle; _notify is one isolated loop', r08_1),
    ('R08.2', 'flags delivered in both cases: _create_flags stores k and k.lower(); closed/failed/detach pass **_create_flags(kw)', r08_2),
    ('R08.3', 'global listeners attached to existing and future objects; listen deduplicates', r08_3),
    ('R08.4', 'one-shot waits: built fired only in BUILT / failed only on close|fail; close wait completed exactly on CLOSED|FAILED, guarded and cleared; SingleObserver latch', r08_4),
    ('R08.5', 'every Deferred close() returns is structurally chained on the closing event, not on the command acknowledgement', r08_5),
    ('R08.7', 'must-pass-through: every CIRC line reaches Circuit.update (the only place listeners are notified); a created stream is updated from its line', r08_7),
    ('R08.6', 'sibling rule: a handed-out pending Deferred field is never overwritten', r08_6),
]

from ..selftest import M  # noqa: E402
FS, FT, FC = 'txtorcon/stream.py', 'txtorcon/torstate.py', 'txtorcon/circuit.py'
MUTANTS = [
    M('destroyed-circuit-forgets-streams', 'txtorcon/torstate.py', "        del self.circuits[circuit.id]\n", "        del self.circuits[circuit.id]\n        circuit.streams = []\n", ['R08.9/R07.2']),
    M('relay-swallows-outcome', 'txtorcon/stream.py', "                d.callback(arg)\n                return arg\n", "                d.callback(arg)\n                return None\n", ['R08.5']),
    M('relay-falls-off', 'txtorcon/circuit.py', "                d.callback(arg)\n                return arg\n", "                d.callback(arg)\n", ['R08.5']),
    M('repeated-close-shares-deferred', 'txtorcon/circuit.py', "        if self._closing_deferred:\n            d = defer.Deferred()\n\n            def closed(arg):\n                d.callback(arg)\n                return arg\n            self._closing_deferred.addBoth(closed)\n            return d\n\n        # actually-close the circuit", "        if self._closing_deferred:\n            return self._closing_deferred\n\n        # actually-close the circuit", ['R08.5']),
    M('close-wait-after-fanout', 'txtorcon/circuit.py', "            flags = self._create_flags(kw)\n            self.maybe_call_closing_deferred()\n            for x in self.listeners:\n                x.circuit_failed(self, **flags)", "            flags = self._create_flags(kw)\n            for x in self.listeners:\n                x.circuit_failed(self, **flags)\n            self.maybe_call_closing_deferred()", ['R08.4']),
    M('readd-returns-early', 'txtorcon/torstate.py', "        listen = ICircuitListener(icircuitlistener)\n        for circ in self.circuits.values():", "        listen = ICircuitListener(icircuitlistener)\n        if listen in self.circuit_listeners:\n            return\n        for circ in self.circuits.values():", ['R08.3']),
    M('terminal-first-sight-dropped', 'txtorcon/torstate.py', "        circ_id = int(args[0])\n\n        c = self._maybe_create_circuit(circ_id)", "        circ_id = int(args[0])\n        if circ_id not in self.circuits and args[1] in ('CLOSED', 'FAILED'):\n            return\n\n        c = self._maybe_create_circuit(circ_id)", ['R08.7']),
    M('state-after-notify', FC, "        self.state = args[1]\n\n        kw = find_keywords(args)\n        self.flags = kw\n", "        kw = find_keywords(args)\n        self.flags = kw\n", None),
    M('built-notified-twice', FC, "        if self.state == 'BUILT':\n            for x in self.listeners:\n                x.circuit_built(self)\n", "        if self.state == 'BUILT':\n            for x in self.listeners:\n                x.circuit_built(self)\n            for x in self.listeners:\n                x.circuit_built(self)\n", ['R08.1']),
    M('no-stream_failed-notify', FS, "            self._notify('stream_failed', self, **flags)\n", "            pass\n", ['R08.1']),
    M('closed-notify-only-attached', FS, "        elif self.state == 'CLOSED':\n            if self.circuit:\n                self.circuit.streams.remove(self)\n            self.circuit = None\n            self.maybe_call_closing_deferred()\n            flags = self._create_flags(kw)\n            self._notify('stream_closed', self, **flags)", "        elif self.state == 'CLOSED':\n            self.maybe_call_closing_deferred()\n            flags = self._create_flags(kw)\n            if self.circuit:\n                self.circuit.streams.remove(self)\n                self._notify('stream_closed', self, **flags)\n            self.circuit = None", ['R08.1']),
    M('failed-announced-as-closed', FC, "            for x in self.listeners:\n                x.circuit_failed(self, **flags)", "            for x in self.listeners:\n                x.circuit_closed(self, **flags)", ['R08.1']),
    M('notify-not-isolated', FS, "            try:\n                getattr(x, func)(*args, **kw)\n            except Exception:\n                log.err()", "            getattr(x, func)(*args, **kw)", ['R08.1']),
    M('lowercase-flags-dropped', FS, "            flags[k] = kw[k]\n            flags[k.lower()] = flags[k]", "            flags[k] = kw[k]", ['R08.2']),
    M('raw-kw-passed', FC, "                x.circuit_closed(self, **flags)", "                x.circuit_closed(self, **kw)", ['R08.2']),
    M('registry-not-appended', FT, "            circ.listen(listen)\n        self.circuit_listeners.append(listen)", "            circ.listen(listen)", ['R08.3']),
    M('existing-not-attached', FT, "        for stream in self.streams.values():\n            stream.listen(listen)\n        self.stream_listeners.append(listen)", "        self.stream_listeners.append(listen)", ['R08.3']),
    M('listen-no-dedup', FC, "        if listener not in self.listeners:\n            self.listeners.append(listener)\n\n    def unlisten(self, listener):\n        self.listeners.remove(listener)\n\n    def close", "        self.listeners.append(listener)\n\n    def unlisten(self, listener):\n        self.listeners.remove(listener)\n\n    def close", ['R08.3']),
    M('built-on-extended', FC, "        if self.state == 'BUILT':\n            for x in self.listeners:", "        if self.state in ('BUILT', 'EXTENDED'):\n            for x in self.listeners:", ['R08.4', 'R08.1']),
    M('closing-only-on-closed', FC, "            flags = self._create_flags(kw)\n            self.maybe_call_closing_deferred()\n            for x in self.listeners:\n                x.circuit_failed", "            flags = self._create_flags(kw)\n            for x in self.listeners:\n                x.circuit_failed", ['R08.4']),
    M('closing-not-cleared', FS, "            self._closing_deferred.callback(self)\n            self._closing_deferred = None", "            self._closing_deferred.callback(self)", ['R08.4']),
    M('close-returns-ack', FC, "        d = self._torstate.close_circuit(self.id, **kw)\n        d.addCallback(close_command_is_queued)\n        return d", "        d = self._torstate.close_circuit(self.id, **kw)\n        return d", ['R08.5']),
    M('close-callback-returns-self', FC, "        def close_command_is_queued(*args):\n            return self._closing_deferred\n        d = self._torstate", "        def close_command_is_queued(*args):\n            return self\n        d = self._torstate", ['R08.5']),
    M('stream-close-returns-command', FS, "        d.addCallback(close_command_is_queued)\n        return self._closing_deferred", "        return d", ['R08.5']),
    M('stream-close-overwrites', FS, "        if self._closing_deferred:\n            d = defer.Deferred()\n\n            def closed(arg):\n                d.callback(arg)\n                return arg\n            self._closing_deferred.addBoth(closed)\n            return d\n\n        self._closing_deferred = defer.Deferred()\n\n        def close_command_is_queued(*args):\n            return self._closing_deferred\n        d = self.circuit_container", "        self._closing_deferred = defer.Deferred()\n\n        def close_command_is_queued(*args):\n            return self._closing_deferred\n        d = self.circuit_container", ['R08.6']),
]
MUTANTS = [m for m in MUTANTS if m.name != 'state-after-notify']
TWINS = [
    M('registry-dedup-only', 'txtorcon/torstate.py', "            circ.listen(listen)\n        self.circuit_listeners.append(listen)", "            circ.listen(listen)\n        if listen not in self.circuit_listeners:\n            self.circuit_listeners.append(listen)"),
    M('closed-failed-merged', FS, "        elif self.state == 'CLOSED':\n            if self.circuit:\n                self.circuit.streams.remove(self)\n            self.circuit = None\n            self.maybe_call_closing_deferred()\n            flags = self._create_flags(kw)\n            self._notify('stream_closed', self, **flags)\n\n        elif self.state == 'FAILED':\n            if self.circuit:\n                self.circuit.streams.remove(self)\n            self.circuit = None\n            self.maybe_call_closing_deferred()\n            # build lower-case version of all flags\n            flags = self._create_flags(kw)\n            self._notify('stream_failed', self, **flags)", "        elif self.state in ('CLOSED', 'FAILED'):\n            if self.circuit:\n                self.circuit.streams.remove(self)\n            self.circuit = None\n            self.maybe_call_closing_deferred()\n            flags = self._create_flags(kw)\n            if self.state == 'CLOSED':\n                self._notify('stream_closed', self, **flags)\n            else:\n                self._notify('stream_failed', self, **flags)"),
    M('closing-is-not-none', FS, "        if self._closing_deferred:\n            self._closing_deferred.callback(self)", "        if self._closing_deferred is not None:\n            self._closing_deferred.callback(self)"),
    M('named-lambda', FC, "        def close_command_is_queued(*args):\n            return self._closing_deferred\n        d = self._torstate", "        def queued(*args):\n            return self._closing_deferred\n        close_command_is_queued = queued\n        d = self._torstate"),
]
