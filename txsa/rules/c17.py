"""C17 - onion listen(): loopback listener, exact port mapping, no leak on failure."""
import ast

from .common import *  # noqa

MOD = 'endpoints'
CREATORS = ('EphemeralAuthenticatedOnionService.create', 'EphemeralOnionService.create',
            'FilesystemAuthenticatedOnionService.create', 'FilesystemOnionService.create')
LOOPBACK = ('127.0.0.1', '::1', 'localhost')


def EP(run):
    return run.idx.cls('TCPHiddenServiceEndpoint', MOD)


def LU(run):
    u = run.idx.find_method(EP(run), 'listen')
    if u is None:
        raise AnchorVanished('TCPHiddenServiceEndpoint.listen')
    return u


def module_consts(run):
    m = run.idx.module(MOD)
    return dict((k, const(v)) for k, v in m.assigns.items() if const(v) is not NOCONST)


def r17_1(run):
    li = LU(run)
    calls = [c for c in calls_in(li) if dotted(c.func) == 'serverFromString']
    run.floor('R17.1', 'serverFromString calls in listen', len(calls), 1)
    env = module_consts(run)
    for c in calls:
        desc = const(c.args[1], env) if len(c.args) > 1 else NOCONST
        if desc is NOCONST and len(c.args) > 1:
            sh = shape(c.args[1], expr_defs_for_shape(local_defs(li)))
            desc = shape_text(sh) if all(isinstance(p, str) for p in sh) else NOCONST
        ok = False
        why = 'description is not a constant: %s' % (src(c.args[1]) if len(c.args) > 1 else '')
        if isinstance(desc, str):
            parts = desc.split(':')
            kw = dict(p.split('=', 1) for p in parts if '=' in p)
            iface = kw.get('interface')
            ok = parts[0] == 'tcp' and iface in LOOPBACK
            why = 'listener description %r binds %s' % (desc, 'all interfaces' if iface is None else iface)
        run.ob('R17.1', li, c, 'the local listener is bound to the loopback interface only', ok, slot='loopback', message=why)
        if isinstance(desc, str):
            parts = desc.split(':')
            port = parts[1] if len(parts) > 1 and '=' not in parts[1] else dict(p.split('=', 1) for p in parts if '=' in p).get('port')
            run.ob('R17.1', li, c, 'the local port is chosen by the OS (port 0)', port == '0', slot='port0', message='local listener port is %r' % port)
    # ... and nothing else makes the listener: every value given to self.tcp_endpoint in listen() is such a description, or a
    # server endpoint constructed with an explicit loopback interface
    for n in walk_unit(li):
        if isinstance(n, ast.Assign) and assign_to(n, 'self.tcp_endpoint') is not None:
            v = assign_to(n, 'self.tcp_endpoint')
            if isinstance(v, ast.Call) and dotted(v.func) == 'serverFromString':
                continue
            iface = None
            if isinstance(v, ast.Call):
                iface = dict((k.arg, const(k.value)) for k in v.keywords).get('interface')
            run.ob('R17.1', li, n, 'every local listener listen() creates is bound to a loopback interface', iface in LOOPBACK, slot='loopback-every-def',
                   message='listen() also creates its listener as %s (%s): reachable from other hosts' % (src(v)[:60], 'no interface= given, so all interfaces' if iface is None else 'interface %r' % iface))
    ls = [c for c in calls_in(li) if dotted(c.func) == 'self.tcp_endpoint.listen']
    ok = len(ls) == 1 and ls[0].args and dotted(ls[0].args[0]) in ('self.protocolfactory', li.params[1])
    run.ob('R17.1', li, li.node, "the caller's factory is what listens locally", ok, slot='factory', message='tcp_endpoint.listen(%s)' % [src(a) for c in ls for a in c.args])


def create_calls(li):
    out = []
    for c in calls_in(li):
        d = dotted(c.func) or ''
        if d in CREATORS:
            out.append(c)
    return out


def already_names(li):
    """the local flag that says the service is already configured (defined False, then from a membership / is-not-None test)"""
    return names_defined_by(li, lambda v: const(v) is False)


def found_names(li):
    """the same knowledge kept as a value: a local that holds the already-configured service or None (existing = None ... existing = hs)"""
    defs = local_defs(li)
    out = []
    for nm, ds in defs.items():
        vals = [d[1] for d in ds if len(d) > 1 and isinstance(d[1], ast.AST)]
        if vals and any(is_none(v) or dotted(v) == 'self.hiddenservice' for v in vals) and \
                all(is_none(v) or isinstance(v, ast.Name) or dotted(v) == 'self.hiddenservice' for v in vals) and \
                any(isinstance(t, ast.Compare) and dotted(t.left) == nm and is_none(t.comparators[0]) for t in walk_unit(li)):
            out.append(nm)
    return out


def is_already_test(li, t):
    """(matches, label of the edge on which the service IS already configured) for a test atom"""
    if dotted(t) in already_names(li):
        return True, 'T'
    if isinstance(t, ast.Compare) and len(t.ops) == 1 and dotted(t.left) in found_names(li) and is_none(t.comparators[0]):
        return True, ('F' if isinstance(t.ops[0], (ast.Is, ast.Eq)) else 'T')
    return False, None


def r17_2(run):
    li = LU(run)
    g = cfg_of(li)
    cc = create_calls(li)
    run.floor('R17.2', '.create( calls in listen', len(cc), 4)
    seen = set()
    for c in cc:
        d = dotted(c.func)
        seen.add(d)
        ports = [a for a in c.args if isinstance(a, ast.List)]
        ok = False
        why = 'no literal one-element ports list'
        if len(ports) == 1 and len(ports[0].elts) == 1:
            sh = shape(ports[0].elts[0])
            holes = [dotted(h.node) for h in sh if isinstance(h, Hole)]
            consts = [p for p in sh if isinstance(p, str)]
            ok = holes == ['self.public_port', 'self.local_port'] and consts in ([' 127.0.0.1:'], [' ', '127.0.0.1:']) or \
                (holes == ['self.public_port', 'self.local_port'] and ''.join(consts) == ' 127.0.0.1:')
            why = 'port mapping is %s' % shape_text(sh)
        run.ob('R17.2', li, c, '%s forwards "<public port> 127.0.0.1:<local port>"' % d, ok, slot='mapping:%s' % d, message=why)
        # local_port reaching this call is the bound port
        for n in g.nodes_containing(c):
            rds = reaching_defs(g, n, 'self.local_port')
            vals = [def_value(r, 'self.local_port') for r in rds]
            okp = bool(vals) and all(v is not None and src(v) == 'self.tcp_listening_port.getHost().port' for v in vals)
            run.ob('R17.2', li, c, '%s: the forwarded local port is the one actually bound' % d, okp, slot='bound-port:%s' % d,
                   message='self.local_port reaching %s is %s' % (d, [src(v) if v is not None else '<constructor value>' for v in vals]))
    for d in CREATORS:
        run.ob('R17.2', li, li.node, 'listen can create a %s' % d.split('.')[0], d in seen, slot='has:%s' % d, message='no %s call' % d)
    # each creator is selected by the right (ephemeral, auth) valuation
    for eph in (True, False):
        for auth in (True, False):
            def hook(node, val, trail, eph=eph, auth=auth):
                a = node.ast
                if dotted(a) == 'self.ephemeral':
                    return eph
                if isinstance(a, ast.Compare) and dotted(a.left) == 'self.auth' and is_none(a.comparators[0]):
                    return auth if isinstance(a.ops[0], ast.IsNot) else (not auth)
                m_, lab_ = is_already_test(li, a)
                if m_:
                    return lab_ != 'T'        # "not already configured"
                return None
            want = ('Ephemeral' if eph else 'Filesystem') + ('Authenticated' if auth else '') + 'OnionService.create'
            hit = set()
            for p in g.paths(eval_hook=hook, loop_bound=1, follow_exc=False, max_paths=200000):
                run.paths_enumerated += 1
                for n, _ in p.steps:
                    for a in node_asts(n):
                        if a in cc:
                            hit.add(dotted(a.func))
            run.ob('R17.2', li, li.node, 'ephemeral=%s auth=%s creates exactly %s' % (eph, auth, want), hit == set([want]), slot='select:%s:%s' % (eph, auth),
                   message='ephemeral=%s auth=%s reaches %s' % (eph, auth, sorted(hit)))
    # options passed through
    for c in cc:
        kw = dict((k.arg, dotted(k.value)) for k in c.keywords)
        d = dotted(c.func)
        run.ob('R17.2', li, c, '%s gets the requested version' % d, kw.get('version') == 'self.version', slot='version:%s' % d, message='version=%s' % kw.get('version'))
        if d.startswith('Ephemeral'):
            run.ob('R17.2', li, c, '%s gets the key and single-hop option' % d, kw.get('private_key') == 'self.private_key' and kw.get('single_hop') == 'self.single_hop',
                   slot='eph-opts:%s' % d, message='private_key=%s single_hop=%s' % (kw.get('private_key'), kw.get('single_hop')))
        else:
            okd = any(dotted(a) == 'self.hidden_service_dir' for a in c.args)
            run.ob('R17.2', li, c, '%s gets the service directory' % d, okd, slot='dir:%s' % d, message='hidden_service_dir not passed')
        if 'Authenticated' in d:
            run.ob('R17.2', li, c, '%s gets the auth object' % d, kw.get('auth') == 'self.auth', slot='auth:%s' % d, message='auth=%s' % kw.get('auth'))


def r17_3(run):
    li = LU(run)
    g = cfg_of(li)
    acq = [n for n in g.real_nodes() if n.kind == 'stmt' and assign_to(n.ast, 'self.tcp_listening_port') is not None and
           any(isinstance(a, (ast.Yield,)) for a in node_asts(n))]
    run.floor('R17.3', 'local listener acquisition sites', len(acq), 1)

    def releases(n):
        return any(isinstance(a, ast.Attribute) and a.attr == 'stopListening' for a in node_asts(n))
    k = 0
    for a0 in acq:
        after = g.reachable([s for lab, s in a0.succ if lab != 'exc'])
        fail_points = [n for n in after if n.kind in ('stmt', 'test') and
                       (any(isinstance(x, (ast.Yield, ast.YieldFrom)) for x in node_asts(n)) or isinstance(n.ast, ast.Raise))]
        for fp in fail_points:
            if releases(fp):
                continue    # the release itself
            if isinstance(fp.ast, ast.Raise) and any(releases(x) for x in g.live if g.dominates(x, fp) and x in after):
                continue   # the re-raise after a release
            exc_succ = [s for lab, s in fp.succ if lab == 'exc']
            if not exc_succ:
                continue
            k += 1
            r = g.reachable(exc_succ, avoid=releases)
            esc = [e for e in g.exits if e in r]
            wit = None
            if esc:
                w = g.witness_path(fp, esc[0], avoid=releases)
                wit = fmt_path(g, [fp] + (w or []))
            run.ob('R17.3', li, fp.ast, 'a failure after the local bind releases the listener before listen() fails', not esc, slot='release:%s' % src(fp.ast)[:40],
                   message='listen(): if "%s" fails, the function exits without stopListening() on the port it bound to '
                           '127.0.0.1:0 - the listener leaks' % src(fp.ast)[:50], path=wit)
    run.floor('R17.3', 'failure points after the bind', k, 1)
    # config.HiddenServices is a heterogeneous list (plain and authenticated filesystem services, legacy HiddenService):
    # reading an attribute one of those classes lacks raises AttributeError - after the bind and outside the releasing
    # try that is a leak.  Every such read on the loop variable is behind hasattr / getattr(default) / isinstance.
    fs_classes = [c for c in (run.idx.cls('FilesystemOnionService', 'onion'), run.idx.cls('FilesystemAuthenticatedOnionService', 'onion'))
                  if c is not None]
    run.floor('R17.3', 'filesystem service classes', len(fs_classes), 2)

    def has_attr(ci, attr):
        for c in run.idx.mro(ci):
            if attr in c.methods or attr in c.attrs:
                return True
            for m in c.methods.values():
                for n in walk_unit(m):
                    if isinstance(n, ast.Attribute) and isinstance(n.ctx, ast.Store) and n.attr == attr and dotted(n.value) == 'self':
                        return True
        return False
    kk = 0
    for a0 in acq:
        after_ids = set(id(n.ast) for n in g.reachable([s for lab, s in a0.succ if lab != 'exc']) if n.ast is not None)
        for lp in [n for n in walk_unit(li) if isinstance(n, (ast.For, ast.comprehension))]:
            if not (dotted(lp.iter) or '').endswith('.HiddenServices') or not isinstance(lp.target, ast.Name):
                continue
            scope = lp if isinstance(lp, ast.For) else next((p for p in walk_unit(li) if isinstance(p, (ast.ListComp, ast.SetComp, ast.GeneratorExp, ast.DictComp))
                                                              and lp in p.generators), None)
            if scope is None:
                continue
            for x in ast.walk(scope):
                if isinstance(x, ast.Attribute) and isinstance(x.ctx, ast.Load) and dotted(x.value) == lp.target.id:
                    missing = [c.simple for c in fs_classes if not has_attr(c, x.attr)]
                    if not missing:
                        continue
                    kk += 1
                    guarded = any(isinstance(y, ast.Call) and dotted(y.func) in ('hasattr', 'isinstance') and y.args and dotted(y.args[0]) == lp.target.id
                                  for y in ast.walk(scope))
                    run.ob('R17.3', li, x, 'an attribute not every configured service has is read only behind hasattr/getattr/isinstance', guarded,
                           slot='partial-attr:%s.%s' % (lp.target.id, x.attr),
                           message='listen() reads %s.%s for every entry of config.HiddenServices after the local bind; %s has no such attribute, so with such a '
                                   'service in the config listen() dies with AttributeError and the 127.0.0.1:0 listener stays open' % (lp.target.id, x.attr, '/'.join(missing)))
    run.ob('R17.3', li, li.node, 'attribute reads on configured services examined', True)
    # the release must not sit behind other cleanup that can itself fail: from the handler entry the
    # release is reached without passing a loop or a call on any other object
    for h in [n for n in g.live if n.kind == 'handler']:
        body_reach = g.reachable([s_ for _, s_ in h.succ])
        rel = [n for n in body_reach if releases(n)]
        if not rel:
            continue
        before = g.reachable([s_ for _, s_ in h.succ], avoid=releases)
        risky = [n for n in before if n.kind == 'iter' or (n.kind in ('stmt', 'test') and any(
            isinstance(a, ast.Call) and not releases(n) and (dotted(a.func) or '').split('.')[-1] not in ('msg', 'err', 'maybeDeferred') for a in node_asts(n)))]
        run.ob('R17.3', li, h.ast, 'the listener is released before any other cleanup that may itself fail', not risky, slot='release-first',
               message='in the failure handler %s runs before stopListening(): if it raises, listen() fails with that error and '
                       'the listener is never closed' % [src(n.ast)[:50] if n.kind != 'iter' else 'for ' + src(n.ast.target) for n in risky][:2])
    # the released object is the acquired port
    for n in g.real_nodes():
        for a in node_asts(n):
            if isinstance(a, ast.Attribute) and a.attr == 'stopListening':
                base = dotted(a.value)
                ok = base == 'self.tcp_listening_port'
                if not ok and base:
                    rds = reaching_defs(g, n, base)
                    vals = [r.ast for r in rds if r.ast is not None and isinstance(r.ast, ast.Assign)]
                    ok = bool(vals) and all('self.tcp_listening_port' in src(v.value) for v in vals)
                run.ob('R17.3', li, a, 'the port released is the one that was bound', ok, slot='release-target', message='stopListening called on %s' % base)


def r17_4(run):
    li = LU(run)
    g = cfg_of(li)
    rets = [n for n in g.real_nodes() if n.kind == 'stmt' and isinstance(n.ast, ast.Return)]
    run.floor('R17.4', 'return sites in listen', len(rets), 1)
    cc = create_calls(li)
    cdn = names_defined_by(li, lambda v: isinstance(v, ast.Call) and dotted(v.func) in CREATORS)
    waitn = [n for n in g.real_nodes() if n.kind == 'stmt' and any(isinstance(a, ast.Yield) and dotted(a.value) in cdn for a in node_asts(n))]
    if not cdn:
        raise Undecided('listen: no call of a known service constructor (%s) is bound to a name here - the creation may be spelled through a variable class' % ', '.join(sorted(CREATORS))[:160])
    for rn in rets:
        v = rn.ast.value
        ok = isinstance(v, ast.Call) and dotted(v.func) == 'TorOnionListeningPort' and [dotted(a) for a in v.args] == [
            'self.tcp_listening_port', 'self.public_port', 'self.hiddenservice', 'self._config']
        run.ob('R17.4', li, rn.ast, 'listen resolves to a port object wrapping the bound port, the public port and the service', ok, slot='return-value',
               message='listen returns %s' % src(v)[:80])
        # not before the service exists: every path to the return passes the wait on creation or the already-configured leg
        already = [(t.id, is_already_test(li, t.ast)[1]) for t in g.live if t.kind == 'test' and is_already_test(li, t.ast)[0]]
        r = g.reachable([g.entry], avoid=lambda n: n in waitn, skip_edges=set(already))
        run.ob('R17.4', li, rn.ast, 'listen resolves only after the service creation (and its descriptor wait) is over', rn not in r, slot='return-after-create',
               message='listen can return before "yield create_d" on a path where the service was not already configured')
    # the already-configured leg adopts the configured service whose directory is this endpoint's (and no other one)
    adopt = [n for n in g.real_nodes() if n.kind == 'stmt' and isinstance(n.ast, ast.Assign) and assign_to(n.ast, 'self.hiddenservice') is not None and
             isinstance(n.ast.value, ast.Name) and any(lab == is_already_test(li, t.ast)[1] for t, lab in g.guarded_by(n, lambda t: is_already_test(li, t)[0]))]
    # (when the found service is carried in a local - existing = hs inside the search loop - the search assignment is what adopts)
    fn_ = found_names(li)
    if fn_:
        adopt = [n for n in g.real_nodes() if n.kind == 'stmt' and isinstance(n.ast, ast.Assign) and any(t in fn_ for t in assigned_targets(n.ast)) and
                 isinstance(n.ast.value, ast.Name) and n.ast.value.id not in fn_]
    for n in adopt:
        hs = n.ast.value.id
        gd = g.guarded_by(n, lambda t: isinstance(t, ast.Compare) and len(t.ops) == 1 and isinstance(t.ops[0], (ast.Eq, ast.NotEq)))
        ok = False
        ldefs_ = local_defs(li)

        def side_text(e):
            if isinstance(e, ast.Name) and single_def(ldefs_, e.id) and single_def(ldefs_, e.id)[0] == 'expr':
                return src(single_def(ldefs_, e.id)[1])
            return src(e)
        for t, lab in gd:
            sides = [side_text(t.ast.left), side_text(t.ast.comparators[0])]
            mine = [x for x in sides if 'self.hidden_service_dir' in x]
            theirs = [x for x in sides if x not in mine and hs in [y.id for y in ast.walk(ast.parse(x)) if isinstance(y, ast.Name)] and 'dir' in x]
            if mine and theirs and (lab == 'T') == isinstance(t.ast.ops[0], ast.Eq):
                ok = True
        run.ob('R17.4', li, n.ast, 'an already-configured service is adopted only when its directory is the endpoint\'s', ok, slot='adopt-by-directory',
               message='listen adopts %s as its service without having established that its directory equals hidden_service_dir: the port object reports another '
                       'service\'s hostname' % hs)
    lp = run.idx.cls('TorOnionListeningPort', MOD)
    sl = run.idx.find_method(lp, 'stopListening')
    init = run.idx.find_method(lp, '__init__')
    gh = run.idx.find_method(lp, 'getHost')
    fld = None
    for st, v in writes_of(init, 'self._local_address'):
        fld = dotted(v)
    ok = fld == init.params[1] and any(is_call_to(c, 'self._local_address.stopListening') for c in calls_in(sl))
    run.ob('R17.4', sl, sl.node, 'stopListening closes the wrapped local listener', ok, slot='stop-delegates', message='TorOnionListeningPort.stopListening does not delegate to the wrapped port')
    ad = [v for st, v in writes_of(init, 'self._address')]
    ok = len(ad) == 1 and isinstance(ad[0], ast.Call) and dotted(ad[0].func) == 'TorOnionAddress' and [dotted(a) for a in ad[0].args] == [init.params[2], init.params[3]]
    run.ob('R17.4', init, init.node, 'the address is built from the public port and the service', ok, slot='address-args', message='_address = %s' % [src(a) for a in ad])
    rets = [r for r in walk_unit(gh) if isinstance(r, ast.Return)]
    run.ob('R17.4', gh, gh.node, 'getHost reports that address', len(rets) == 1 and dotted(rets[0].value) == 'self._address', slot='getHost', message='getHost returns %s' % [src(r.value) for r in rets])
    oa = run.idx.cls('TorOnionAddress', MOD)
    ai = run.idx.find_method(oa, '__init__')
    okp = any(dotted(v) == ai.params[1] for st, v in writes_of(ai, 'self.onion_port'))
    oku = any(src(v) == ai.params[2] + '.hostname' for st, v in writes_of(ai, 'self.onion_uri'))
    run.ob('R17.4', ai, ai.node, 'the address carries the public port and the hostname Tor assigned', okp and oku, slot='address-fields', message='TorOnionAddress fields changed')
    ga = cfg_of(ai)
    ws = [n for n in ga.real_nodes() if n.kind == 'stmt' and assign_to(n.ast, 'self.onion_uri') is not None]
    r = ga.reachable([ga.entry], avoid=lambda n: n in ws, follow_exc=False)
    run.ob('R17.4', ai, ai.node, 'every address object has its onion_uri set', bool(ws) and not any(e in r for e in ga.normal_exits()), slot='address-uri-always',
           message='TorOnionAddress.__init__ can finish without setting onion_uri (port.getHost().onion_uri then raises AttributeError)')
    oka = any(isinstance(v, ast.Call) and dotted(v.func) == '_maybe_unique_host' and [dotted(a) for a in v.args] == [ai.params[2]] for st, v in writes_of(ai, 'self.onion_uri'))
    run.ob('R17.4', ai, ai.node, 'for an authenticated service the address reports its (unique) client hostname', oka, slot='address-uri-auth',
           message='TorOnionAddress no longer derives onion_uri from _maybe_unique_host(service) for authenticated services')


def late_definitions(run, rid, unit, g, raises, floor):
    """a refusal looks at the final value of what it tests: no option is (re)computed after a test that refuses it
    (the deprecated stealth_auth= is turned into auth= before auth is validated; privateKeyFile= is loaded into
    privateKey before privateKey is validated)"""
    kk = 0
    for r in raises:
        for t in g.live:
            if t.kind != 'test' or not any(g.edge_dominates(t, lab, r) for lab in ('T', 'F')):
                continue
            names = set(x.id for x in ast.walk(t.ast) if isinstance(x, ast.Name) and x.id in unit.params)
            after = g.reachable([x for _, x in t.succ], follow_exc=False)
            for n in after:
                if n.kind == 'stmt' and isinstance(n.ast, (ast.Assign, ast.AugAssign)):
                    hit = names & set(assigned_targets(n.ast))
                    # a test inside the same conditional block as the definition belongs to that normalisation step
                    shared = any(g.edge_dominates(t2, lab, t) and g.edge_dominates(t2, lab, n)
                                 for t2 in g.live if t2.kind == 'test' and t2 is not t for lab in ('T', 'F'))
                    # clearing a consumed argument / folding a flag into a bool is not a recomputation
                    trivial = is_none(n.ast.value) or isinstance(const(n.ast.value), bool)
                    # an assignment that sits on one of the test's own legs is the normalisation the test selects
                    # (if x is None: x = default else: ... x = table[flag]), not a value the test failed to see
                    shared = shared or g.edge_dominates(t, 'T', n) or g.edge_dominates(t, 'F', n)
                    if hit and not trivial and not shared:
                        run.ob(rid, unit, n.ast, 'an option is not recomputed after the test that validates it', False, slot='late-definition:%s@%s' % (sorted(hit)[0], unit.name),
                               message='%s tests %s and only afterwards sets %s = %s: the refusal never sees that value, so the invalid combination is accepted '
                                       'and fails only after something has been started' % (unit.short, src(t.ast)[:50], sorted(hit)[0], src(n.ast.value)[:40]))
            kk += 1
    run.floor(rid, 'validation tests examined for late definitions in %s' % unit.name, kk, floor)


def r17_5(run):
    init = run.idx.find_method(EP(run), '__init__')
    g = cfg_of(init)
    raises = [n for n in g.real_nodes() if n.kind == 'stmt' and isinstance(n.ast, ast.Raise)]
    run.floor('R17.5', 'validation raises in __init__', len(raises), 4)

    def side_effect(n):
        for a in node_asts(n):
            if isinstance(a, ast.Call) and (dotted(a.func) or '') in ('tempfile.mkdtemp', 'self._reactor.addSystemEventTrigger', 'reactor.addSystemEventTrigger',
                                                                       'serverFromString', 'os.mkdir', 'os.makedirs'):
                return True
        return False
    se = [n for n in g.real_nodes() if side_effect(n)]
    run.floor('R17.5', 'side effects in __init__', len(se), 2)
    for r in raises:
        before = [s for s in se if r in g.reachable([x for _, x in s.succ])]
        run.ob('R17.5', init, r.ast, 'invalid option combinations are refused before anything is started', not before, slot='refuse-first:%s' % src(r.ast)[:50],
               message='__init__ can raise %s after %s' % (src(r.ast)[:40], [src(s.ast)[:40] for s in before]))
    late_definitions(run, 'R17.5', init, g, raises, 4)
    # the documented refusals exist
    combos = {'stealth+ephemeral': ("AuthStealth", 'ephemeral'), 'dir+ephemeral': ('hidden_service_dir is not None', 'ephemeral'),
              'key+filesystem': ('private_key is not None', 'not ephemeral'), 'single_hop+filesystem': ('single_hop', 'not ephemeral'),
              'stealth_auth+auth': ('auth is not None', None)}
    tests = {}
    for r in raises:
        conds = []
        for t in g.live:
            if t.kind == 'test':
                for lab in ('T', 'F'):
                    if g.edge_dominates(t, lab, r):
                        conds.append(('' if lab == 'T' else 'not ') + src(t.ast))
        tests[id(r)] = ' and '.join(conds)
    alltxt = ' | '.join(tests.values())
    for name, (a, b) in combos.items():
        ok = any(a in t and (b is None or b in t) for t in tests.values())
        run.ob('R17.5', init, init.node, 'refusal present: %s' % name, ok, slot='combo:%s' % name, message='no raise guarded by %s%s (guards: %s)' % (a, ' and ' + b if b else '', alltxt[:200]))
    # tempdir only when no directory was supplied
    mk = [n for n in se if any(is_call_to(a, 'tempfile.mkdtemp') for a in node_asts(n))]
    for n in mk:
        gd = g.guarded_by(n, lambda t: isinstance(t, ast.Compare) and dotted(t.left) == 'self.hidden_service_dir' and is_none(t.comparators[0]) and isinstance(t.ops[0], ast.Is))
        run.ob('R17.5', init, n.ast, 'a temporary directory is made only when none was supplied', any(lab == 'T' for _, lab in gd), slot='mkdtemp-guard', message='mkdtemp not guarded by hidden_service_dir is None')
    ps = run.idx.find_method(run.idx.cls('TCPHiddenServiceEndpointParser', MOD), 'parseStreamServer')
    g2 = cfg_of(ps)
    raises2 = [n for n in g2.real_nodes() if n.kind == 'stmt' and isinstance(n.ast, ast.Raise)]
    starts = [n for n in g2.real_nodes() if any(isinstance(a, ast.Call) and (dotted(a.func) or '') in ('clientFromString', 'TCPHiddenServiceEndpoint.system_tor',
                                                                                                      'TCPHiddenServiceEndpoint.global_tor', 'TCPHiddenServiceEndpoint.private_tor')
                                                   for a in node_asts(n))]
    run.floor('R17.5', 'validation raises in parseStreamServer', len(raises2), 4)
    late_definitions(run, 'R17.5', ps, g2, raises2, 4)
    for r in raises2:
        before = [s for s in starts if r in g2.reachable([x for _, x in s.succ])]
        ok = not before or all(isinstance(s.ast, ast.Assign) and 'clientFromString' in src(s.ast) for s in before)
        run.ob('R17.5', ps, r.ast, 'the onion: string parser refuses bad options before creating anything', ok, slot='parser-refuse:%s' % src(r.ast)[:40],
               message='parseStreamServer raises %s after starting %s' % (src(r.ast)[:40], [src(s.ast)[:40] for s in before]))


def r17_8(run):
    """The hostname Tor assigns is read from <dir>/hostname lazily and cached (_clients).  listen() builds the SETCONF through
    config_attributes() *before* Tor has written that file: a lazily-parsing accessor called there caches an empty client table
    for good, and the port's address then reports no hostname.  In config_attributes every such call sits behind a test that
    the cache is already filled."""
    ci = run.idx.cls('FilesystemAuthenticatedOnionService', 'onion')
    ca = run.idx.find_method(ci, 'config_attributes')
    if ca is None:
        raise AnchorVanished('FilesystemAuthenticatedOnionService.config_attributes')
    lazy = set()
    for name, m in ci.methods.items():
        if any(is_call_to(c, 'self._parse_hostname') for c in calls_in(m)) and name != '_parse_hostname':
            lazy.add(name)
    run.floor('R17.8', 'lazily parsing accessors', len(lazy), 2)
    g = cfg_of(ca)
    k = 0
    for n in g.real_nodes():
        for a in node_asts(n):
            if isinstance(a, ast.Call) and (dotted(a.func) or '').startswith('self.') and (dotted(a.func) or '').split('.')[-1] in lazy | set(['_parse_hostname']):
                k += 1
                gd = g.guarded_by(n, lambda t: dotted(t) == 'self._clients' or (isinstance(t, ast.Compare) and dotted(t.left) == 'self._clients'))
                ok = any((lab == 'T') if not isinstance(t.ast, ast.Compare) else ((lab == 'T') == isinstance(t.ast.ops[0], ast.IsNot)) for t, lab in gd) and n.kind != 'test' or \
                    any((lab == 'T') for t, lab in gd if dotted(t.ast) == 'self._clients')
                run.ob('R17.8', ca, a, 'config_attributes reads the client table only when it is already cached', ok, slot='lazy-parse-in-config_attributes',
                       message='config_attributes calls %s without knowing the hostname file has been read: during listen() Tor has not created it yet, '
                               'an empty client table is cached and the listening port never reports its .onion hostname' % src(a)[:40])
    run.floor('R17.8', 'accessor calls in config_attributes', k, 1)


def r17_7(run):
    """listen() resolves only after *this service's* descriptor wait is over: the wait's matcher and the
    armed-before-command order are the C15 rules, borrowed here because listen() is their only public caller"""
    from . import c15
    borrow(run, c15.r15_1, 'R17.7')
    borrow(run, c15.r15_5, 'R17.7')
    # ... and whether it fails at all when every upload failed (listen() must then fail and release its listener)
    borrow(run, c15.r15_7, 'R17.7')


def r17_6(run):
    k = dropped_deferreds(run, 'R17.6', [LU(run)], 'listen()')
    run.floor('R17.6', 'suspension points in listen', k, 4)
    li = LU(run)
    required_await(run, 'R17.6', li, lambda v: (dotted(v) or '').endswith('.post_bootstrap'),
                   lambda a: isinstance(a, ast.Call) and dotted(a.func) == 'self.tcp_endpoint.listen',
                   'the configuration bootstrap', 'the local listener is bound', 'await-config')
    _release_awaited(run)
    # the releasing handler re-raises: listen() fails with the original error
    g = cfg_of(li)
    rel = [n for n in g.real_nodes() if any(isinstance(a, ast.Attribute) and a.attr == 'stopListening' for a in node_asts(n))]
    for n in rel:
        if not any(h.kind == 'handler' and n in g.reachable([s_ for _, s_ in h.succ]) for h in g.live):
            continue
        r = g.reachable([s_ for lab, s_ in n.succ if lab != 'exc'], avoid=lambda x: x.kind == 'stmt' and isinstance(x.ast, ast.Raise), follow_exc=False)
        run.ob('R17.6', li, n.ast, 'after releasing the listener the failure is re-raised', not any(e in r for e in g.normal_exits()), slot='reraise-after-release',
               message='listen() releases the listener in its failure handler but then carries on instead of re-raising: it fails later with an unrelated '
                       'assertion (or returns a port for a service that does not exist)')


def _release_awaited(run):
    """the release of the local listener is waited for before the failure is reported: a real tcp.Port closes asynchronously
    (stopListening() returns a Deferred), so a release that is merely started leaves the listener open when listen() fails"""
    li = LU(run)
    k = 0
    for u in [li] + [c for c in _all_children(li)]:
        fn = u.node
        if not isinstance(fn, (ast.FunctionDef, ast.AsyncFunctionDef, ast.Lambda)):
            continue
        parent = {}
        for n in walk_unit(u):
            for ch in ast.iter_child_nodes(n):
                parent[id(ch)] = n
        for a in walk_unit(u):
            if not (isinstance(a, ast.Attribute) and a.attr == 'stopListening'):
                continue
            k += 1
            # climb through the call / maybeDeferred wrapper to the consuming construct
            x = a
            while id(x) in parent and isinstance(parent[id(x)], (ast.Call, ast.Attribute)) and not (
                    isinstance(parent[id(x)], ast.Call) and callee_attr(parent[id(x)]) in ('addCallback', 'addErrback', 'addBoth', 'addCallbacks') and x is not parent[id(x)].func):
                x = parent[id(x)]
            top = parent.get(id(x))
            if isinstance(fn, ast.Lambda):
                ok = True        # a lambda returns its body
            elif u is li:
                ok = isinstance(top, (ast.Yield, ast.Await))
            else:
                ok = isinstance(top, (ast.Return, ast.Yield, ast.Await))
            run.ob('R17.6', u, a, 'the release of the local listener is waited for (yielded in listen, returned from a callback)', ok, slot='release-awaited@%s' % u.short,
                   message='%s starts %s without waiting for it: listen() reports the failure while the local listener is still open' % (u.short, src(x)[:50]))
    run.floor('R17.6', 'release sites in listen', k, 1)


def _all_children(u):
    out = []
    for c in u.children:
        out.append(c)
        out.extend(_all_children(c))
    return out


def r17_9(run):
    """a filesystem service is created by TorConfig.save(): if Tor rejects that SETCONF (or the connection drops) save() must fail, so
    that create() fails, listen() fails with that error and releases its listener - the save-completion discipline of C10 (R10.5), shared"""
    from . import c10
    borrow(run, c10.r10_5, 'R17.9')


RULES = [
    ('R17.9', 'a rejected SETCONF fails save() and therefore listen() (R10.5 borrowed)', r17_9),
    ('R17.7', 'the descriptor wait listen() depends on is keyed on this service and armed before the creating command (rules R15.1/R15.5 borrowed)', r17_7),
    ('R17.8', 'config_attributes (used to build the SETCONF during listen) does not trigger the lazy hostname-file parse', r17_8),
    ('R17.6', 'no dropped Deferred in listen(): config, bind and creation are awaited in order', r17_6),
    ('R17.1', 'constant folding: the local listener description is tcp:0 on a loopback interface', r17_1),
    ('R17.2', 'sibling agreement of the four create() legs: mapping "<public> 127.0.0.1:<bound local port>", creator selected by (ephemeral, auth), options passed through', r17_2),
    ('R17.3', 'release-on-failure on the CFG with exception edges: every failure point after the bind reaches exit only through stopListening', r17_3),
    ('R17.4', 'listen resolves after creation with a port object wrapping the bound port; stopListening/getHost delegate', r17_4),
    ('R17.5', 'refuse-before-start: every validation raise precedes mkdtemp / event triggers / endpoint construction', r17_5),
]

from ..selftest import M  # noqa: E402
F = 'txtorcon/endpoints.py'
MUTANTS = [
    M('release-not-awaited', F, "                yield defer.maybeDeferred(port.stopListening)", "                defer.maybeDeferred(port.stopListening)", ['R17.6']),
    M('adopts-other-service', F, "                    if getattr(hs, 'dir', None) == os.path.abspath(self.hidden_service_dir):", "                    if getattr(hs, 'dir', None) != os.path.abspath(self.hidden_service_dir):", ['R17.4']),
    M('adopts-last-service', F, "                    if getattr(hs, 'dir', None) == os.path.abspath(self.hidden_service_dir):\n                        self.hiddenservice = hs", "                    self.hiddenservice = hs", ['R17.4']),
    M('keyfile-loaded-after-conflict-test', F, ["        if privateKeyFile is not None:\n            if privateKey is not None:", "        if hiddenServiceDir is not None and privateKey is not None:\n            raise ValueError(\n                \"Only one of hiddenServiceDir and privateKey/privateKeyFile accepted\"\n            )\n\n        if singleHop is not None:"], ["        if hiddenServiceDir is not None and privateKey is not None:\n            raise ValueError('conflict')\n        if privateKeyFile is not None:\n            if privateKey is not None:", "        if singleHop is not None:"], ['R17.5']),
    M('auth-address-no-uri', F, "            try:\n                self.onion_uri = _maybe_unique_host(hs)\n            except ValueError:", "            try:\n                _maybe_unique_host(hs)\n            except ValueError:", ['R17.4']),
    M('config-bootstrap-removed', F, "        yield self._config.post_bootstrap\n", "", ['R17.6']),
    M('handler-swallows', F, "                yield defer.maybeDeferred(port.stopListening)\n                raise\n", "                yield defer.maybeDeferred(port.stopListening)\n", ['R17.6', 'R17.3']),
    M('config-attrs-parses-hostname', 'txtorcon/onion.py', "        if self._clients:\n            rtn.append((\n                'HiddenServiceAuthorizeClient',", "        if self.client_names():\n            rtn.append((\n                'HiddenServiceAuthorizeClient',", ['R17.8']),
    M('dir-read-unguarded', F, "                    if getattr(hs, 'dir', None) == os.path.abspath(self.hidden_service_dir):", "                    if hs.dir == os.path.abspath(self.hidden_service_dir):", ['R17.3']),
    M('dir-list-unguarded', F, "hs_dirs = [hs.dir for hs in self._config.HiddenServices if hasattr(hs, 'dir')]", "hs_dirs = [hs.dir for hs in self._config.HiddenServices]", ['R17.3']),
    M('stealth-normalised-late', F, ["        # backwards-compatibility for stealth_auth= kwarg\n        if stealth_auth is not None:\n            log.msg(\"'stealth_auth' is deprecated; use auth= instead\")\n            if auth is not None:\n                raise ValueError(\n                    \"Both stealth_auth= and auth= passed; use auth= only for new code\"\n                )\n            auth = AuthStealth(stealth_auth)\n            stealth_auth = None\n\n", "        self._reactor = reactor\n        self._config = defer.maybeDeferred(lambda: config)"], ["", "        if stealth_auth is not None:\n            if auth is not None:\n                raise ValueError('both')\n            auth = AuthStealth(stealth_auth)\n            stealth_auth = None\n        self._reactor = reactor\n        self._config = defer.maybeDeferred(lambda: config)"], ['R17.5']),
    M('config-bootstrap-not-awaited', F, "        yield self._config.post_bootstrap\n", "        self._config.post_bootstrap\n", ['R17.6']),
    M('bind-all-interfaces', F, "'tcp:0:interface=127.0.0.1',", "'tcp:0',", ['R17.1']),
    M('bind-any', F, "'tcp:0:interface=127.0.0.1',", "'tcp:0:interface=0.0.0.0',", ['R17.1']),
    M('public-port-twice', F, "                        ['%d 127.0.0.1:%d' % (self.public_port, self.local_port)],\n                        private_key=self.private_key,\n                        detach=False,\n                        progress=self._descriptor_progress_update,\n                        version=self.version,\n                        single_hop=self.single_hop,\n                    )", "                        ['%d 127.0.0.1:%d' % (self.public_port, self.public_port)],\n                        private_key=self.private_key,\n                        detach=False,\n                        progress=self._descriptor_progress_update,\n                        version=self.version,\n                        single_hop=self.single_hop,\n                    )", ['R17.2']),
    M('local-port-not-read', F, "        self.local_port = self.tcp_listening_port.getHost().port\n", "        if self.local_port is None:\n            self.local_port = self.tcp_listening_port.getHost().port\n", ['R17.2']),
    M('legs-swapped', F, "        if not already:\n            if self.ephemeral:\n                if self.auth is not None:", "        if not already:\n            if self.ephemeral:\n                if self.auth is None:", ['R17.2']),
    M('leak-on-failure', F, "            try:\n                self.hiddenservice = yield create_d\n            except Exception:\n                # the service didn't come up, so don't leave our\n                # local listener behind\n                port, self.tcp_listening_port = self.tcp_listening_port, None\n                yield defer.maybeDeferred(port.stopListening)\n                raise\n", "            self.hiddenservice = yield create_d\n", ['R17.3']),
    M('release-only-protocol-errors', F, "            except Exception:\n                # the service didn't come up", "            except ValueError:\n                # the service didn't come up", ['R17.3']),
    M('return-before-create', F, "            try:\n                self.hiddenservice = yield create_d\n            except Exception:", "            create_d.addCallback(lambda hs: setattr(self, 'hiddenservice', hs))\n            self.hiddenservice = self.hiddenservice or object()\n            try:\n                pass\n            except Exception:", ['R17.4']),
    M('stop-does-nothing', F, "        self._local_address.stopListening()", "        pass", ['R17.4']),
    M('mkdtemp-before-validation', F, "        if ephemeral and isinstance(auth, AuthStealth):\n            raise ValueError(", "        if not ephemeral and hidden_service_dir is None:\n            hidden_service_dir = tempfile.mkdtemp(prefix='tortmp')\n        if ephemeral and isinstance(auth, AuthStealth):\n            raise ValueError(", ['R17.5']),
    M('key-with-filesystem-accepted', F, "        if private_key is not None and not ephemeral:\n            raise ValueError(\n                \"'private_key' only understood for ephemeral services\"\n            )\n", "", ['R17.5']),
]
TWINS = [
    M('loopback-constant', F, "'tcp:0:interface=127.0.0.1',", "'tcp:port=0:interface=127.0.0.1',"),
    M('try-finally-flag', F, "            try:\n                self.hiddenservice = yield create_d\n            except Exception:\n                # the service didn't come up, so don't leave our\n                # local listener behind\n                port, self.tcp_listening_port = self.tcp_listening_port, None\n                yield defer.maybeDeferred(port.stopListening)\n                raise\n", "            try:\n                self.hiddenservice = yield create_d\n            except BaseException:\n                port = self.tcp_listening_port\n                self.tcp_listening_port = None\n                yield port.stopListening()\n                raise\n"),
]
