"""R-X: cross-cutting definite-fault patterns, applied to the functions a property's own rules examined.

Each pattern is a construct that is wrong on *every* execution that reaches it (not a style
preference), has no instance on the reference tree, and is attributed to a property only when it
sits in a function that property's rules analyse (plus functions nested in them): a definite fault
in the mechanism that implements the property breaks the property for the inputs that reach it.

  X1  a closure created in a loop reads a name the loop rebinds and escapes the iteration
      (stored / passed on) without binding it (default argument / functools.partial)
  X2  a method of a str/bytes literal called with an impossible number of arguments
      (strip()/lstrip()/rstrip() with a multi-character literal was tried as X3 and dropped: it fired on
      launch()'s control_port.lstrip('unix:'), which is harmless for the absolute paths Tor accepts - a
      data-dependent smell, not a definite fault; the specific instance C13 needs is rule R13.6)
  X4  identity comparison (`is`) with a str/bytes/number literal
  X5  addCallbacks() whose errback used to be attached after the callback is handled where it
      matters by the per-property Deferred-chain rules; here: addCallback/addErrback given the
      *result* of calling a self method taking the event (f(x) instead of f) - a call executed
      at attach time
  X6  a name read in a function that nothing binds: not a local, not a name of an enclosing function, not a
      module-level name or import, not a builtin (symtable over the module text) - NameError on every execution
  X7  a local read at a statement that no definition of it reaches (reaching definitions over the function's CFG;
      names with binding forms the CFG does not model are skipped) - UnboundLocalError on every execution
  X8  a call of a function of the package (self.<method> with no overriding subclass, a nested / module-level / imported
      package function; undecorated or only inlineCallbacks / staticmethod / classmethod) whose arguments cannot be bound to
      its parameters (too many / missing / unknown keyword) - TypeError on every execution
A tiny embedded positive example is analysed on every run so that the patterns cannot go blind.
"""
import ast

from ..match import walk_unit, dotted, src, const, NOCONST, callee_attr, is_none
from .common import STR_METHOD_ARITY

POSITIVE = '''
def f(self, items, d):
    for name in items:
        d.append(lambda: self.mark(name))
    x = ', '.join(a, b)
    if kind is 'x':
        pass
    print(zork_undefined)
    use(late)
    late = 1
'''


def unbound_globals(module_src, filename='<module>'):
    """[(scope lineno, name)] for names read in function scopes of the module that resolve to a global nothing defines"""
    import symtable
    import builtins
    try:
        top = symtable.symtable(module_src, filename, 'exec')
    except SyntaxError:
        return None
    defined = set(dir(builtins)) | set(('__file__', '__name__', '__doc__', '__package__', '__spec__', '__loader__', '__builtins__', '__path__', '__class__'))
    star = 'import *' in module_src
    for sym in top.get_symbols():
        if sym.is_assigned() or sym.is_imported() or sym.is_namespace() or sym.is_parameter():
            defined.add(sym.get_name())
    out = []

    def walk(tab):
        for ch in tab.get_children():
            if ch.get_type() == 'function':
                for sym in ch.get_symbols():
                    if sym.is_referenced() and sym.is_global() and not sym.is_assigned() and sym.get_name() not in defined:
                        out.append((ch.get_lineno(), sym.get_name()))
            walk(ch)
        # names a function declares global and assigns define the module name too
    def globals_assigned(tab):
        for ch in tab.get_children():
            for sym in ch.get_symbols():
                if sym.is_declared_global() and sym.is_assigned():
                    defined.add(sym.get_name())
            globals_assigned(ch)
    globals_assigned(top)
    if star:
        return []
    walk(top)
    return out


SAFE_DECORATORS = ('inlineCallbacks', 'defer.inlineCallbacks', 'staticmethod', 'classmethod')


def arity_fault(defn, call, drop_first):
    """why `call` cannot be bound to `defn`'s parameters (None: it can, or it cannot be told)"""
    if any(isinstance(x, ast.Starred) for x in call.args) or any(k.arg is None for k in call.keywords):
        return None
    a = defn.args
    pos = [x.arg for x in getattr(a, 'posonlyargs', []) + a.args]
    if drop_first and pos:
        pos = pos[1:]
    ndef = len(a.defaults)
    required = pos[:len(pos) - ndef] if ndef <= len(pos) else []
    n = len(call.args)
    kws = [k.arg for k in call.keywords]
    if n > len(pos) and a.vararg is None:
        return 'takes at most %d positional arguments, %d given' % (len(pos), n)
    kwonly = [x.arg for x in a.kwonlyargs]
    for k in kws:
        if k not in pos and k not in kwonly and a.kwarg is None:
            return 'has no parameter %r' % k
        if k in pos[:n]:
            return 'gets %r both by position and by keyword' % k
    posonly = [x.arg for x in getattr(a, 'posonlyargs', [])]
    missing = [r for i, r in enumerate(required) if i >= n and (r not in kws or r in posonly)]
    if missing:
        return 'is called without its required %s' % ', '.join(missing)
    missing_kw = [x.arg for x, d in zip(a.kwonlyargs, a.kw_defaults) if d is None and x.arg not in kws]
    if missing_kw:
        return 'is called without its required keyword-only %s' % ', '.join(missing_kw)
    return None


def call_arity_faults(idx, unit):
    """[(call node, message)] for resolved package calls in `unit` that cannot bind"""
    from .common import resolve_refs
    out = []
    calls = dict((id(c.func), c) for c in walk_unit(unit) if isinstance(c, ast.Call))
    shadow = set()
    q = unit
    while q is not None:
        if isinstance(q.node, (ast.FunctionDef, ast.AsyncFunctionDef, ast.Lambda)):
            shadow |= _params(q.node)
            shadow |= set(x.id for x in _own_nodes(q.node) if isinstance(x, ast.Name) and isinstance(x.ctx, ast.Store))
        q = q.parent
    for tgt, a, kind in resolve_refs(idx, unit):
        if kind != 'call' or id(a) not in calls or not isinstance(tgt.node, (ast.FunctionDef, ast.AsyncFunctionDef)):
            continue
        decs = [dotted(d) or dotted(getattr(d, 'func', None)) for d in tgt.node.decorator_list]
        if any(d not in SAFE_DECORATORS for d in decs):
            continue
        drop = False
        if isinstance(a, ast.Attribute) and isinstance(a.value, ast.Name) and a.value.id == 'self':
            ci = unit.owner_cls
            if ci is None or any(idx.find_method(sc, a.attr) is not tgt for sc in idx.subclasses(ci)):
                continue
            drop = 'staticmethod' not in decs
        elif isinstance(a, ast.Name):
            if a.id in shadow and not any(c.name == a.id for c in unit.children):
                continue
            if tgt.cls is not None and tgt.parent is None:
                continue
        elif tgt.cls is not None:
            continue
        why = arity_fault(tgt.node, calls[id(a)], drop)
        if why:
            out.append((calls[id(a)], '%s %s' % (tgt.short, why)))
    return out


def _own_nodes(fn):
    """nodes of fn's own scope (nested functions/lambdas/classes not entered)"""
    stack = list(fn.body) if isinstance(fn.body, list) else [fn.body]
    while stack:
        n = stack.pop()
        yield n
        if isinstance(n, (ast.FunctionDef, ast.AsyncFunctionDef, ast.Lambda, ast.ClassDef)):
            continue
        stack.extend(ast.iter_child_nodes(n))


def never_defined_locals(unit):
    """[(ast stmt/test, name)] local reads that no definition reaches"""
    from .common import cfg_of, reaching_defs, node_assigns, node_asts
    fn = unit.node
    if not isinstance(fn, (ast.FunctionDef, ast.AsyncFunctionDef)):
        return []
    own = list(_own_nodes(fn))
    if any(isinstance(n, (ast.Delete, ast.Global, ast.Nonlocal, ast.NamedExpr)) for n in own):
        return []
    comp_bound = set(x.id for n in own if isinstance(n, ast.comprehension) for x in ast.walk(n.target) if isinstance(x, ast.Name))
    stores = {}
    for n in own:
        if isinstance(n, ast.Name) and isinstance(n.ctx, ast.Store) and n.id not in comp_bound:
            stores[n.id] = stores.get(n.id, 0) + 1
        elif isinstance(n, (ast.Import, ast.ImportFrom)):
            for al in n.names:
                stores[(al.asname or al.name).split('.')[0]] = 10 ** 6      # not modelled: skip these names
        elif isinstance(n, ast.ExceptHandler) and n.name:
            stores[n.name] = 10 ** 6                                           # unbound again after the handler: skip
        elif isinstance(n, (ast.MatchAs, ast.MatchStar)) and getattr(n, 'name', None):
            stores[n.name] = 10 ** 6
    params = _params(fn)
    g = cfg_of(unit)
    out = []
    for name, cnt in stores.items():
        if name in params or name in comp_bound:
            continue
        defs = [n for n in g.nodes if node_assigns(n, name)]
        # every store of the name is modelled by a CFG node (dead code excluded: compare on all nodes)
        modelled = 0
        for n in defs:
            roots = [n.ast.target] if n.kind == 'iter' else [i.optional_vars for i in n.ast.items if i.optional_vars is not None] if n.kind == 'with' else \
                (n.ast.targets if isinstance(n.ast, ast.Assign) else [n.ast.target] if isinstance(n.ast, (ast.AugAssign, ast.AnnAssign)) else [])
            modelled += sum(1 for r in roots for x in ast.walk(r) if isinstance(x, ast.Name) and isinstance(x.ctx, ast.Store) and x.id == name)
        if modelled != cnt:
            continue
        for n in g.live:
            if n.kind not in ('stmt', 'test', 'iter', 'with'):
                continue
            reads = False
            for a in node_asts(n):
                stack = [a]
                while stack:
                    x = stack.pop()
                    if isinstance(x, (ast.Lambda, ast.FunctionDef, ast.AsyncFunctionDef, ast.ClassDef)):
                        continue
                    if isinstance(x, ast.Name) and x.id == name and isinstance(x.ctx, ast.Load):
                        reads = True
                    stack.extend(ast.iter_child_nodes(x))
            if isinstance(n.ast, ast.AugAssign) and isinstance(n.ast.target, ast.Name) and n.ast.target.id == name:
                reads = True
            if not reads:
                continue
            rd = reaching_defs(g, n, name)
            if rd and all(d is g.entry for d in rd):
                out.append((n.ast, name))
    return out


def _params(fn):
    a = fn.args
    out = set(x.arg for x in a.args + a.kwonlyargs + getattr(a, 'posonlyargs', []))
    if a.vararg:
        out.add(a.vararg.arg)
    if a.kwarg:
        out.add(a.kwarg.arg)
    return out


def _bound_in(fn):
    """names bound inside a function body (assignments, for targets, withs, comprehensions excluded)"""
    out = set()
    body = fn.body if isinstance(fn.body, list) else [fn.body]
    for b in body:
        for x in ast.walk(b):
            if isinstance(x, ast.Name) and isinstance(x.ctx, ast.Store):
                out.add(x.id)
    return out


def late_bound(fn_node):
    """[(closure node, captured names)] for closures in loops of fn_node that escape unbound"""
    out = []
    for lp in [n for n in ast.walk(fn_node) if isinstance(n, (ast.For, ast.While))]:
        rebound = set()
        if isinstance(lp, ast.For):
            rebound |= set(x.id for x in ast.walk(lp.target) if isinstance(x, ast.Name) and isinstance(x.ctx, ast.Store))
        for st in lp.body:
            for x in ast.walk(st):
                if isinstance(x, (ast.Assign, ast.AugAssign, ast.AnnAssign)):
                    for t in (x.targets if isinstance(x, ast.Assign) else [x.target]):
                        for y in ast.walk(t):
                            if isinstance(y, ast.Name) and isinstance(y.ctx, ast.Store):
                                rebound.add(y.id)
                elif isinstance(x, (ast.For, ast.comprehension)) and x is not lp:
                    pass
        # closures directly in this loop's body (not in a nested function)
        stack = list(lp.body)
        closures = []
        while stack:
            n = stack.pop()
            if isinstance(n, (ast.Lambda, ast.FunctionDef, ast.AsyncFunctionDef)):
                closures.append(n)
                continue
            stack.extend(ast.iter_child_nodes(n))
        for c in closures:
            body = c.body if isinstance(c.body, list) else [c.body]
            free = set(x.id for b in body for x in ast.walk(b) if isinstance(x, ast.Name) and isinstance(x.ctx, ast.Load))
            free -= _params(c)
            free -= _bound_in(c)
            cap = free & rebound
            if not cap:
                continue
            # escapes? a lambda that is the func of an immediate call does not; a def that is only called in the loop does not
            immediate = False
            for x in ast.walk(lp):
                if isinstance(x, ast.Call) and x.func is c:
                    immediate = True
            if isinstance(c, (ast.FunctionDef, ast.AsyncFunctionDef)):
                uses = [x for st in lp.body for x in ast.walk(st) if isinstance(x, ast.Name) and x.id == c.name and isinstance(x.ctx, ast.Load)]
                called = [x for st in lp.body for x in ast.walk(st) if isinstance(x, ast.Call) and isinstance(x.func, ast.Name) and x.func.id == c.name]
                if uses and len(uses) == len(called):
                    immediate = True
            if not immediate:
                out.append((c, sorted(cap)))
    return out


def definite_faults(fn_node):
    """[(node, code, message)]"""
    out = []
    for c, cap in late_bound(fn_node):
        out.append((c, 'X1', 'a closure created in a loop reads %s when it is called, not when it is made: every closure sees the value of the last iteration'
                    % '/'.join(cap)))
    for a in ast.walk(fn_node):
        if isinstance(a, ast.Call) and isinstance(a.func, ast.Attribute):
            recv = a.func.value
            if isinstance(const(recv), (str, bytes)) and a.func.attr in STR_METHOD_ARITY and not a.keywords \
                    and not any(isinstance(x, ast.Starred) for x in a.args):
                lo, hi = STR_METHOD_ARITY[a.func.attr]
                if not (lo <= len(a.args) <= hi):
                    out.append((a, 'X2', '%s always raises TypeError (%s takes %d..%d arguments)' % (src(a)[:50], a.func.attr, lo, hi)))
        if isinstance(a, ast.Compare) and any(isinstance(op, (ast.Is, ast.IsNot)) for op in a.ops):
            for x in [a.left] + list(a.comparators):
                v = const(x)
                if v is not NOCONST and v is not None and not isinstance(v, bool) and isinstance(v, (str, bytes, int, float)):
                    out.append((a, 'X4', '%s compares identity with a literal: true or false depending on interning, not on the value' % src(a)[:50]))
    return out


class _PosUnit(object):
    """just enough of a Unit for the CFG builder (the embedded positive example)"""
    def __init__(self, node):
        self.node = node
        self.body = node.body
        self.children = []
        self.parent = None
        self.cls = None
        self.owner_cls = None
        self.name = self.short = self.qual = node.name
        self.params = [a.arg for a in node.args.args]
        self.module = None

    def is_inline_callbacks(self):
        return False


def _descendants(u):
    out = []
    for c in u.children:
        out.append(c)
        out.extend(_descendants(c))
    return out


def check(run, rid='R-X'):
    """apply the patterns to every function the property's rules touched (and functions nested in them)"""
    quals = set(run.units_analysed)
    units = []
    for u in run.idx.all_units():
        q = u
        while q is not None:
            if q.qual in quals:
                units.append(u)
                break
            q = q.parent
    seen = set()
    k = 0
    globals_by_module = {}
    for u in units:
        if not isinstance(u.node, (ast.FunctionDef, ast.AsyncFunctionDef, ast.Lambda)):
            continue
        if id(u.node) in seen:
            continue
        # only the top-most analysed function is walked (ast.walk covers nested ones)
        p = u.parent
        nested = False
        while p is not None:
            if id(p.node) in seen and isinstance(p.node, (ast.FunctionDef, ast.AsyncFunctionDef)):
                nested = True
            p = p.parent
        seen.add(id(u.node))
        if nested:
            continue
        k += 1
        ug = globals_by_module.get(u.module.name)
        if ug is None:
            ug = globals_by_module[u.module.name] = unbound_globals(u.module.src, u.module.rel) or []
        lo, hi = u.node.lineno, getattr(u.node, 'end_lineno', u.node.lineno)
        for ln, nm in ug:
            if lo <= ln <= hi:
                at = next((x for x in ast.walk(u.node) if isinstance(x, ast.Name) and x.id == nm), u.node)
                run.ob(rid, u, at, 'no definite-fault construct (X6)', False, slot='X6@%s:%s' % (u.short, nm),
                       message='%s: reads %s, which nothing binds (no local, enclosing, module-level or builtin name): NameError whenever this line runs' % (u.short, nm))
        for sub in [u] + _descendants(u):
            for at, nm in never_defined_locals(sub):
                run.ob(rid, sub, at, 'no definite-fault construct (X7)', False, slot='X7@%s:%s' % (sub.short, nm),
                       message='%s: reads the local %s at a point no assignment of it reaches: UnboundLocalError whenever this line runs' % (sub.short, nm))
        for sub in [u] + _descendants(u):
            for at, msg in call_arity_faults(run.idx, sub):
                run.ob(rid, sub, at, 'no definite-fault construct (X8)', False, slot='X8@%s:%s' % (sub.short, src(at.func)[:30]),
                       message='%s: %s: TypeError whenever this call runs' % (sub.short, msg))
        for node, code, msg in definite_faults(u.node):
            run.ob(rid, u, node, 'no definite-fault construct (%s)' % code, False, slot='%s@%s' % (code, u.short), message='%s: %s' % (u.short, msg))
        run.ob(rid, u, u.node, 'scanned for definite-fault constructs', True)
    # the patterns still see their positive example
    pos = ast.parse(POSITIVE).body[0]
    codes = sorted(set(c for _, c, _ in definite_faults(pos)))
    if codes != ['X1', 'X2', 'X4']:
        run.undecide(rid, '-', 'positive example no longer matched: %s' % codes)
    if 'zork_undefined' not in [nm for _, nm in unbound_globals(POSITIVE) or []]:
        run.undecide(rid, '-', 'positive example for X6 no longer matched')
    pa = ast.parse('def g(a, b=1, *, c):\n    pass\ng(1, 2, 3, c=0)\ng(1)\ng(1, c=2)\ng(b=2, c=1)\ng(1, d=2, c=1)\n').body
    got = [arity_fault(pa[0], st.value, False) is not None for st in pa[1:]]
    if got != [True, True, False, True, True]:
        run.undecide(rid, '-', 'positive example for X8 no longer matched: %s' % got)
    punit = _PosUnit(pos)
    if [nm for _, nm in never_defined_locals(punit)] != ['late']:
        run.undecide(rid, '-', 'positive example for X7 no longer matched')
    run.floor(rid, 'functions scanned', k, 1)
