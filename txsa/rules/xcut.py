"""R-X: cross-cutting definite-fault patterns, applied to the functions a property's own rules examined.

Each pattern is a construct that is wrong on *every* execution that reaches it (not a style
preference), has no instance on the reference tree, and is attributed to a property only when it
sits in a function that property's rules analyse (plus functions nested in them): a definite fault
in the mechanism that implements the property breaks the property for the inputs that reach it.

  X1  a closure created in a loop reads a name the loop rebinds and escapes the iteration
      (stored / passed on) without binding it (default argument / functools.partial)
  X2  a method of a str/bytes literal called with an impossible number of arguments
      (strip()/lstrip()/rstrip() with a multi-character literal was tried as X3 and dropped: it fired on
      launch()'s control_port.lstrip('unix:'), which is harmless for the absolute paths Tor accepts - a
      data-dependent smell, not a definite fault; the specific instance C13 needs is rule R13.6)
  X4  identity comparison (`is`) with a str/bytes/number literal
  X5  addCallbacks() whose errback used to be attached after the callback is handled where it
      matters by the per-property Deferred-chain rules; here: addCallback/addErrback given the
      *result* of calling a self method taking the event (f(x) instead of f) - a call executed
      at attach time
A tiny embedded positive example is analysed on every run so that the patterns cannot go blind.
"""
import ast

from ..match import walk_unit, dotted, src, const, NOCONST, callee_attr, is_none
from .common import STR_METHOD_ARITY

POSITIVE = '''
def f(self, items, d):
    for name in items:
        d.append(lambda: self.mark(name))
    x = ', '.join(a, b)
    if kind is 'x':
        pass
'''


def _params(fn):
    a = fn.args
    out = set(x.arg for x in a.args + a.kwonlyargs + getattr(a, 'posonlyargs', []))
    if a.vararg:
        out.add(a.vararg.arg)
    if a.kwarg:
        out.add(a.kwarg.arg)
    return out


def _bound_in(fn):
    """names bound inside a function body (assignments, for targets, withs, comprehensions excluded)"""
    out = set()
    body = fn.body if isinstance(fn.body, list) else [fn.body]
    for b in body:
        for x in ast.walk(b):
            if isinstance(x, ast.Name) and isinstance(x.ctx, ast.Store):
                out.add(x.id)
    return out


def late_bound(fn_node):
    """[(closure node, captured names)] for closures in loops of fn_node that escape unbound"""
    out = []
    for lp in [n for n in ast.walk(fn_node) if isinstance(n, (ast.For, ast.While))]:
        rebound = set()
        if isinstance(lp, ast.For):
            rebound |= set(x.id for x in ast.walk(lp.target) if isinstance(x, ast.Name) and isinstance(x.ctx, ast.Store))
        for st in lp.body:
            for x in ast.walk(st):
                if isinstance(x, (ast.Assign, ast.AugAssign, ast.AnnAssign)):
                    for t in (x.targets if isinstance(x, ast.Assign) else [x.target]):
                        for y in ast.walk(t):
                            if isinstance(y, ast.Name) and isinstance(y.ctx, ast.Store):
                                rebound.add(y.id)
                elif isinstance(x, (ast.For, ast.comprehension)) and x is not lp:
                    pass
        # closures directly in this loop's body (not in a nested function)
        stack = list(lp.body)
        closures = []
        while stack:
            n = stack.pop()
            if isinstance(n, (ast.Lambda, ast.FunctionDef, ast.AsyncFunctionDef)):
                closures.append(n)
                continue
            stack.extend(ast.iter_child_nodes(n))
        for c in closures:
            body = c.body if isinstance(c.body, list) else [c.body]
            free = set(x.id for b in body for x in ast.walk(b) if isinstance(x, ast.Name) and isinstance(x.ctx, ast.Load))
            free -= _params(c)
            free -= _bound_in(c)
            cap = free & rebound
            if not cap:
                continue
            # escapes? a lambda that is the func of an immediate call does not; a def that is only called in the loop does not
            immediate = False
            for x in ast.walk(lp):
                if isinstance(x, ast.Call) and x.func is c:
                    immediate = True
            if isinstance(c, (ast.FunctionDef, ast.AsyncFunctionDef)):
                uses = [x for st in lp.body for x in ast.walk(st) if isinstance(x, ast.Name) and x.id == c.name and isinstance(x.ctx, ast.Load)]
                called = [x for st in lp.body for x in ast.walk(st) if isinstance(x, ast.Call) and isinstance(x.func, ast.Name) and x.func.id == c.name]
                if uses and len(uses) == len(called):
                    immediate = True
            if not immediate:
                out.append((c, sorted(cap)))
    return out


def definite_faults(fn_node):
    """[(node, code, message)]"""
    out = []
    for c, cap in late_bound(fn_node):
        out.append((c, 'X1', 'a closure created in a loop reads %s when it is called, not when it is made: every closure sees the value of the last iteration'
                    % '/'.join(cap)))
    for a in ast.walk(fn_node):
        if isinstance(a, ast.Call) and isinstance(a.func, ast.Attribute):
            recv = a.func.value
            if isinstance(const(recv), (str, bytes)) and a.func.attr in STR_METHOD_ARITY and not a.keywords \
                    and not any(isinstance(x, ast.Starred) for x in a.args):
                lo, hi = STR_METHOD_ARITY[a.func.attr]
                if not (lo <= len(a.args) <= hi):
                    out.append((a, 'X2', '%s always raises TypeError (%s takes %d..%d arguments)' % (src(a)[:50], a.func.attr, lo, hi)))
        if isinstance(a, ast.Compare) and any(isinstance(op, (ast.Is, ast.IsNot)) for op in a.ops):
            for x in [a.left] + list(a.comparators):
                v = const(x)
                if v is not NOCONST and v is not None and not isinstance(v, bool) and isinstance(v, (str, bytes, int, float)):
                    out.append((a, 'X4', '%s compares identity with a literal: true or false depending on interning, not on the value' % src(a)[:50]))
    return out


def check(run, rid='R-X'):
    """apply the patterns to every function the property's rules touched (and functions nested in them)"""
    quals = set(run.units_analysed)
    units = []
    for u in run.idx.all_units():
        q = u
        while q is not None:
            if q.qual in quals:
                units.append(u)
                break
            q = q.parent
    seen = set()
    k = 0
    for u in units:
        if not isinstance(u.node, (ast.FunctionDef, ast.AsyncFunctionDef, ast.Lambda)):
            continue
        if id(u.node) in seen:
            continue
        # only the top-most analysed function is walked (ast.walk covers nested ones)
        p = u.parent
        nested = False
        while p is not None:
            if id(p.node) in seen and isinstance(p.node, (ast.FunctionDef, ast.AsyncFunctionDef)):
                nested = True
            p = p.parent
        seen.add(id(u.node))
        if nested:
            continue
        k += 1
        for node, code, msg in definite_faults(u.node):
            run.ob(rid, u, node, 'no definite-fault construct (%s)' % code, False, slot='%s@%s' % (code, u.short), message='%s: %s' % (u.short, msg))
        run.ob(rid, u, u.node, 'scanned for definite-fault constructs', True)
    # the patterns still see their positive example
    pos = ast.parse(POSITIVE).body[0]
    codes = sorted(set(c for _, c, _ in definite_faults(pos)))
    if codes != ['X1', 'X2', 'X4']:
        run.undecide(rid, '-', 'positive example no longer matched: %s' % codes)
    run.floor(rid, 'functions scanned', k, 1)
