"""C19 - launch fires at most once; success only after full bootstrap; tempdir removed."""
import ast

from .common import *  # noqa

MOD = 'controller'


def PP(run):
    return run.idx.cls('TorProcessProtocol', MOD)


def PU(run, name):
    u = run.idx.find_method(PP(run), name)
    if u is None:
        raise AnchorVanished('TorProcessProtocol.' + name)
    return u


def r19_1(run):
    pp = PP(run)
    mn = PU(run, '_maybe_notify_connected')
    g = cfg_of(mn)
    # guard-and-latch
    guards = [(t, 'T' if isinstance(t.ast.ops[0], ast.Is) else 'F') for t in g.live if t.kind == 'test' and isinstance(t.ast, ast.Compare)
              and dotted(t.ast.left) == 'self._connected_listeners' and is_none(t.ast.comparators[0])]
    run.ob('R19.1', mn, mn.node, 'the notifier tests whether it has already fired', bool(guards), slot='has-guard', message='_maybe_notify_connected has no "already notified" test')
    for p in g.paths(loop_bound=2):
        run.paths_enumerated += 1
        if p.exit == 'raise':
            continue
        fired_before = any(n is t and lab == fl for n, lab in p.steps for t, fl in guards)
        ncb = sum(1 for n, _ in p.steps for a in node_asts(n) if n.kind == 'stmt' and isinstance(a, ast.Call) and callee_attr(a) in ('callback', 'errback'))
        iters = sum(1 for n, lab in p.steps if n.kind == 'iter' and lab == 'body')
        latch = any(n.kind == 'stmt' and isinstance(n.ast, ast.Assign) and assign_to(n.ast, 'self._connected_listeners') is not None and
                    is_none(assign_to(n.ast, 'self._connected_listeners')) for n, _ in p.steps)
        if fired_before:
            run.ob('R19.1', mn, mn.node, 'a second outcome notifies nobody', ncb == 0, slot='second-silent', message='listeners called again after the launch result was already delivered')
        else:
            run.ob('R19.1', mn, mn.node, 'the first outcome calls each waiter once and latches', ncb == iters and latch, slot='first-latches',
                   message='first notification: %d callbacks for %d waiters, latch=%s' % (ncb, iters, latch))
    # who touches the waiter list
    allowed = {'__init__': 'init', 'when_connected': 'append', '_maybe_notify_connected': 'fire'}
    k = 0
    for u in class_units(run.idx, pp):
        top = u
        while top.parent is not None:
            top = top.parent
        for n in walk_unit(u):
            if isinstance(n, ast.Attribute) and dotted(n) == 'self._connected_listeners':
                k += 1
                run.ob('R19.1', u, n, 'the waiter list is used only by __init__/when_connected/_maybe_notify_connected', top.name in allowed, slot='touch@%s' % u.short,
                       message='%s touches _connected_listeners (could fire or drop launch waiters directly)' % u.short)
    run.floor('R19.1', 'uses of _connected_listeners', k, 5)
    callers = [(u, c) for u in class_units(run.idx, pp) for c in calls_in(u, 'self._maybe_notify_connected')]
    run.floor('R19.1', 'calls of _maybe_notify_connected', len(callers), 3)
    wc = PU(run, 'when_connected')
    gw = cfg_of(wc)
    for p in gw.paths():
        if p.exit == 'raise':
            continue
        done = any(n.kind == 'test' and dotted(getattr(n.ast, 'left', None)) == 'self._connected_listeners' and
                   ((lab == 'T') == isinstance(n.ast.ops[0], ast.Is)) for n, lab in p.steps if n.kind == 'test' and isinstance(n.ast, ast.Compare))
        reg = any(is_call_to(a, 'self._connected_listeners.append') for n, _ in p.steps for a in node_asts(n))
        run.ob('R19.1', wc, wc.node, 'a wait requested %s' % ('after the outcome resolves at once' if done else 'before the outcome is registered'),
               (not reg) if done else reg, slot='when_connected:%s' % ('done' if done else 'pending'), message='when_connected: done=%s registers=%s' % (done, reg))


def _is_failure_arg(u, a):
    if a is None:
        return False
    t = src(a)
    if 'Failure(' in t:
        return True
    if isinstance(a, ast.Name):
        ds = local_defs(u).get(a.id, [])
        return bool(ds) and all(d[0] == 'expr' and 'Failure(' in src(d[1]) for d in ds)
    return False


def r19_2(run):
    pp = PP(run)
    sc = PU(run, '_status_client')
    PROG = (names_defined_by(sc, lambda v: "['PROGRESS']" in src(v) and not isinstance(v, (ast.Tuple, ast.List))) or [None])[0]
    PROG_EXPR = None
    if PROG is None:
        # the fields travel as a tuple that is unpacked later: (int(kw['PROGRESS']), ...) = record; prog, tag, summary = record
        for rec in names_defined_by(sc, lambda v: isinstance(v, (ast.Tuple, ast.List)) and "['PROGRESS']" in src(v)):
            tv = [n.value for n in walk_unit(sc) if isinstance(n, ast.Assign) and assign_to(n, rec) is not None and isinstance(n.value, (ast.Tuple, ast.List))]
            pos = [i for i, e in enumerate(tv[0].elts) if "['PROGRESS']" in src(e)] if tv else []
            for n in walk_unit(sc):
                if isinstance(n, ast.Assign) and isinstance(n.targets[0], (ast.Tuple, ast.List)) and dotted(n.value) == rec and pos and len(n.targets[0].elts) == len(tv[0].elts) \
                        and isinstance(n.targets[0].elts[pos[0]], ast.Name):
                    PROG, PROG_EXPR = n.targets[0].elts[pos[0]].id, tv[0].elts[pos[0]]
    if PROG is None:
        raise Undecided('_status_client: the local that holds the PROGRESS value was not found')
    for u in class_units(run.idx, pp):
        for c in calls_in(u, 'self._maybe_notify_connected'):
            arg = c.args[0] if c.args else None
            if _is_failure_arg(u, arg):
                continue
            ok = u is sc and dotted(arg) == 'self'
            run.ob('R19.2', u, c, 'success is announced only from _status_client', ok, slot='success@%s' % u.short, message='%s announces success (%s)' % (u.short, src(arg)))
            if ok:
                g = cfg_of(sc)
                for n in g.nodes_containing(c):
                    # every feasible path to the announcement (flags set to constants are followed) has taken prog == 100 and
                    # the BOOTSTRAP test the right way
                    def took(p_, pred, want):
                        return any(x.kind == 'test' and pred(x.ast) and want(x.ast, lab_) for x, lab_ in p_.steps)
                    ps_ = [p_ for p_ in g.paths(stop=lambda x, n=n: x is n, follow_exc=False) if p_.last is n]
                    run.paths_enumerated += len(ps_)
                    is100 = lambda t: isinstance(t, ast.Compare) and dotted(t.left) == PROG and isinstance(t.ops[0], (ast.Eq, ast.NotEq)) and const(t.comparators[0]) == 100
                    isbs = lambda t: isinstance(t, ast.Compare) and len(t.ops) == 1 and isinstance(t.ops[0], (ast.Eq, ast.NotEq)) and const(t.comparators[0]) == 'BOOTSTRAP'
                    ok1 = bool(ps_) and all(took(p_, is100, lambda t, l: (l == 'T') == isinstance(t.ops[0], ast.Eq)) for p_ in ps_)
                    run.ob('R19.2', sc, c, 'success only at PROGRESS=100', ok1, slot='prog-100',
                           message='launch success reachable without prog == 100')
                    ok2 = bool(ps_) and all(took(p_, isbs, lambda t, l: (l == 'T') == isinstance(t.ops[0], ast.Eq)) for p_ in ps_)
                    run.ob('R19.2', sc, c, 'only BOOTSTRAP status events count', ok2, slot='bootstrap-only', message='success reachable for non-BOOTSTRAP STATUS_CLIENT events')
                    # a pending timeout is cancelled before success is announced
                    canc = g.nodes_where(lambda x: any(is_call_to(a, 'self._timeout_delayed_call.cancel') for a in node_asts(x)))
                    tt = [t for t in g.live if t.kind == 'test' and dotted(t.ast) == 'self._timeout_delayed_call']
                    okc = bool(canc) and bool(tt) and all(not (n in g.reachable([s_ for lab, s_ in t.succ if lab == 'T'], avoid=lambda x: x in canc)) for t in tt)
                    run.ob('R19.2', sc, c, 'a pending launch timeout is cancelled before success is announced', okc, slot='cancel-timeout',
                           message='success is announced with the timeout still armed: it later TERMs the running Tor')
    gsc = cfg_of(sc)
    for n in gsc.nodes_where(lambda x: any(is_call_to(a, 'self._timeout_delayed_call.cancel') for a in node_asts(x))):
        gd = gsc.guarded_by(n, lambda t: isinstance(t, ast.Compare) and isinstance(t.ops[0], (ast.Eq, ast.NotEq)) and const(t.comparators[0]) == 100)
        ok = any((lab == 'T') == isinstance(t.ast.ops[0], ast.Eq) for t, lab in gd)
        run.ob('R19.2', sc, n.ast, 'the launch timeout stays armed until bootstrap reaches 100%', ok, slot='cancel-only-at-100',
               message='the launch timeout is cancelled on a progress event below 100%: a Tor that stalls afterwards is never '
                       'terminated and launch() never fires')
    for u2 in class_units(run.idx, pp):
        if u2 is sc:
            continue
        for c2 in calls_in(u2, 'self._timeout_delayed_call.cancel'):
            run.ob('R19.2', u2, c2, 'the launch timeout is cancelled only on success', False, slot='cancel@%s' % u2.short, message='%s cancels the launch timeout' % u2.short)
    # the deadline is never moved: nothing postpones or re-arms the launch timeout (a failed connection attempt, output on
    # stderr ... are no reason to give Tor more time than the caller allowed)
    for u2 in class_units(run.idx, pp):
        for c2 in calls_in(u2):
            if dotted(c2.func) in ('self._timeout_delayed_call.reset', 'self._timeout_delayed_call.delay'):
                run.ob('R19.2', u2, c2, 'the launch deadline is never postponed', False, slot='deadline-moved@%s' % u2.short,
                       message='%s calls %s: at the deadline the caller gave, the launch has neither failed nor has Tor been told to terminate' % (u2.short, src(c2)[:50]))
        if u2.name != '__init__':
            for st, v in writes_of(u2, 'self._timeout_delayed_call'):
                if not is_none(v):
                    run.ob('R19.2', u2, st, 'the launch timeout is armed once, in the constructor', False, slot='timeout-rearmed@%s' % u2.short,
                           message='%s re-arms the launch timeout (%s)' % (u2.short, src(v)[:40]))
    defs = local_defs(sc)
    pd = defs.get(PROG, [])
    kwn = names_defined_by(sc, lambda v: isinstance(v, ast.Call) and (dotted(v.func) or '').endswith('find_keywords'))
    ok = len(pd) == 1 and pd[0][0] == 'expr' and len(kwn) == 1 and src(pd[0][1]) == "int(%s['PROGRESS'])" % kwn[0]
    if PROG_EXPR is not None:
        ok = len(kwn) == 1 and src(PROG_EXPR) == "int(%s['PROGRESS'])" % kwn[0]
    run.ob('R19.2', sc, sc.node, 'progress is the PROGRESS field of the event', ok, slot='prog-source', message='prog = %s' % [src(d[1]) for d in pd if len(d) > 1])
    tc = PU(run, '_tor_connected')
    g = cfg_of(tc)
    boot = g.nodes_where(lambda n: any(isinstance(a, ast.Yield) and dotted(a.value) == 'self.tor_protocol.post_bootstrap' for a in node_asts(n)))
    run.ob('R19.2', tc, tc.node, '_tor_connected waits for the authenticated control connection', len(boot) == 1, slot='await-bootstrap', message='no "yield self.tor_protocol.post_bootstrap"')
    reg = g.nodes_where(lambda n: any(isinstance(a, ast.Call) and callee_attr(a) == 'add_event_listener' and a.args and const(a.args[0]) == 'STATUS_CLIENT'
                                      and dotted(a.args[1]) == 'self._status_client' for a in node_asts(n)))
    run.ob('R19.2', tc, tc.node, 'bootstrap progress is followed via STATUS_CLIENT', len(reg) == 1, slot='status-listener', message='%d STATUS_CLIENT registrations' % len(reg))
    for r in reg:
        run.ob('R19.2', tc, r.ast, 'progress events are consumed only after authentication', any(g.dominates(b, r) for b in boot), slot='listener-after-auth',
               message='STATUS_CLIENT listener registered before post_bootstrap')
    for u in class_units(run.idx, pp):
        if u is tc:
            continue
        for a in walk_unit(u):
            if isinstance(a, ast.Attribute) and dotted(a) == 'self._status_client' and isinstance(a.ctx, ast.Load):
                run.ob('R19.2', u, a, '_status_client is registered only in _tor_connected', False, slot='status-ref@%s' % u.short, message='%s references _status_client' % u.short)
    cmds = {}
    for n in g.real_nodes():
        for a in node_asts(n):
            if isinstance(a, ast.Call) and callee_attr(a) == 'queue_command' and a.args and isinstance(const(a.args[0]), str):
                cmds[const(a.args[0])] = n
    for want in ('TAKEOWNERSHIP', 'RESETCONF __OwningControllerProcess'):
        n = cmds.get(want)
        ok = n is not None and any(g.dominates(b, n) for b in boot)
        run.ob('R19.2', tc, n.ast if n is not None else tc.node, 'ownership is requested over the authenticated connection: %s' % want, ok, slot='ownership:%s' % want.split()[0],
               message='%s is not sent (after post_bootstrap) in _tor_connected' % want)
        if n is not None:
            # ... on *every* connection that can announce success: no path from post_bootstrap to a normal exit skips it
            skip = g.reachable([x for b in boot for _, x in b.succ], avoid=lambda x, n=n: x is n, follow_exc=False)
            run.ob('R19.2', tc, n.ast, '%s is sent on every path after authentication (also on a re-tried control connection)' % want,
                   not any(e in skip for e in g.normal_exits()), slot='ownership-always:%s' % want.split()[0],
                   message='_tor_connected can finish without sending %s (it is conditional): a launch can then succeed over a control connection on which '
                           'ownership was never requested' % want)
            yielded = any(isinstance(a, ast.Yield) for a in node_asts(n))
            run.ob('R19.2', tc, n.ast, '%s is awaited' % want, yielded, slot='ownership-awaited:%s' % want.split()[0], message='%s reply is not awaited' % want)
    ys = g.nodes_where(lambda n: any(isinstance(a, (ast.Yield, ast.YieldFrom)) for a in node_asts(n)))
    own = [cmds.get('TAKEOWNERSHIP'), cmds.get('RESETCONF __OwningControllerProcess')]
    for r in reg:
        for o in own:
            if o is None:
                continue
            # (TAKEOWNERSHIP is the request itself: not even the auxiliary RESETCONF is awaited in front of it - if Tor rejects that,
            #  ownership is never requested while a 100% event still completes the launch)
            between = [y for y in ys if y not in (r, o) and (y not in own or (o is own[0] and y is own[1])) and g.dominates(r, y) and o in g.reachable([s_ for _, s_ in y.succ]) and not g.dominates(o, y)]
            run.ob('R19.2', tc, o.ast, 'ownership is requested before anything else is awaited once bootstrap progress can be heard', not between, slot='ownership-first:%s' % src(o.ast)[:40],
                   message='_tor_connected awaits %s between arming the STATUS_CLIENT listener and %s: a 100%% event in that window '
                           'announces success on a connection that has not requested ownership' % ([src(y.ast)[:50] for y in between][:1], src(o.ast)[:50]))
    # outReceived: connect once, when the control listener is open
    orv = PU(run, 'outReceived')
    go = cfg_of(orv)
    cc = go.nodes_where(lambda n: any(is_call_to(a, 'self.connection_creator') for a in node_asts(n)))
    run.floor('R19.2', 'connection attempts in outReceived', len(cc), 1)
    for n in cc:
        gd = go.guarded_by(n, lambda t: dotted(t) == 'self.attempted_connect')
        run.ob('R19.2', orv, n.ast, 'the control connection is attempted once', any(lab == 'F' for _, lab in gd), slot='connect-once', message='connection_creator() not guarded by attempted_connect')
        run.ob('R19.2', orv, n.ast, 'only once Tor says the control listener is open', established(go, n, 'member', lambda t: const(t.left) == b'Opening Control listener'),
               slot='listener-line', message='connect not guarded by the "Opening Control listener" line')
        esc = go.escapes(n, lambda x: x.kind == 'stmt' and assign_to(x.ast, 'self.attempted_connect') is not None, exits=go.normal_exits())
        setbefore = any(go.dominates(x, n) for x in go.real_nodes() if x.kind == 'stmt' and assign_to(x.ast, 'self.attempted_connect') is not None and const(assign_to(x.ast, 'self.attempted_connect')) is True)
        run.ob('R19.2', orv, n.ast, 'the attempt is recorded', setbefore or not esc, slot='attempt-recorded', message='attempted_connect not set around the connection attempt')
    chain = [(callee_attr(c), dotted(c.args[0])) for c in calls_in(orv) if callee_attr(c) in ('addCallback', 'addErrback') and c.args]
    run.ob('R19.2', orv, orv.node, 'connection outcome chained to _tor_connected / _tor_connection_failed', ('addCallback', 'self._tor_connected') in chain and ('addErrback', 'self._tor_connection_failed') in chain,
           slot='connect-chain', message='chain: %s' % chain)


def r19_3(run):
    te = PU(run, '_timeout_expired')

    def may_raise(node):
        for a in walk_local(node, descend_root=False) if not isinstance(node, FUNC_TYPES) else []:
            if isinstance(a, ast.Call) and dotted(a.func) == 'self.transport.signalProcess':
                return ('ProcessExitedAlready',)
        return None
    g = cfg_of(te, may_raise=may_raise)
    for p in g.paths():
        run.paths_enumerated += 1
        if p.exit == 'raise':
            continue
        seq = []
        for n, lab in p.steps:
            for a in node_asts(n):
                if isinstance(a, ast.Call):
                    d = dotted(a.func)
                    if d == 'self.transport.signalProcess':
                        seq.append('TERM' if (a.args and const(a.args[0]) == 'TERM') else 'signal?')
                        if lab == 'exc':
                            seq[-1] = 'TERM-failed'
                    elif d == 'self.transport.loseConnection':
                        seq.append('lose')
                    elif d == 'self._maybe_notify_connected':
                        seq.append('notify-failure' if _is_failure_arg(te, a.args[0] if a.args else None) else 'notify-success')
        ok = seq in (['TERM', 'notify-failure'], ['TERM-failed', 'lose', 'notify-failure'])
        run.ob('R19.3', te, te.node, 'on timeout the process is signalled (or the dead connection dropped) before failure is announced', ok, slot='timeout-seq:%s' % ('gone' if 'lose' in seq else 'alive'),
               message='_timeout_expired does %s' % seq, path=p.describe(6))
    dt = [v for st, v in writes_of(te, 'self._did_timeout')]
    run.ob('R19.3', te, te.node, 'the timeout is remembered', any(const(v) is True for v in dt), slot='did-timeout', message='_did_timeout not set')
    init = PU(run, '__init__')
    cl = [c for c in calls_in(init) if callee_attr(c) == 'callLater']
    ok = len(cl) == 1 and dotted(cl[0].args[0]) == 'timeout' and dotted(cl[0].args[1]) == 'self._timeout_expired'
    run.ob('R19.3', init, init.node, 'the timeout schedules _timeout_expired', ok, slot='schedule', message='callLater(%s)' % [src(a) for c in cl for a in c.args])
    pe = PU(run, 'processEnded')
    g = cfg_of(pe)
    for p in g.paths():
        run.paths_enumerated += 1
        if p.exit == 'raise':
            continue
        n_notify = 0
        n_clean = 0
        for n, _ in p.steps:
            for a in node_asts(n):
                if is_call_to(a, 'self._maybe_notify_connected'):
                    n_notify += 1 if _is_failure_arg(pe, a.args[0] if a.args else None) else 100
                if is_call_to(a, 'self.cleanup'):
                    n_clean += 1
        run.ob('R19.3', pe, pe.node, 'process exit announces failure on every path', n_notify == 1, slot='exit-notifies', message='processEnded notifies %d times (100 = success value) on %s' % (n_notify, p.describe(5)))
        run.ob('R19.4', pe, pe.node, 'process exit cleans up on every path', n_clean == 1, slot='exit-cleans', message='processEnded calls cleanup %d times on %s' % (n_clean, p.describe(5)))


def r19_4(run):
    la_ = run.idx.unit(MOD + '.launch')
    FLAG = [n for n in names_defined_by(la_, lambda v: const(v) is True) if n in names_defined_by(la_, lambda v: const(v) is False)]
    FLAG = FLAG[0] if len(FLAG) == 1 else 'user_set_data_directory'
    PPN = (names_defined_by(la_, lambda v: isinstance(v, ast.Call) and dotted(v.func) == 'TorProcessProtocol') or ['process_protocol'])[0]
    CCB = (names_defined_by(la_, lambda v: isinstance(v, ast.Call) and dotted(v.func) == PPN + '.when_connected') or ['connected_cb'])[0]
    cu = PU(run, 'cleanup')
    dels = [c for c in calls_in(cu) if dotted(c.func) == 'delete_file_or_tree']
    ok = False
    for n in walk_unit(cu):
        if isinstance(n, (ast.ListComp, ast.GeneratorExp)) and dotted(n.generators[0].iter) == 'self.to_delete' and isinstance(n.elt, ast.Call) and dotted(n.elt.func) == 'delete_file_or_tree':
            ok = dotted(n.elt.args[0]) == n.generators[0].target.id
        if isinstance(n, ast.For) and dotted(n.iter) == 'self.to_delete':
            ok = any(isinstance(c, ast.Call) and dotted(c.func) == 'delete_file_or_tree' and dotted(c.args[0]) == n.target.id for c in ast.walk(n))
    run.ob('R19.4', cu, cu.node, 'cleanup deletes exactly the registered paths', ok and len(dels) <= 1, slot='cleanup-exact', message='cleanup does not delete exactly self.to_delete')
    la = run.idx.unit(MOD + '.launch')
    g = cfg_of(la)
    # user_set_data_directory is True iff the caller supplied a directory
    # flags that remember whether the caller supplied the directory: a local that is a boolean constant on each leg of a
    # "data_directory is [not] None" test, or the value of such a test taken before data_directory is re-bound.
    # meaning[name] = 'supplied' (true iff the caller gave a directory) | 'temp' (true iff launch makes its own)
    meaning = {}
    const_defs = {}
    for n in g.real_nodes():
        if n.kind != 'stmt' or not isinstance(n.ast, ast.Assign) or len(n.ast.targets) != 1 or not isinstance(n.ast.targets[0], ast.Name):
            continue
        nm, v = n.ast.targets[0].id, n.ast.value
        if isinstance(const(v), bool):
            const_defs.setdefault(nm, []).append((n, const(v)))
        elif isinstance(v, ast.Compare) and len(v.ops) == 1 and dotted(v.left) == 'data_directory' and is_none(v.comparators[0]) and isinstance(v.ops[0], (ast.Is, ast.IsNot)):
            early = all(r.kind == 'entry' or r.ast is None or not isinstance(r.ast, ast.Assign) for r in reaching_defs(g, n, 'data_directory'))
            if early:
                meaning[nm] = 'temp' if isinstance(v.ops[0], ast.Is) else 'supplied'
            else:
                run.ob('R19.4', la, n.ast, 'the "caller supplied the directory" flag is taken before the directory is re-bound', False, slot='flag-late:%s' % nm,
                       message='%s is computed from data_directory after launch has assigned its own directory to it: it always says "supplied"' % nm)
    k_flagdefs = 0
    for nm, lst in const_defs.items():
        sup = []
        for n, cv in lst:
            gd = g.guarded_by(n, lambda t: isinstance(t, ast.Compare) and dotted(t.left) == 'data_directory' and is_none(t.comparators[0]))
            supplied = None
            for t, lab in gd:
                supplied = (lab == 'T') == isinstance(t.ast.ops[0], ast.IsNot)
            sup.append((n, cv, supplied))
        if any(s_ is None for _, _, s_ in sup) or len(sup) < 2:
            continue
        k_flagdefs += len(sup)
        if all(cv == s_ for _, cv, s_ in sup):
            meaning[nm] = 'supplied'
        elif all(cv != s_ for _, cv, s_ in sup):
            meaning[nm] = 'temp'
        else:
            for n, cv, s_ in sup:
                run.ob('R19.4', la, n.ast, 'the "caller supplied the directory" flag tells the truth', False, slot='flag:%s' % cv,
                       message='%s = %s on the leg where a directory was %s, the opposite on another leg' % (nm, cv, 'supplied' if s_ else 'not supplied'))
    for nm, m in sorted(meaning.items()):
        run.ob('R19.4', la, la.node, 'flag %s means: %s' % (nm, 'the caller supplied the directory' if m == 'supplied' else 'launch created the directory'), True)
    # deletion registrations only for the temporary directory
    regs = []
    for n in g.real_nodes():
        for a in node_asts(n):
            if isinstance(a, ast.Assign) and any(dotted(t) == PPN + '.to_delete' for t in a.targets):
                regs.append((n, 'to_delete'))
            if isinstance(a, ast.Call) and callee_attr(a) == 'addSystemEventTrigger' and 'delete_file_or_tree' in src(a):
                regs.append((n, 'trigger'))
    run.floor('R19.4', 'deletion registrations in launch', len(regs), 2)
    for n, kind in regs:
        gd1 = g.guarded_by(n, lambda t: dotted(t) in meaning)
        gd2 = g.guarded_by(n, lambda t: isinstance(t, ast.Compare) and dotted(t.left) == 'data_directory' and is_none(t.comparators[0]))
        # (a direct test of data_directory counts only where launch has not yet put its own directory there)
        gd2 = [(t, lab) for t, lab in gd2 if all(r.kind == 'entry' or r.ast is None or not isinstance(r.ast, ast.Assign) for r in reaching_defs(g, t, 'data_directory'))]
        ok = any((lab == 'T') == (meaning[dotted(t.ast)] == 'temp') for t, lab in gd1) or any((lab == 'T') == isinstance(t.ast.ops[0], ast.Is) for t, lab in gd2)
        run.ob('R19.4', la, n.ast, 'a caller-supplied data directory is never registered for deletion (%s)' % kind, ok, slot='delete-guard:%s@%d' % (kind, regs.index((n, kind))),
               message='launch registers the data directory for deletion (%s) without testing that it is the temporary one' % kind)
    has_td = any(k == 'to_delete' for _, k in regs)
    run.ob('R19.4', la, la.node, 'the temporary directory is handed to the process protocol for removal at exit', has_td, slot='to_delete-set', message='process_protocol.to_delete is never set')
    for n, kind in regs:
        if kind == 'to_delete':
            v = [a.value for a in node_asts(n) if isinstance(a, ast.Assign)][0]
            ok = isinstance(v, ast.List) and [dotted(e) for e in v.elts] == ['data_directory']
            run.ob('R19.4', la, n.ast, 'exactly the data directory is registered', ok, slot='to_delete-value', message='to_delete = %s' % src(v))
    # what is registered for deletion is the local data_directory: apart from the caller's argument (flag True), its only
    # definition may be a directory launch has just created itself
    kd = 0
    for n in g.real_nodes():
        if n.kind == 'stmt' and isinstance(n.ast, (ast.Assign, ast.AugAssign)) and 'data_directory' in assigned_targets(n.ast):
            kd += 1
            v = n.ast.value
            run.ob('R19.4', la, n.ast, 'launch defines the data directory only as a fresh temporary directory', isinstance(v, ast.Call) and dotted(v.func) in ('tempfile.mkdtemp', 'mkdtemp'),
                   slot='datadir-def', message='launch sets data_directory = %s on the leg that registers it for deletion: a directory launch did not create '
                                               '(e.g. one configured on the caller\'s TorConfig) is removed at exit' % src(v)[:50])
    run.floor('R19.4', 'definitions of data_directory in launch', kd, 1)
    mk = [n for n in g.real_nodes() if any(is_call_to(a, 'tempfile.mkdtemp') for a in node_asts(n))]
    for n in mk:
        gd = g.guarded_by(n, lambda t: isinstance(t, ast.Compare) and dotted(t.left) == 'data_directory' and is_none(t.comparators[0]))
        gdf = g.guarded_by(n, lambda t: dotted(t) in meaning)
        ok = any((lab == 'T') == isinstance(t.ast.ops[0], ast.Is) for t, lab in gd) or any((lab == 'T') == (meaning[dotted(t.ast)] == 'temp') for t, lab in gdf)
        run.ob('R19.4', la, n.ast, 'a temporary directory is created only when none was supplied', ok, slot='mkdtemp-guard', message='mkdtemp not guarded')
    # launch waits for the connected notification of the protocol it spawned
    wc = [c for c in calls_in(la) if dotted(c.func) == PPN + '.when_connected']
    # (the local that holds it: whatever name every when_connected() result is bound to - directly or as an arm of a conditional expression)
    holders = set(names_defined_by(la, lambda v: any(x is c for c in wc for x in ast.walk(v))))
    run.ob('R19.4', la, la.node, "launch's result is the process protocol's connected notification", len(wc) == 1 and any(isinstance(a, ast.Yield) and (dotted(a.value) == CCB or dotted(a.value) in holders or any(a.value is c for c in wc)) for a in walk_unit(la)),
           slot='await-connected', message='launch does not await process_protocol.when_connected()')
    sp = [c for c in calls_in(la) if dotted(c.func) == 'reactor.spawnProcess']
    ok = len(sp) == 1 and dotted(sp[0].args[0]) == PPN
    run.ob('R19.4', la, la.node, 'exactly one process is spawned with that protocol', ok, slot='spawn-once', message='%d spawnProcess calls' % len(sp))


def r19_5(run):
    us = [PU(run, '_tor_connected'), run.idx.unit(MOD + '.launch')]
    k = dropped_deferreds(run, 'R19.5', us, 'launch')
    run.floor('R19.5', 'suspension points in launch/_tor_connected', k, 6)


RULES = [
    ('R19.5', 'no dropped Deferred in launch/_tor_connected', r19_5),
    ('R19.1', 'guard-and-latch: launch waiters fired only in _maybe_notify_connected, once; who-may-touch the waiter list', r19_1),
    ('R19.2', 'success only in _status_client at PROGRESS=100 of a BOOTSTRAP event, timeout cancelled first; listener and ownership commands after post_bootstrap; one connection attempt', r19_2),
    ('R19.3', 'timeout: signal TERM (or drop the dead connection) then announce failure; process exit announces failure on every path', r19_3),
    ('R19.4', 'cleanup on every exit path deletes exactly to_delete; deletion registered only for a directory launch created itself', r19_4),
]

from ..selftest import M  # noqa: E402
F = 'txtorcon/controller.py'
MUTANTS = [
    M('retry-resets-deadline', F, "        log.err(failure)\n        self.attempted_connect = False\n", "        log.err(failure)\n        self.attempted_connect = False\n        if self._timeout_delayed_call is not None and self._timeout_delayed_call.active():\n            self._timeout_delayed_call.reset(30)\n", ['R19.2']),
    M('ownership-once-flag', F, "        yield self.tor_protocol.queue_command('TAKEOWNERSHIP')\n        yield self.tor_protocol.queue_command('RESETCONF __OwningControllerProcess')", "        if not getattr(self, '_own', False):\n            self._own = True\n            yield self.tor_protocol.queue_command('TAKEOWNERSHIP')\n            yield self.tor_protocol.queue_command('RESETCONF __OwningControllerProcess')", ['R19.2']),
    M('config-datadir-treated-temporary', F, "        data_directory = tempfile.mkdtemp(prefix='tortmp')\n        config.DataDirectory = data_directory\n", "        try:\n            data_directory = config.DataDirectory\n        except KeyError:\n            data_directory = tempfile.mkdtemp(prefix='tortmp')\n            config.DataDirectory = data_directory\n", ['R19.4']),
    M('takeownership-not-awaited', F, "        yield self.tor_protocol.queue_command('TAKEOWNERSHIP')", "        self.tor_protocol.queue_command('TAKEOWNERSHIP')", ['R19.5', 'R19.2']),
    M('no-latch', F, "            d.callback(arg)\n        self._connected_listeners = None", "            d.callback(arg)\n        self._connected_listeners = []", ['R19.1']),
    M('timeout-fires-directly', F, "        fail = Failure(RuntimeError(\"timeout while launching Tor\"))\n        self._maybe_notify_connected(fail)", "        fail = Failure(RuntimeError(\"timeout while launching Tor\"))\n        for d in self._connected_listeners or []:\n            d.callback(fail)", ['R19.1', 'R19.3']),
    M('success-at-90', F, "        if prog == 100:\n            if self._timeout_delayed_call:", "        if prog >= 90:\n            if self._timeout_delayed_call:", ['R19.2']),
    M('timeout-not-cancelled', F, "            if self._timeout_delayed_call:\n                self._timeout_delayed_call.cancel()\n                self._timeout_delayed_call = None\n            self._maybe_notify_connected(self)", "            self._maybe_notify_connected(self)", ['R19.2']),
    M('listener-before-auth', F, "        yield self.tor_protocol.post_bootstrap\n        txtorlog.msg(\"Protocol is bootstrapped\")\n        yield self.tor_protocol.add_event_listener('STATUS_CLIENT', self._status_client)", "        yield self.tor_protocol.add_event_listener('STATUS_CLIENT', self._status_client)\n        yield self.tor_protocol.post_bootstrap\n        txtorlog.msg(\"Protocol is bootstrapped\")", ['R19.2']),
    M('no-takeownership', F, "        yield self.tor_protocol.queue_command('TAKEOWNERSHIP')\n", "", ['R19.2']),
    M('success-on-connect', F, "        return self  # XXX or \"proto\"?", "        self._maybe_notify_connected(self)\n        return self  # XXX or \"proto\"?", ['R19.2']),
    M('notify-before-signal', F, "        self._did_timeout = True\n        try:\n            self.transport.signalProcess('TERM')", "        self._did_timeout = True\n        self._maybe_notify_connected(Failure(RuntimeError(\"timeout while launching Tor\")))\n        try:\n            self.transport.signalProcess('TERM')", ['R19.3']),
    M('exit-silent-after-timeout', F, "        log.err(err)\n        self._maybe_notify_connected(Failure(err))", "        log.err(err)\n        if not self._did_timeout:\n            self._maybe_notify_connected(Failure(err))", ['R19.3']),
    M('cleanup-only-on-timeout', F, "        self.cleanup()\n\n        if status.value.exitCode is None:", "        if self._did_timeout:\n            self.cleanup()\n\n        if status.value.exitCode is None:", ['R19.4']),
    M('always-delete', F, "    if not user_set_data_directory:\n        process_protocol.to_delete = [data_directory]", "    if True:\n        process_protocol.to_delete = [data_directory]", ['R19.4']),
    M('flag-inverted', F, "    if data_directory is not None:\n        user_set_data_directory = True", "    if data_directory is not None:\n        user_set_data_directory = False", ['R19.4']),
]
TWINS = [
    M('latch-first', F, "        for d in self._connected_listeners:\n            # Twisted will turn this into an errback if \"arg\" is a\n            # Failure\n            d.callback(arg)\n        self._connected_listeners = None", "        waiting, self._connected_listeners = self._connected_listeners, None\n        for d in waiting:\n            d.callback(arg)"),
    M('prog-eq-reversed', F, "        if prog == 100:\n            if self._timeout_delayed_call:", "        if not (prog != 100):\n            if self._timeout_delayed_call:"),
]
