"""C18 - choosing a SOCKS port never alters Tor's existing SOCKS listeners."""
import ast

from .common import *  # noqa

MOD = 'endpoints'
IDENTITY_CALLS = ('list', 'tuple')
TRANSFORMING_METHODS = ('split', 'strip', 'lstrip', 'rstrip', 'lower', 'upper', 'replace', 'format', 'partition', 'rpartition', 'join')


def CSE(run):
    return run.idx.unit(MOD + '._create_socks_endpoint')


def classify_flow(g, at_node, expr, defs_seen=None, depth=0):
    """How does `expr` (evaluated at at_node) derive from the get_conf('SOCKSPort') answer?
    returns a set of tags: 'source' (the answer, identity-preserving), 'transformed', 'new' (the new entry),
    'other'."""
    defs_seen = defs_seen or set()
    if depth > 24:
        return set(['other'])
    if isinstance(expr, ast.Name):
        out = set()
        for rd in reaching_defs(g, at_node, expr.id):
            key = (rd.id, expr.id)
            if key in defs_seen:
                continue
            defs_seen.add(key)
            if rd is g.entry:
                out.add('param:' + expr.id)
                continue
            if rd.kind == 'iter':
                out |= classify_flow(g, rd, rd.ast.iter, defs_seen, depth + 1)
                continue
            v = def_value(rd, expr.id)
            if v is None:
                out.add('other')
            else:
                out |= classify_flow(g, rd, v, defs_seen, depth + 1)
        # in-place growth: name.append(x) reaching this point
        for n in g.live:
            if n.kind == 'stmt' and at_node in g.reachable([s for _, s in n.succ]):
                for a in node_asts(n):
                    if isinstance(a, ast.Call) and dotted(a.func) == expr.id + '.append' and a.args:
                        out |= set('appended:' + t for t in classify_flow(g, n, a.args[0], defs_seen, depth + 1))
        return out
    if isinstance(expr, ast.Yield):
        v = expr.value
        if isinstance(v, ast.Call) and callee_attr(v) in ('get_conf', 'get_conf_single') and v.args and 'socks' in str(const(v.args[0])).lower():
            return set(['source'])
        if isinstance(v, ast.Call) and dotted(v.func) == 'available_tcp_port':
            return set(['new'])
        return set(['other'])
    if isinstance(expr, ast.Call):
        d = dotted(expr.func) or ''
        if d in IDENTITY_CALLS and len(expr.args) == 1:
            return classify_flow(g, at_node, expr.args[0], defs_seen, depth + 1)
        if d == 'str' and len(expr.args) == 1:
            return classify_flow(g, at_node, expr.args[0], defs_seen, depth + 1)
        if isinstance(expr.func, ast.Attribute) and expr.func.attr == 'values':
            return classify_flow(g, at_node, expr.func.value, defs_seen, depth + 1)
        if isinstance(expr.func, ast.Attribute) and expr.func.attr in TRANSFORMING_METHODS:
            return set(['transformed:' + expr.func.attr])
        return set(['other'])
    if isinstance(expr, ast.Subscript):
        base = classify_flow(g, at_node, expr.value, defs_seen, depth + 1)
        if isinstance(expr.slice, ast.Slice):
            return set('transformed:slice' if t == 'source' else t for t in base) if False else base
        # element access of a transformed thing stays transformed; element of the answer is source
        return base
    if isinstance(expr, (ast.List, ast.Tuple)):
        out = set()
        for e in expr.elts:
            out |= classify_flow(g, at_node, e, defs_seen, depth + 1)
        return out or set(['empty'])
    if isinstance(expr, ast.ListComp):
        inner = classify_flow(g, at_node, expr.generators[0].iter, defs_seen, depth + 1)
        tv = expr.generators[0].target
        if isinstance(tv, ast.Name) and isinstance(expr.elt, ast.Name) and expr.elt.id == tv.id:
            return inner
        return set('transformed:comprehension' if t == 'source' else t for t in inner)
    if isinstance(expr, ast.Constant):
        return set(['const'])
    return set(['other'])


def r18_1(run):
    u = CSE(run)
    g = cfg_of(u)
    sc = [c for c in calls_in(u) if callee_attr(c) == 'set_conf']
    run.floor('R18.1', 'set_conf calls in _create_socks_endpoint', len(sc), 1)
    for c in sc:
        ok_shape = len(c.args) == 1 and isinstance(c.args[0], ast.Starred) and isinstance(c.args[0].value, ast.Name)
        # (a spread of something other than a collected list - a comprehension written in place - is a shape this flow rule does not
        # read: undecided, not a finding)
        run.ob('R18.1', u, c, 'set_conf receives one collected argument list', True if ok_shape else (None if len(c.args) == 1 and isinstance(c.args[0], ast.Starred) else False),
               slot='args-shape', message='set_conf(%s)' % src(c)[:50])
        if not ok_shape:
            continue
        aname = c.args[0].value.id
        # values appended next to the 'SOCKSPort' key
        apps = [a for n in g.real_nodes() for a in node_asts(n) if isinstance(a, ast.Call) and dotted(a.func) == aname + '.append' and a.args]
        keys = [a for a in apps if str(const(a.args[0])).lower() == 'socksport']
        vals = [a for a in apps if a not in keys]
        run.ob('R18.1', u, c, 'every pair is keyed SOCKSPort', len(keys) == len(vals) and len(keys) >= 1, slot='pairs', message='%d keys, %d values appended' % (len(keys), len(vals)))
        for a in vals:
            for n in g.nodes_containing(a):
                tags = classify_flow(g, n, a.args[0])
                bad = sorted(t for t in tags if t.startswith('transformed') or t == 'other' or t.startswith('appended:transformed'))
                has_src = 'source' in tags
                run.ob('R18.1', u, a, 'existing SOCKSPort lines are re-listed exactly as Tor reported them', has_src and not bad, slot='relist-identity',
                       message='the SOCKSPort values re-issued in the SETCONF derive from the GETCONF answer through %s: options such as '
                               'IsolateDestAddr are dropped from the existing listeners' % (bad or sorted(tags)))
                new = [t for t in tags if t.startswith('appended:')]
                run.ob('R18.1', u, a, 'the new entry is listed too', bool(new), slot='relist-new', message='the requested/new port is not part of the SETCONF (flow tags %s)' % sorted(tags))


def r18_1b(run):
    """path completeness of the re-listing: whatever list of existing ports the function goes on to use
    (the one it strips to first tokens) is, on every path, the list it re-lists"""
    u = CSE(run)
    g = cfg_of(u)
    # the stripping comprehension: X = [p.split()[0] for p in X]
    strips = [n for n in g.real_nodes() if n.kind == 'stmt' and isinstance(n.ast, ast.Assign) and isinstance(n.ast.value, ast.ListComp)
              and isinstance(n.ast.value.elt, ast.Subscript) and 'split()' in src(n.ast.value.elt) and isinstance(n.ast.value.generators[0].iter, ast.Name)]
    run.floor('R18.1', 'option-stripping sites', len(strips), 1)
    sc = [c for c in calls_in(u) if callee_attr(c) == 'set_conf']
    for c in sc:
        an = starred_arg_name(c)
        if not an:
            continue
        loops = [n for n in g.live if n.kind == 'iter' and any(isinstance(a, ast.Call) and dotted(a.func) == an + '.append' for a in ast.walk(n.ast))]
        for lp in loops:
            it = lp.ast.iter
            if not isinstance(it, ast.Name):
                continue
            rds = [r for r in reaching_defs(g, lp, it.id)]
            for st in strips:
                pre = st.ast.value.generators[0].iter.id
                pre_defs = set(r.id for r in reaching_defs(g, st, pre))
                ok = len(rds) == 1 and rds[0].kind == 'stmt'
                why = '%d definitions of %s reach the re-listing loop' % (len(rds), it.id)
                if it.id == pre and set(r.id for r in rds) == pre_defs:
                    # the very list that was stripped (by a comprehension, i.e. into a new list) is the one re-listed
                    ok = True
                elif ok:
                    c0 = rds[0]
                    v = def_value(c0, it.id)
                    srcv = v
                    while isinstance(srcv, ast.Call) and dotted(srcv.func) in ('list', 'tuple') and len(srcv.args) == 1:
                        srcv = srcv.args[0]
                    if isinstance(srcv, ast.ListComp) and isinstance(srcv.elt, ast.Name) and srcv.elt.id == getattr(srcv.generators[0].target, 'id', None):
                        srcv = srcv.generators[0].iter
                    ok = isinstance(srcv, ast.Name) and srcv.id == pre and set(r.id for r in reaching_defs(g, c0, pre)) == pre_defs
                    why = '%s is %s, taken where %s has definitions %s (the stripped list is derived from %s)' % (
                        it.id, src(v), pre, sorted(set(r.lineno for r in reaching_defs(g, c0, pre))), sorted(r2.lineno for r2 in reaching_defs(g, st, pre)))
                run.ob('R18.1', u, lp.ast, 'on every path the re-listed lines are exactly the existing lines the function found', ok, slot='relist-complete',
                       message='the list re-issued in the SETCONF is not one copy of the list of existing ports: %s - on some path an '
                               'existing listener (e.g. the default one) is left out and Tor drops it' % why)


def r18_2_3(run):
    u = CSE(run)
    g = cfg_of(u)
    rn = returned_names(u)
    SE = rn[0] if len(rn) == 1 else 'socks_endpoint'
    sc = [c for c in calls_in(u) if callee_attr(c) == 'set_conf']
    for c in sc:
        in_loop = any(c is a for l in ast.walk(u.node) if isinstance(l, (ast.For, ast.While)) for a in ast.walk(l))
        run.ob('R18.2', u, c, 'one SETCONF lists all entries (not one per entry)', not in_loop, slot='single-setconf', message='set_conf inside a loop')
        for n in g.nodes_containing(c):
            gd = g.guarded_by(n, lambda t: isinstance(t, ast.Compare) and dotted(t.left) == SE and is_none(t.comparators[0]))
            ok = any((lab == 'T') == isinstance(t.ast.ops[0], ast.Is) for t, lab in gd)
            run.ob('R18.3', u, c, 'configuration is changed only when no existing port was usable', ok, slot='only-when-none',
                   message='set_conf reachable although a usable existing SOCKS endpoint was found')
    for p in g.paths(loop_bound=1, follow_exc=False, max_paths=100000):
        run.paths_enumerated += 1
        k = sum(1 for n, _ in p.steps for a in node_asts(n) if a in sc)
        if k > 1:
            run.ob('R18.2', u, u.node, 'at most one SETCONF per call', False, slot='setconf-once', message='%d SETCONFs on %s' % (k, p.describe(6)))
            break
    else:
        run.ob('R18.2', u, u.node, 'at most one SETCONF per call', True, slot='setconf-once')
    # existing port preferred: the loop over existing ports assigns socks_endpoint; requested port filters by equality
    loops = [n for n in walk_unit(u) if isinstance(n, ast.For) and any(isinstance(a, ast.Assign) and assign_to(a, SE) is not None for a in ast.walk(n))]
    run.ob('R18.3', u, u.node, 'existing ports are tried before configuring a new one', len(loops) == 1, slot='try-existing', message='%d loops assigning socks_endpoint' % len(loops))
    for lp in loops:
        resets = [a for a in ast.walk(lp) if isinstance(a, ast.Assign) and assign_to(a, SE) is not None and is_none(assign_to(a, SE))]
        run.ob('R18.3', u, lp, 'a usable existing listener, once found, is kept (never reset inside the candidate loop)', not resets, slot='no-reset-in-loop',
               message='the candidate loop resets the chosen endpoint to None (e.g. when a later entry cannot be parsed): a usable listener is discarded and Tor is reconfigured')
        # every existing listener is a candidate: the iterable is the list of existing ports or the concatenation of
        # all groups it was split into; an `or` / conditional between groups drops a whole group
        defs = local_defs(u)
        it = lp.iter
        sel = [x for x in ast.walk(it) if isinstance(x, (ast.BoolOp, ast.IfExp))]
        mentioned = set(x.id for x in ast.walk(it) if isinstance(x, ast.Name))
        for nm in list(mentioned):
            d = single_def(defs, nm)
            if d is not None and d[0] == 'expr':
                sel += [x for x in ast.walk(d[1]) if isinstance(x, (ast.BoolOp, ast.IfExp)) and not any(isinstance(c, ast.comprehension) and any(x is y for i_ in c.ifs for y in ast.walk(i_))
                                                                                                    for c in ast.walk(d[1]))]
                mentioned |= set(x.id for x in ast.walk(d[1]) if isinstance(x, ast.Name))
        groups = set()
        for nm, dl in defs.items():
            for d in dl:
                if d[0] != 'expr':
                    continue
                v = d[1]
                inner = v.args[0] if isinstance(v, ast.Call) and dotted(v.func) in ('set', 'list', 'sorted', 'frozenset', 'tuple') and v.args else v
                if (isinstance(inner, (ast.ListComp, ast.SetComp, ast.GeneratorExp)) and any(c.ifs for c in inner.generators)) or \
                        (isinstance(v, ast.BinOp) and isinstance(v.op, ast.Sub) and any(isinstance(x, ast.Call) and dotted(x.func) == 'set' for x in ast.walk(v))):
                    groups.add(nm)
        multi = [nm for nm in mentioned if len(defs.get(nm, [])) > 1]
        if multi and isinstance(it, ast.Name):
            # the candidate list is (re)assembled in several steps: which listeners it finally holds is a data-flow question
            # this structural rule does not answer
            raise Undecided('_create_socks_endpoint: the candidate list %s is bound %d times before the loop' % (multi[0], len(defs.get(multi[0], []))))
        full = not sel and (groups <= mentioned or not groups)
        run.ob('R18.3', u, lp, 'every existing SOCKS listener is a candidate', full, slot='all-candidates',
               message='the candidate loop iterates %s: %s, so a usable existing listener can be skipped and Tor re-configured'
               % (src(it)[:60], 'it chooses between groups with %s' % src(sel[0])[:40] if sel else 'group(s) %s left out' % sorted(groups - mentioned)))
        # a candidate that does not match the requested port is skipped, not the rest of the list: the loop is left early
        # only after an endpoint has been chosen
        for br in [x for x in ast.walk(lp) if isinstance(x, (ast.Break, ast.Return))]:
            bn = [n for n in g.real_nodes() if n.ast is br]
            assigned = [n for n in g.real_nodes() if n.kind == 'stmt' and isinstance(n.ast, ast.Assign) and assign_to(n.ast, SE) is not None and not is_none(assign_to(n.ast, SE))
                        and any(n.ast is y for y in ast.walk(lp))]
            okb = bool(bn) and all(any(g.dominates(a_, b_) for a_ in assigned) for b_ in bn)
            run.ob('R18.3', u, br, 'the candidate loop is left early only once a listener has been chosen', okb, slot='early-exit',
                   message='the candidate loop stops at the first entry that is not the requested port: a matching listener further down the list is '
                           'never considered and Tor is re-configured')
        # the candidates compared with the requested port are port *tokens*: somewhere between Tor's answer and the loop the
        # option words are cut off (x.split()[0]); comparing whole lines never matches a listener that has options
        seen_n, frontier, stripped = set(), set(x.id for x in ast.walk(lp.iter) if isinstance(x, ast.Name)), False
        for _ in range(4):
            nxt = set()
            for nm in frontier - seen_n:
                seen_n.add(nm)
                for d in defs.get(nm, []):
                    for e_ in [x for x in d[1:] if isinstance(x, ast.AST)]:
                        if any(isinstance(x, ast.Subscript) and isinstance(x.value, ast.Call) and callee_attr(x.value) == 'split' and const(x.slice) == 0 for x in ast.walk(e_)):
                            stripped = True
                        nxt |= set(x.id for x in ast.walk(e_) if isinstance(x, ast.Name))
            frontier = nxt
        run.ob('R18.3', u, lp, 'the candidates are port tokens (option words cut off before the comparison)', stripped, slot='candidates-are-tokens',
               message='the candidate loop compares the requested port with Tor\'s SOCKSPort lines as reported: "9050" never equals "9050 IsolateDestAddr", so a '
                       'listener that has options is treated as absent and a duplicate port is configured')
        tv = lp.target.id
        tests = [t for t in ast.walk(lp) if isinstance(t, ast.Compare) and dotted(t.left) == tv and dotted(t.comparators[0]) == 'socks_config']
        ok = bool(tests) and all(isinstance(t.ops[0], (ast.NotEq, ast.Eq)) for t in tests)
        run.ob('R18.3', u, lp, 'a requested port selects an existing listener by equality of the port token', ok, slot='match-eq',
               message='requested port compared with %s' % [src(t) for t in tests])
    # the returned endpoint for the added port is built from the requested/new config
    rets = [n for n in g.real_nodes() if n.kind == 'stmt' and isinstance(n.ast, ast.Return)]
    ok = bool(rets) and all(dotted(r.ast.value) == SE for r in rets)
    if not ok and rets and all(dotted(r.ast.value) == SE or (isinstance(r.ast.value, ast.Call) and dotted(r.ast.value.func) == '_endpoint_from_socksport_line') for r in rets):
        ok = True       # an early return of the endpoint just built (no flag variable) is the same thing
    run.ob('R18.3', u, u.node, 'the chosen endpoint is returned', ok, slot='returns', message='returns %s' % [src(r.ast.value) for r in rets])


_LIST_MUT = ('append', 'pop', 'remove', 'clear', 'extend', 'insert', 'sort', 'reverse', '__setitem__', '__delitem__')


def r18_4(run):
    ce = run.idx.cls('TorClientEndpoint', MOD)
    v = ce.attrs.get('socks_ports_to_try')
    run.ob('R18.4', ce.file, v or ce.node, 'fallback ports are 9050 then 9150', const(v) == [9050, 9150] if v is not None else False, slot='ports', message='socks_ports_to_try = %s' % (src(v) if v is not None else None))
    cn = run.idx.find_method(ce, 'connect')
    g = cfg_of(cn)
    # names under which the list is known: the class attribute and instance attributes bound to it (or to a copy of it)
    LISTN = {'self.socks_ports_to_try', ce.simple + '.socks_ports_to_try'}
    changed = True
    while changed:
        changed = False
        for m in ce.methods.values():
            for n in walk_unit(m):
                if not isinstance(n, ast.Assign):
                    continue
                v = n.value
                if isinstance(v, ast.Call) and dotted(v.func) in ('list', 'tuple') and len(v.args) == 1:
                    v = v.args[0]
                elif isinstance(v, ast.Subscript) and isinstance(v.slice, ast.Slice) and v.slice.lower is None and v.slice.upper is None and v.slice.step is None:
                    v = v.value
                if dotted(v) in LISTN:
                    for t in n.targets:
                        if (dotted(t) or '').startswith('self.') and dotted(t) not in LISTN:
                            LISTN.add(dotted(t))
                            changed = True
    # nobody edits it: the list (shared by every endpoint of the process when it is the class attribute) stays 9050, 9150
    for m in ce.methods.values():
        for n in walk_unit(m):
            bad = None
            if isinstance(n, ast.Call) and callee_attr(n) in _LIST_MUT and dotted(receiver(n)) in LISTN:
                bad = src(n)
            elif isinstance(n, ast.AugAssign) and dotted(n.target) in LISTN:
                bad = src(n)
            elif isinstance(n, (ast.Assign, ast.Delete)) and any(isinstance(t, ast.Subscript) and dotted(t.value) in LISTN for t in (n.targets if isinstance(n, (ast.Assign, ast.Delete)) else [])):
                bad = src(n)
            if bad:
                run.ob('R18.4', m, n, 'the list of fallback ports is never edited', False, slot='ports-edited@%s' % m.name,
                       message='%s edits the fallback port list (%s): endpoints given no SOCKS endpoint try other ports than 9050, 9150 - for every endpoint of the process when the '
                               'list is the class attribute' % (m.name, bad[:60]))
    loops = [n for n in g.live if n.kind == 'iter' and dotted(n.ast.iter) in LISTN]
    run.floor('R18.4', 'fallback loops in connect', len(loops), 1)
    LE = set()
    for lp in loops:
        node = lp.ast
        trys = [t for t in ast.walk(node) if isinstance(t, ast.Try)]
        ok = len(trys) == 1
        if ok:
            t = trys[0]
            okret = any(isinstance(x, ast.Return) for b in list(t.body) + list(t.orelse) for x in ast.walk(b))      # (try body, or its else: clause)
            run.ob('R18.4', cn, t, 'the first port that connects is used (return inside the loop)', okret, slot='return-on-success', message='no return in the try body')
            hs = t.handlers
            types = [dotted(h.type) if h.type is not None else None for h in hs]
            okh = len(hs) == 1 and types[0] is not None and types[0].split('.')[-1] in ('ConnectError', 'ConnectionRefusedError')
            run.ob('R18.4', cn, t, 'only a connection error moves on to the next port', okh, slot='except-type', message='handler catches %s' % types)
            for h in hs:
                esc = [x for b in h.body for x in walk_local(b, descend_root=False) if isinstance(x, (ast.Raise, ast.Return, ast.Break))]
                rec = [x for b in h.body for x in ast.walk(b) if isinstance(x, ast.Assign) and isinstance(x.targets[0], ast.Name) and dotted(x.value) == h.name]
                LE.update(x.targets[0].id for x in rec)
                run.ob('R18.4', cn, h, 'the handler records the error and continues', not esc and bool(rec), slot='handler-body', message='handler body: %s' % [src(b)[:30] for b in h.body])
        run.ob('R18.4', cn, node, 'each fallback attempt is individually guarded', ok, slot='try-in-loop', message='%d try blocks in the loop' % len(trys))
        # after the loop the last error is raised
        after = [s for lab, s in lp.succ if lab == 'exit']
        r = g.reachable(after)
        rs = [n for n in r if n.kind == 'stmt' and isinstance(n.ast, ast.Raise) and dotted(n.ast.exc) in LE]
        run.ob('R18.4', cn, node, 'if all ports fail the last error is reported', bool(rs), slot='raise-last', message='no "raise last_error" after the loop')
        normal = [e for e in g.normal_exits() if e in g.reachable(after, avoid=lambda n: n in rs)]
        run.ob('R18.4', cn, node, 'the loop order is the list order', dotted(node.iter) in LISTN, slot='order', message='iterates %s' % src(node.iter))
    # the loop is only used when no endpoint was given
    for lp in loops:
        gd = g.guarded_by(lp, lambda t: isinstance(t, ast.Compare) and dotted(t.left) == 'self._socks_endpoint' and is_none(t.comparators[0]))
        ok = any((lab == 'T') == isinstance(t.ast.ops[0], ast.Is) for t, lab in gd)
        run.ob('R18.4', cn, lp.ast, 'well-known ports are tried only without an explicit SOCKS endpoint', ok, slot='fallback-only', message='fallback loop not guarded by socks_endpoint is None')


def _token_list(u, e):
    """is e (a name) the list of first tokens of the configured lines: [x.split()[0] for x in ...]?"""
    if isinstance(e, (ast.ListComp, ast.SetComp)):
        return '.split()[0]' in src(e.elt)
    if not isinstance(e, ast.Name):
        return False
    d = single_def(local_defs(u), e.id)
    return bool(d and d[0] == 'expr' and isinstance(d[1], (ast.ListComp, ast.SetComp)) and '.split()[0]' in src(d[1].elt))


def _no_match_established(u, g, n):
    """a dominating test has established that no configured line matches: `not any(<token == wanted> ...)`, or
    `wanted not in <list of first tokens>`"""
    if any(lab == 'F' for _, lab in g.guarded_by(n, lambda t: isinstance(t, ast.Call) and dotted(t.func) == 'any')):
        return True
    return established(g, n, 'member', lambda t: _token_list(u, t.comparators[0]), positive=False)


def r18_5(run):
    tc = run.idx.cls('TorConfig', 'torconfig')
    se = run.idx.find_method(tc, 'socks_endpoint')
    cs = run.idx.find_method(tc, 'create_socks_endpoint')

    def match_forms(u):
        forms = []
        for n in walk_unit(u):
            if isinstance(n, ast.Compare) and len(n.ops) == 1 and ('SocksPort' in src(n) or '.split()[0]' in src(n) or _token_list(u, n.comparators[0]) or
                                                                   any(isinstance(x, ast.Name) and x.id in ('port_config', 'port') for x in ast.walk(n))):
                l, r = src(n.left), src(n.comparators[0])
                if isinstance(n.ops[0], ast.Eq) and '.split()[0]' in l + r:
                    forms.append(('token-eq', n))
                elif isinstance(n.ops[0], (ast.In, ast.NotIn)) and _token_list(u, n.comparators[0]):
                    forms.append(('token-eq', n))       # membership in the list of first tokens is token equality
                elif isinstance(n.ops[0], ast.In) and not isinstance(n.left, ast.Constant):
                    forms.append(('substring', n))
        return forms
    f1, f2 = match_forms(se), match_forms(cs)
    run.ob('R18.5', se, se.node, 'socks_endpoint matches a port by equality with the first token', any(k == 'token-eq' for k, _ in f1), slot='match:socks_endpoint',
           message='socks_endpoint match forms: %s' % [(k, src(n)) for k, n in f1])
    bad = [n for k, n in f2 if k == 'substring']
    ok = any(k == 'token-eq' for k, _ in f2) and not bad
    run.ob('R18.5', cs, bad[0] if bad else cs.node, 'create_socks_endpoint matches a requested port the same way (token equality)', ok, slot='match:create_socks_endpoint',
           message='create_socks_endpoint decides "already configured" with %s: "905" is found inside "9050 ..." and no port is added' %
                   [src(n) for k, n in f2])
    # the third place that answers "does Tor already have this port?": web.agent_for_socks_port
    ag = run.idx.unit('web.agent_for_socks_port')
    f3 = match_forms(ag)
    raw = [n for n in walk_unit(ag) if isinstance(n, ast.Compare) and len(n.ops) == 1 and isinstance(n.ops[0], (ast.In, ast.NotIn)) and (dotted(n.comparators[0]) or '').endswith('.SocksPort')]
    run.ob('R18.5', ag, raw[0] if raw else ag.node, 'agent_for_socks_port matches a requested port by its token too', any(k == 'token-eq' for k, _ in f3) and not raw,
           slot='match:agent_for_socks_port',
           message='agent_for_socks_port decides "already configured" with %s: a port whose line carries options (or an int request against Tor\'s strings) is not '
                   'found and a duplicate SOCKSPort line is sent' % ([src(n) for n in raw] or [src(n) for _, n in f3]))
    sp = ag.params[2]
    firsts = [n for n in walk_unit(ag) if isinstance(n, ast.Assign) and sp in assigned_targets(n)]
    okn = bool(firsts) and isinstance(firsts[0].value, ast.Call) and dotted(firsts[0].value.func) == 'str' and dotted(firsts[0].value.args[0]) == sp
    uses_before = [n for n in walk_unit(ag) if isinstance(n, ast.Name) and n.id == sp and isinstance(n.ctx, ast.Load) and firsts and n.lineno < firsts[0].lineno]
    run.ob('R18.5', ag, firsts[0] if firsts else ag.node, 'the requested port is turned into text before it is compared with Tor\'s lines', okn and not uses_before, slot='request-normalised',
           message='agent_for_socks_port compares the request as given (e.g. the int 9150) with Tor\'s list of strings')
    # create_socks_endpoint changes the list of ports only by appending the new line (in place, which marks it pending):
    # assigning a copy taken earlier puts a stale snapshot into the pending set while the live list keeps the new line
    for n in walk_unit(cs):
        if isinstance(n, ast.Assign) and 'self.SocksPort' in assigned_targets(n):
            run.ob('R18.5', cs, n, 'the port list is only appended to, never replaced by a snapshot', False, slot='portlist-rebound',
                   message='create_socks_endpoint assigns self.SocksPort = %s: on a live config the assignment becomes a pending value that a later request re-sends '
                           'instead of the current lines' % src(n.value)[:40])
    # adds then saves once
    g = cfg_of(cs)
    app = g.nodes_where(lambda n: any(is_call_to(a, 'self.SocksPort.append') for a in node_asts(n)))
    sv = g.nodes_where(lambda n: any(is_call_to(a, 'self.save') for a in node_asts(n)))
    ok = bool(app) and all(not g.escapes(a, lambda n: n in sv, exits=g.normal_exits()) for a in app)
    run.ob('R18.5', cs, cs.node, 'a port that is added is saved to Tor', ok, slot='append-then-save', message='SocksPort.append not followed by save() on every path')
    okg = all(_no_match_established(cs, g, a) for a in app) if app else False
    run.ob('R18.5', cs, cs.node, 'a port is added only when no existing entry matches', okg, slot='append-guard', message='SocksPort.append not guarded by the match test')
    # ... and nothing is sent to Tor when the port is already there: in both "use or add" entry points every save() lies behind
    # the same no-entry-matches test as the append (an unconditional save() pushes whatever else is pending in the TorConfig -
    # an earlier refused port, a staged removal - although the requested listener exists)
    for u_, recv in ((cs, 'self'), (ag, ag.params[1])):
        gu = cfg_of(u_)
        sv_ = gu.nodes_where(lambda n: any(isinstance(a, ast.Call) and callee_attr(a) == 'save' and dotted(receiver(a)) == recv for a in node_asts(n)))
        run.floor('R18.5', 'save() sites in %s' % u_.name, len(sv_), 1)
        for n in sv_:
            run.ob('R18.5', u_, n.ast, 'Tor is reconfigured only when no existing entry matches', _no_match_established(u_, gu, n), slot='save-only-when-adding:%s' % u_.name,
                   message='%s calls save() also when the requested port is already configured: pending edits of the TorConfig (a port Tor refused earlier, a staged '
                           'removal) are sent although nothing needed adding' % u_.short)
    el = run.idx.unit('torconfig._endpoint_from_socksport_line')
    ok = any(isinstance(n, ast.Call) and callee_attr(n) == 'split' for n in walk_unit(el)) and \
        any(isinstance(n, ast.Call) and dotted(n.func) == 'UNIXClientEndpoint' for n in walk_unit(el)) and any(isinstance(n, ast.Call) and dotted(n.func) == 'TCP4ClientEndpoint' for n in walk_unit(el))
    run.ob('R18.5', el, el.node, 'a SOCKSPort line maps to a unix or TCP endpoint ignoring option words', ok, slot='line-to-endpoint', message='_endpoint_from_socksport_line changed')
    # both legs ignore trailing option words: on every path on which the line contains a blank, what reaches the endpoint
    # constructor has been cut at the first blank (split()[0]) or at the closing quote - the whole remainder never does
    ge = cfg_of(el)
    lp = el.params[1]
    ctor = ge.nodes_where(lambda n: any(isinstance(a, ast.Call) and dotted(a.func) in ('UNIXClientEndpoint', 'TCP4ClientEndpoint') for a in node_asts(n)))
    run.floor('R18.5', 'endpoint constructors in _endpoint_from_socksport_line', len(ctor), 2)

    def cuts(n):
        if n.kind != 'stmt' or not isinstance(n.ast, ast.Assign):
            return False
        v = n.ast.value
        return any(isinstance(x, ast.Subscript) and isinstance(x.value, ast.Call) and callee_attr(x.value) == 'split' and const(x.slice) == 0 for x in ast.walk(v)) or \
            any(isinstance(x, ast.Call) and callee_attr(x) in ('index', 'find') and x.args and const(x.args[0]) == '"' for x in ast.walk(v))

    def blank_hook(node, val, trail):
        a = node.ast
        if isinstance(a, ast.Compare) and const(a.left) == ' ' and isinstance(a.ops[0], ast.In):
            return True
        return None
    kk = 0
    for p_ in ge.paths(eval_hook=blank_hook, follow_exc=False):
        run.paths_enumerated += 1
        if p_.exit == 'raise':
            continue
        nodes = [n for n, _ in p_.steps]
        hit = [n for n in nodes if n in ctor]
        if not hit:
            continue
        kk += 1
        cut = any(cuts(n) for n in nodes[:nodes.index(hit[0])])
        kind = 'unix' if any(isinstance(a, ast.Call) and dotted(a.func) == 'UNIXClientEndpoint' for a in node_asts(hit[0])) else 'tcp'
        run.ob('R18.5', el, hit[0].ast, 'option words after a %s SOCKSPort entry never reach the endpoint' % kind, cut, slot='options-stripped:%s' % kind,
               message='_endpoint_from_socksport_line builds the %s endpoint from the whole remainder of a line that contains a blank: for '
                       '"unix:/run/tor/socks WorldWritable" the endpoint points at a path that does not exist instead of the configured listener' % kind,
               path=p_.describe(8))
    run.floor('R18.5', 'constructor paths for a line with option words', kk, 2)
    # a unix path that contains a blank is quoted: the quote is looked at before anything is cut at a blank - on the way to the
    # unix constructor no whitespace cut (split()[0]) precedes the first look at '"'
    def quote_look(n):
        return n.ast is not None and any(isinstance(x, ast.Constant) and x.value == '"' for x in ast.walk(n.ast))
    uctor = [n for n in ctor if any(isinstance(a, ast.Call) and dotted(a.func) == 'UNIXClientEndpoint' for a in node_asts(n))]
    for p_ in ge.paths(follow_exc=False):
        nodes = [n for n, _ in p_.steps]
        hit = [n for n in nodes if n in uctor]
        if not hit:
            continue
        upto = nodes[:nodes.index(hit[0])]
        looks = [i for i, n in enumerate(upto) if quote_look(n)]
        ws_cut = [i for i, n in enumerate(upto) if n.kind == 'stmt' and isinstance(n.ast, ast.Assign) and any(
            isinstance(x, ast.Subscript) and isinstance(x.value, ast.Call) and callee_attr(x.value) == 'split' and not x.value.args and const(x.slice) == 0 for x in ast.walk(n.ast.value))]
        early = [i for i in ws_cut if not looks or i < looks[0]]
        if early and (looks or True):
            run.ob('R18.5', el, upto[early[0]].ast, 'a quoted unix path is recognised before the line is cut at a blank', not looks or False, slot='unix-quote-before-cut',
                   message='_endpoint_from_socksport_line cuts the line at its first blank (%s) before it looks for the quotes of a unix path: unix:"/run/tor browser/socks" '
                           'becomes the path "/run/tor' % src(upto[early[0]].ast)[:50], path=p_.describe(8))
            break


def r18_6(run):
    tc = run.idx.cls('TorConfig', 'torconfig')
    us = [CSE(run), run.idx.find_method(tc, 'create_socks_endpoint'), run.idx.find_method(run.idx.cls('TorClientEndpoint', MOD), 'connect')]
    k = dropped_deferreds(run, 'R18.6', us, 'SOCKS endpoint selection')
    run.floor('R18.6', 'suspension points in the SOCKS selection coroutines', k, 6)
    # the configured listeners are looked at only once the configuration view is complete: before that SocksPort reads as empty
    # (or raises) and a port Tor already has is "added" again
    required_await(run, 'R18.6', us[1], lambda v: (dotted(v) or '').endswith('post_bootstrap'),
                   lambda a: isinstance(a, ast.Attribute) and dotted(a) == 'self.SocksPort',
                   'the configuration bootstrap', 'the configured SOCKS ports are read', 'await-view-before-ports')


def r18_7(run):
    """The controller's default SOCKS endpoint is chosen by the discover-or-add logic and by nothing else: a shortcut that takes
    the first configured line (TorConfig.socks_endpoint) skips the search for a *usable* listener."""
    tor = run.idx.cls('Tor', 'controller')
    if tor is None:
        raise AnchorVanished('controller.Tor')
    de_ = run.idx.find_method(tor, '_default_socks_endpoint')
    if de_ is not None and not any(isinstance(x, (ast.Yield, ast.Await)) for x in walk_unit(de_)) and de_.children:
        raise Undecided('Tor._default_socks_endpoint is written with explicit callbacks (nested %s): the "chosen once, remembered, returned" flow is only followed in coroutine form'
                        % ', '.join(c.name for c in de_.children)[:60])
    k = 0
    for u in class_units(run.idx, tor):
        for n in walk_unit(u):
            if isinstance(n, ast.Assign) and 'self._socks_endpoint' in assigned_targets(n):
                k += 1
                v = n.value
                inner = v.value if isinstance(v, (ast.Yield, ast.Await)) else v
                ok = is_none(v) or (isinstance(inner, ast.Call) and dotted(inner.func) == '_create_socks_endpoint')
                run.ob('R18.7', u, n, "the controller's SOCKS endpoint comes from _create_socks_endpoint", ok, slot='default-endpoint-source@%s' % u.short,
                       message='%s sets the default SOCKS endpoint from %s: the first configured line is taken whether or not it is usable, and the '
                               'discover-or-add logic is bypassed' % (u.short, src(v)[:60]))
    run.floor('R18.7', 'assignments of Tor._socks_endpoint', k, 2)
    # ... and it is chosen once: the choice is made exactly when none has been made yet, and what is returned is the remembered choice
    de = run.idx.find_method(tor, '_default_socks_endpoint')
    if de is None:
        raise AnchorVanished('controller.Tor._default_socks_endpoint')
    g = cfg_of(de)
    makes = [n for n in g.real_nodes() if n.kind == 'stmt' and isinstance(n.ast, ast.Assign) and 'self._socks_endpoint' in assigned_targets(n.ast) and not is_none(n.ast.value)]
    run.floor('R18.7', 'choices of the default endpoint', len(makes), 1)
    for n in makes:
        gd = g.guarded_by(n, lambda t: isinstance(t, ast.Compare) and dotted(t.left) == 'self._socks_endpoint' and is_none(t.comparators[0]))
        ok = any((lab == 'T') == isinstance(t.ast.ops[0], (ast.Is, ast.Eq)) for t, lab in gd)
        run.ob('R18.7', de, n.ast, 'the default SOCKS endpoint is chosen when (and only when) none has been chosen yet', ok, slot='default-endpoint-once',
               message='_default_socks_endpoint runs the discover-or-add logic although an endpoint is remembered (or skips it when none is): callers get None, or Tor is '
                       'probed and possibly reconfigured on every connection')
    unset = [(t.id, 'F' if isinstance(t.ast.ops[0], (ast.Is, ast.Eq)) else 'T') for t in g.live if t.kind == 'test' and isinstance(t.ast, ast.Compare)
             and dotted(t.ast.left) == 'self._socks_endpoint' and is_none(t.ast.comparators[0])]
    r = g.reachable([g.entry], avoid=lambda n: n in makes, skip_edges=set(unset), follow_exc=False)
    rets = [n for n in g.real_nodes() if n.kind == 'stmt' and isinstance(n.ast, ast.Return)]
    for rn in rets:
        run.ob('R18.7', de, rn.ast, 'the remembered endpoint is what callers get', dotted(rn.ast.value) == 'self._socks_endpoint' and rn not in r, slot='default-endpoint-returned',
               message='_default_socks_endpoint returns %s%s' % (src(rn.ast.value)[:40], ' on a path where no endpoint was chosen' if rn in r else ''))
    run.ob('R18.7', de, de.node, 'falls off without an endpoint', g.exit_fall not in g.live, slot='default-endpoint-falls-off', message='_default_socks_endpoint can end without returning the endpoint')


def r18_8(run):
    """re-listing "exactly as Tor reported it" includes lines that need quoting (a unix listener with a quoted path): the SETCONF
    quoting discipline of C12 (R12.1), shared"""
    from . import c12
    borrow(run, c12.r12_1, 'R18.8')


def r18_9(run):
    """every existing SOCKSPort entry is re-listed exactly as Tor reported it, options included - also when Tor reported it as a
    *default* (config/defaults): the value of a defaults line is everything after the option name.  Taking a word of the line
    (fields[1] of an unbounded split) cuts "9150 IPv6Traffic PreferIPv6" down to "9150", and the SETCONF that adds a port then
    re-lists the listener without its options"""
    tc = run.idx.cls('TorConfig', 'torconfig')
    gd = run.idx.find_method(tc, '_get_defaults')
    if gd is None:
        raise AnchorVanished('TorConfig._get_defaults')
    lines = [n for n in walk_unit(gd) if isinstance(n, ast.For)]
    k = 0
    for lp in lines:
        if not isinstance(lp.target, ast.Name):
            continue
        ln = lp.target.id
        for n in ast.walk(lp):
            if not isinstance(n, ast.Call) or callee_attr(n) not in ('split', 'partition', 'rsplit') or dotted(receiver(n)) != ln:
                continue
            k += 1
            bounded = callee_attr(n) == 'partition' or (callee_attr(n) == 'split' and len(n.args) == 2 and const(n.args[1]) == 1)
            run.ob('R18.9', gd, n, 'a defaults line is cut once, after the option name (the value keeps its blanks)', bounded, slot='defaults-value-whole',
                   message='_get_defaults cuts a config/defaults line with %s: a default such as "9150 IPv6Traffic PreferIPv6" loses everything after its first word, and a '
                           'later SETCONF re-lists the existing listener without its options' % src(n)[:40])
    run.floor('R18.9', 'cuts of a defaults line', k, 1)


RULES = [
    ('R18.8', 'the re-issued lines are quoted correctly on the wire (R12.1 borrowed)', r18_8),
    ('R18.7', 'who-may-choose: Tor._socks_endpoint is assigned only from _create_socks_endpoint', r18_7),
    ('R18.6', 'no dropped Deferred in the SOCKS selection coroutines (the SETCONF adding a port is awaited before the endpoint is returned)', r18_6),
    ('R18.1', 'integrity flow: values paired with SOCKSPort in the SETCONF reach it from the GETCONF answer through identity-preserving operations only, plus the new entry', r18_1),
    ('R18.1b', 'path completeness: the re-listed list is a single copy of the pre-strip list of existing ports', r18_1b),
    ('R18.2', 'one set_conf outside loops', r18_2_3),
    ('R18.3', 'set_conf only with socks_endpoint is None; existing ports tried first, matched by equality', lambda run: None),
    ('R18.9', 'a config/defaults line is split once: the default value keeps its option words', r18_9),
    ('R18.4', 'fallback loop shape: [9050, 9150] in order, return on success, only ConnectError moves on, last error raised', r18_4),
    ('R18.5', 'sibling agreement: socks_endpoint and create_socks_endpoint match a port by token equality; added port is saved', r18_5),
]

from ..selftest import M  # noqa: E402
F, FC = 'txtorcon/endpoints.py', 'txtorcon/torconfig.py'
MUTANTS = [
    M('legacy-port-joins-shared-list', F, "            except KeyError:\n                pass\n", "            except KeyError:\n                if kw.get('socks_port') is not None:\n                    self.socks_ports_to_try.insert(0, int(kw['socks_port']))\n", ['R18.4']),
    M('agent-saves-always', 'txtorcon/web.py', "        torconfig.SocksPort.append(socks_config)\n        try:\n            yield torconfig.save()\n        except Exception as e:\n            raise RuntimeError(\n                \"Failed to reconfigure Tor with SOCKS port '{}': {}\".format(\n                    socks_config, str(e)\n                )\n            )\n", "        torconfig.SocksPort.append(socks_config)\n    try:\n        yield torconfig.save()\n    except Exception as e:\n        raise RuntimeError(str(e))\n", ['R18.5']),
    M('ports-read-before-bootstrap', FC, "        yield self.post_bootstrap\n\n        if socks_config is None:", "        if socks_config is None:", ['R18.6']),
    M('default-endpoint-guard-negated', 'txtorcon/controller.py', "        if self._socks_endpoint is None:\n            self._socks_endpoint = yield _create_socks_endpoint", "        if self._socks_endpoint is not None:\n            self._socks_endpoint = yield _create_socks_endpoint", ['R18.7']),
    M('default-endpoint-not-returned', 'txtorcon/controller.py', "            self._socks_endpoint = yield _create_socks_endpoint(self._reactor, self._protocol)\n        return self._socks_endpoint", "            self._socks_endpoint = yield _create_socks_endpoint(self._reactor, self._protocol)\n        return None", ['R18.7']),
    M('wanted-never-bound', FC, "            wanted = socks_config.split()[0]\n            if not any([port", "            if not any([port", ['R-X']),
    M('path-never-defined', FC, "        path = socks_config[5:]\n        if path.startswith", "        if path.startswith", ['R-X']),
    M('rollback-by-snapshot', FC, ["                self.SocksPort.append(socks_config)\n", "                except TorProtocolError as e:\n"], ["                previous = list(self.SocksPort)\n                self.SocksPort.append(socks_config)\n", "                except TorProtocolError as e:\n                    self.SocksPort = previous\n"], ['R18.5']),
    M('agent-whole-line-membership', 'txtorcon/web.py', "    wanted = socks_config.split()[0]\n    if not any(port.split()[0] == wanted for port in torconfig.SocksPort):", "    if socks_config not in torconfig.SocksPort:", ['R18.5']),
    M('candidates-not-stripped', F, "    socks_ports = [port.split()[0] for port in socks_ports]\n", "", ['R18.3']),
    M('mismatch-breaks', F, "        if socks_config and p != socks_config:\n            continue", "        if socks_config and p != socks_config:\n            break", ['R18.3']),
    M('default-endpoint-first-line', 'txtorcon/controller.py', "        if self._socks_endpoint is None:\n            self._socks_endpoint = yield _create_socks_endpoint(self._reactor, self._protocol)", "        if self._socks_endpoint is None and self._config is not None:\n            self._socks_endpoint = self._config.socks_endpoint(self._reactor)\n        if self._socks_endpoint is None:\n            self._socks_endpoint = yield _create_socks_endpoint(self._reactor, self._protocol)", ['R18.7']),
    M('unix-line-options-kept', FC, "        elif ' ' in path:\n            path = path.split()[0]\n", "", ['R18.5']),
    M('unix-or-tcp', F, "    for p in list(unix_ports) + list(tcp_ports):  # prefer unix-ports", "    for p in sorted(unix_ports) or sorted(tcp_ports):", ['R18.3']),
    M('tcp-group-left-out', F, "    for p in list(unix_ports) + list(tcp_ports):  # prefer unix-ports", "    for p in list(unix_ports):", ['R18.3']),
    M('setconf-not-awaited', F, "        yield control_protocol.set_conf(*args)", "        control_protocol.set_conf(*args)", ['R18.6']),
    M('relist-stripped', F, "        for p in socks_lines:\n            args.append('SOCKSPort')", "        for p in socks_ports + [socks_config]:\n            args.append('SOCKSPort')", ['R18.1']),
    M('relist-only-new', F, "        for p in socks_lines:\n            args.append('SOCKSPort')", "        for p in [socks_config]:\n            args.append('SOCKSPort')", ['R18.1']),
    M('new-not-listed', F, "        socks_lines.append(socks_config)\n", "", ['R18.1']),
    M('setconf-per-entry', F, "            args.append(p)\n        yield control_protocol.set_conf(*args)", "            args.append(p)\n            yield control_protocol.set_conf(*args)", ['R18.2']),
    M('setconf-unconditional', F, "    if socks_endpoint is None:\n        if socks_config is None:", "    if True:\n        if socks_config is None:", ['R18.3']),
    M('match-substring', F, "        if socks_config and p != socks_config:\n            continue", "        if socks_config and socks_config not in p:\n            continue", ['R18.3']),
    M('ports-swapped', F, "    socks_ports_to_try = [9050, 9150]", "    socks_ports_to_try = [9150, 9050]", ['R18.4']),
    M('except-exception', F, "                except error.ConnectError as e0:\n                    last_error = e0", "                except Exception as e0:\n                    last_error = e0", ['R18.4']),
    M('raise-in-handler', F, "                except error.ConnectError as e0:\n                    last_error = e0\n", "                except error.ConnectError as e0:\n                    last_error = e0\n                    raise\n", ['R18.4']),
    M('first-error-raised', F, "            if last_error is not None:\n                raise last_error", "            if last_error is not None:\n                pass", ['R18.4']),
    M('create-substring', FC, "            wanted = socks_config.split()[0]\n            if not any([port.split()[0] == wanted for port in self.SocksPort]):", "            if not any([socks_config in port for port in self.SocksPort]):", ['R18.5']),
]
TWINS = [
    M('candidates-all-ports', F, "    for p in list(unix_ports) + list(tcp_ports):  # prefer unix-ports", "    for p in sorted(unix_ports) + sorted(tcp_ports):"),
    M('relist-copy', F, "    socks_lines = list(socks_ports)  # as reported, for re-listing below", "    socks_lines = [line for line in socks_ports]"),
    M('extend-args', F, "        for p in socks_lines:\n            args.append('SOCKSPort')\n            args.append(p)", "        for line in socks_lines:\n            args.append('SOCKSPort')\n            args.append(line)"),
]
