"""C06 - SOCKS5 requests are RFC 1928 well-formed for every target and port."""
import ast
import re

from .common import *  # noqa
from ..tables import AutomatTable
from .c05 import machine_raw as machine, MOD
from ..tables import AutomatTable


def table(run):
    return AutomatTable(machine(run))


def MU(run, name):
    u = run.idx.find_method(machine(run), name)
    if u is None:
        raise AnchorVanished('_SocksMachine.%s' % name)
    return u
from .c01 import _resolve_name

CMD = {'CONNECT': 0x01, 'RESOLVE': 0xF0, 'RESOLVE_PTR': 0xF1}
FAMILIES = ('v4', 'v6', 'name')
TW = {'twisted.internet.address.IPv4Address': 'v4', 'twisted.internet.address.IPv6Address': 'v6',
      'twisted.internet.address.HostnameAddress': 'name'}
AFAM = {'AF_INET': 'v4', 'AF_INET6': 'v6', 'socket.AF_INET': 'v4', 'socket.AF_INET6': 'v6'}
ATYP = {'v4': 1, 'name': 3, 'v6': 4}
WIDTH = {'v4': 4, 'v6': 16}


def origin(mod, node):
    d = dotted(node)
    if d is None:
        return None
    head = d.split('.')[0]
    o = mod.imports.get(head)
    return (o + d[len(head):]) if o else d


def returned_family(run):
    u = run.idx.unit(MOD + '._create_ip_address')
    mod = u.module
    out = set()
    for n in walk_unit(u):
        if isinstance(n, ast.Call):
            o = origin(mod, n.func)
            if o in TW:
                out.add(o)
            # a class looked up in a module-level table {..: IPv4Address, ..: IPv6Address}: every class the table holds
            f = n.func
            if isinstance(f, ast.Subscript) and isinstance(f.value, ast.Name):
                for st in mod.tree.body:
                    if isinstance(st, ast.Assign) and any(isinstance(t, ast.Name) and t.id == f.value.id for t in st.targets) and isinstance(st.value, ast.Dict):
                        for v in st.value.values:
                            o2 = origin(mod, v)
                            if o2 in TW:
                                out.add(o2)
    return out


def truth(e, fam, defs, mod, bad=None):
    """three-valued truth of a test under `self._addr` being of family fam."""
    if isinstance(e, ast.UnaryOp) and isinstance(e.op, ast.Not):
        v = truth(e.operand, fam, defs, mod, bad)
        return None if v is None else (not v)
    if isinstance(e, ast.BoolOp):
        vs = [truth(v, fam, defs, mod, bad) for v in e.values]
        if isinstance(e.op, ast.And):
            if any(v is False for v in vs):
                return False
            return True if all(v is True for v in vs) else None
        if any(v is True for v in vs):
            return True
        return False if all(v is False for v in vs) else None
    if isinstance(e, ast.Constant):
        return bool(e.value)
    if isinstance(e, ast.Name):
        d = single_def(defs, e.id)
        if d is not None and d[0] == 'expr':
            return truth(d[1], fam, defs, mod, bad)
        return None
    if isinstance(e, ast.Call) and dotted(e.func) == 'isinstance' and len(e.args) == 2 and dotted(e.args[0]) == 'self._addr':
        cl = e.args[1].elts if isinstance(e.args[1], ast.Tuple) else [e.args[1]]
        res = False
        for c in cl:
            o = origin(mod, c)
            if o in TW:
                if TW[o] == fam:
                    res = True
            elif bad is not None:
                bad.append((e, o))
        return res
    return None


def parse_fmt(node):
    """('!', [(count, code)]) with count int | Hole-expr | None ; None if not understood."""
    holes = []
    c = const(node)
    if c is NOCONST and isinstance(node, ast.Call) and callee_attr(node) == 'format':
        c = const(receiver(node))
        holes = list(node.args)
    if not isinstance(c, str):
        return None
    order = ''
    if c and c[0] in '@=<>!':
        order, c = c[0], c[1:]
    fields = []
    hi = 0
    for m in re.finditer(r'(\d+|\{\})?([a-zA-Z?])', c):
        cnt, code = m.group(1), m.group(2)
        if cnt == '{}':
            cnt = holes[hi] if hi < len(holes) else None
            hi += 1
            if cnt is None:
                return None
        elif cnt is not None:
            cnt = int(cnt)
        fields.append((cnt, code))
    if re.sub(r'(\d+|\{\})?([a-zA-Z?])', '', c).strip():
        return None
    return order, fields


def r06_1(run):
    sv = MU(run, '_send_version')
    sends = [c for c in calls_in(sv) if dotted(c.func) == 'self._data_to_send']
    run.floor('R06.1', 'sends in _send_version', len(sends), 1)
    for c in sends:
        a = c.args[0] if c.args else None
        val = const(a)
        if val is NOCONST and isinstance(a, ast.Call) and dotted(a.func) == 'struct.pack':
            pf = parse_fmt(a.args[0])
            vals = [const(x) for x in a.args[1:]]
            if pf and all(code == 'B' and cnt in (None, 1) for cnt, code in pf[1]) and all(isinstance(v, int) for v in vals):
                val = bytes(vals)
        run.ob('R06.1', sv, c, 'method selection is 05 01 00 (one method: no authentication)', val == b'\x05\x01\x00', slot='greeting',
               message='method-selection message is %r' % (val if val is not NOCONST else src(a)))
    t = table(run)
    rows = t.rows_with_output('_send_version')
    ok = len(rows) == 1 and rows[0]['state'] == 'unconnected' and rows[0]['input'] == 'connection'
    run.ob('R06.1', sv, sv.node, 'greeting sent exactly on (unconnected, connection)', ok, slot='greeting-row',
           message='_send_version is an output of %s' % [(r['state'], r['input']) for r in rows])


def dispatch_table(run):
    ci = machine(run)
    d = ci.attrs.get('_dispatch')
    out = {}
    if isinstance(d, ast.Dict):
        for k, v in zip(d.keys, d.values):
            out[const(k)] = dotted(v)
        return out
    # the same as an if-chain in _send_request: each sender call is decided by equality tests on self._req_type (an `assert ==`
    # in front of the last one counts as its test)
    sr = run.idx.find_method(ci, '_send_request')
    if sr is not None:
        g = cfg_of(sr, assert_raises=True)
        for n in g.real_nodes():
            for a in node_asts(n):
                if isinstance(a, ast.Call) and (dotted(a.func) or '').startswith('self._send_') and dotted(a.func) != 'self._send_request':
                    for t, lab in g.guarded_by(n, lambda t_: isinstance(t_, ast.Compare) and len(t_.ops) == 1 and dotted(t_.left) == 'self._req_type'
                                               and isinstance(t_.ops[0], (ast.Eq, ast.NotEq)) and isinstance(const(t_.comparators[0]), str)):
                        if (lab == 'T') == isinstance(t.ast.ops[0], ast.Eq):
                            out[const(t.ast.comparators[0])] = dotted(a.func)[5:]
        for st in walk_unit(sr):
            if isinstance(st, ast.Assert) and isinstance(st.test, ast.Compare) and dotted(st.test.left) == 'self._req_type' and isinstance(st.test.ops[0], ast.Eq):
                # the statement right after the assert
                body = sr.node.body
                for i, b in enumerate(body):
                    if b is st and i + 1 < len(body):
                        for a in ast.walk(body[i + 1]):
                            if isinstance(a, ast.Call) and (dotted(a.func) or '').startswith('self._send_'):
                                out[const(st.test.comparators[0])] = dotted(a.func)[5:]
    if len(out) < 3:
        raise AnchorVanished('_SocksMachine._dispatch literal dict')
    return out


def packs_to_send(u):
    out = []
    for c in calls_in(u):
        if dotted(c.func) == 'self._data_to_send' and c.args:
            a = _resolve_name(local_defs(u), c.args[0])
            if isinstance(a, ast.Call) and dotted(a.func) == 'struct.pack':
                out.append((c, a))
            else:
                out.append((c, None))
    return out


def r06_2(run):
    disp = dispatch_table(run)
    fam_ret = returned_family(run)
    run.ob('R06.2', MOD, None, '_create_ip_address classifies into IPv4 / IPv6 / hostname', set(TW) <= fam_ret, slot='families',
           message='_create_ip_address returns %s' % sorted(fam_ret))
    npack = 0
    for req, fname in sorted(disp.items()):
        if req not in CMD:
            run.ob('R06.2', MOD, None, 'request type %r known' % req, None, message='unknown request type %r in _dispatch' % req)
            continue
        u = MU(run, fname)
        mod = u.module
        defs = local_defs(u)
        g = cfg_of(u)
        ps = packs_to_send(u)
        for c, pk in ps:
            if pk is None:
                run.ob('R06.2', u, c, 'request bytes built by struct.pack', None, message='%s sends %s' % (fname, src(c.args[0])[:60]))
        pk_nodes = dict((id(pk), g.nodes_containing(pk)) for c, pk in ps if pk is not None)
        bad_cls = []
        fams = FAMILIES if req != 'RESOLVE_PTR' else ('v4', 'v6')
        for fam in fams:
            def hook(node, val, trail, fam=fam):
                return truth(node.ast, fam, defs, mod, bad_cls)
            reached = []
            for p in g.paths(eval_hook=hook):
                run.paths_enumerated += 1
                if p.exit == 'raise':
                    continue
                hit = [pk for c, pk in ps if pk is not None and any(n in pk_nodes[id(pk)] for n in p.nodes())]
                # names bound differently per family leg (if v6: fmt = ... else: fmt = ...): what holds on this path
                pdefs = dict(defs)
                for n_, lab_ in p.steps:
                    if n_.kind == 'stmt' and isinstance(n_.ast, ast.Assign) and lab_ != 'exc':
                        for t_ in n_.ast.targets:
                            if isinstance(t_, ast.Name):
                                pdefs[t_.id] = [('expr', n_.ast.value)]
                reached.append((hit, pdefs))
            for hit, pdefs in reached:
                run.ob('R06.2', u, u.node, '%s/%s: exactly one request is packed' % (req, fam), len(hit) == 1, slot='one-pack:%s:%s' % (req, fam),
                       message='%s packs %d requests for a %s target' % (fname, len(hit), fam))
                for pk in hit:
                    npack += 1
                    check_pack(run, u, req, fam, pk, pdefs, mod, bad_cls)
        seen = set()
        for e, o in bad_cls:
            if id(e) in seen:
                continue
            seen.add(id(e))
            run.ob('R06.2', u, e, 'address-family tests name a class _create_ip_address returns', False, slot='foreign-class:%s' % fname,
                   message='%s tests isinstance(self._addr, %s) but self._addr is always one of twisted.internet.address.'
                           '{IPv4Address,IPv6Address,HostnameAddress}: the test is constantly false' % (fname, o))
    run.floor('R06.2', 'pack x family evaluations', npack, 7)


def check_pack(run, u, req, fam, pk, defs, mod, bad):
    tag = '%s:%s' % (req, fam)
    fnode = _resolve_name(defs, pk.args[0])
    if isinstance(fnode, ast.IfExp):
        t = truth(fnode.test, fam, defs, mod, bad)
        if t is None:
            run.ob('R06.2', u, pk, 'pack format decided by the address family', None, message='format choice %s not decided' % src(fnode.test))
            return
        fnode = fnode.body if t else fnode.orelse
    pf = parse_fmt(fnode)
    if pf is None:
        run.ob('R06.2', u, pk, 'pack format understood', None, message='format %s not understood' % src(pk.args[0]))
        return
    order, fields = pf
    args = list(pk.args[1:])
    run.ob('R06.2', u, pk, '%s: network byte order' % tag, order in ('!', '>'), slot='order:' + tag,
           message='request packed with byte order %r (port must be big-endian)' % order)
    if len(fields) != len(args):
        run.ob('R06.2', u, pk, 'format/argument arity', None, message='format has %d fields, %d values' % (len(fields), len(args)))
        return

    def cv(i):
        a = args[i]
        if isinstance(a, ast.IfExp):
            t = truth(a.test, fam, defs, mod, bad)
            if t is None:
                return NOCONST
            a = a.body if t else a.orelse
        a2 = _resolve_name(defs, a)
        if isinstance(a2, ast.IfExp):
            t = truth(a2.test, fam, defs, mod, bad)
            if t is None:
                return NOCONST
            a2 = a2.body if t else a2.orelse
        return const(a2)
    codes = [c for _, c in fields]
    head_ok = codes[:4] == ['B', 'B', 'B', 'B'] and all(fields[i][0] in (None, 1) for i in range(4))
    run.ob('R06.2', u, pk, '%s: header is VER CMD RSV ATYP as four bytes' % tag, head_ok, slot='header:' + tag, message='header fields are %s' % codes[:4])
    if not head_ok:
        return
    run.ob('R06.2', u, pk, '%s: VER = 5' % tag, cv(0) == 5, slot='ver:' + tag, message='VER is %r' % (cv(0),))
    run.ob('R06.2', u, pk, '%s: CMD = 0x%02x' % (tag, CMD[req]), cv(1) == CMD[req], slot='cmd:' + tag, message='CMD is %r for %s' % (cv(1), req))
    run.ob('R06.2', u, pk, '%s: RSV = 0' % tag, cv(2) == 0, slot='rsv:' + tag, message='RSV is %r' % (cv(2),))
    atyp = cv(3)
    rest = fields[4:]
    rargs = args[4:]
    # port: last field H
    okp = bool(rest) and rest[-1] == (None, 'H')
    run.ob('R06.2', u, pk, '%s: port is one 16-bit field at the end' % tag, okp, slot='port:' + tag, message='last field is %s' % (rest[-1:],))
    if req == 'CONNECT' and okp:
        pa = _resolve_name(defs, rargs[-1])
        run.ob('R06.2', u, pk, '%s: port field carries the target port' % tag, dotted(pa) in ('self._addr.port',), slot='port-value:' + tag,
               message='port field is %s' % src(pa))
    addr_f, addr_a = rest[:-1], rargs[:-1]
    if atyp == 3:
        ok = len(addr_f) == 2 and addr_f[0] == (None, 'B') and addr_f[1][1] == 's' and isinstance(addr_f[1][0], ast.AST)
        same = False
        if ok:
            hole = addr_f[1][0]
            ln, hv = addr_a
            same = (isinstance(hole, ast.Call) and dotted(hole.func) == 'len' and isinstance(ln, ast.Call) and dotted(ln.func) == 'len'
                    and src(hole.args[0]) == src(ln.args[0]) == src(hv))
        run.ob('R06.2', u, pk, '%s: DOMAINNAME = length byte + exactly that many bytes of the same value' % tag, ok and same, slot='domain:' + tag,
               message='ATYP 3 address is %s with values %s' % ([(src(c) if isinstance(c, ast.AST) else c, k) for c, k in addr_f], [src(a) for a in addr_a]))
        if fam != 'name' and req == 'CONNECT':
            run.ob('R06.2', u, pk, '%s: an IP literal is sent with its own address type' % tag, False, slot='atyp:' + tag,
                   message='%s target sent as DOMAINNAME' % fam)
        return
    if atyp in (1, 4):
        want = {1: 'v4', 4: 'v6'}[atyp]
        run.ob('R06.2', u, pk, '%s: ATYP matches the address family' % tag, want == fam, slot='atyp:' + tag,
               message='ATYP %d sent for a %s target' % (atyp, fam))
        okw = len(addr_f) == 1 and addr_f[0][1] == 's' and addr_f[0][0] == WIDTH[fam]
        run.ob('R06.2', u, pk, '%s: address field is the full %d bytes' % (tag, WIDTH[fam]), okw, slot='width:' + tag,
               message='%s address packed as %s: RFC 1928 wants %d bytes (struct truncates/pads silently)' % (
                   fam, ['%s%s' % (c, k) for c, k in addr_f], WIDTH[fam]))
        if len(addr_a) == 1:
            enc = _resolve_name(defs, addr_a[0])
            okf = False
            why = src(enc)
            if isinstance(enc, ast.Call) and dotted(enc.func) in ('inet_pton', 'socket.inet_pton') and enc.args:
                af = _resolve_name(defs, enc.args[0])
                if isinstance(af, ast.IfExp):
                    t = truth(af.test, fam, defs, mod, bad)
                    af = None if t is None else (af.body if t else af.orelse)
                okf = af is not None and AFAM.get(dotted(af)) == fam
            elif isinstance(enc, ast.Call) and dotted(enc.func) in ('inet_aton', 'socket.inet_aton'):
                okf = fam == 'v4'
                why = 'inet_aton (IPv4 only)'
            run.ob('R06.2', u, pk, '%s: address bytes encoded for the same family' % tag, okf, slot='encode:' + tag,
                   message='%s address encoded with %s' % (fam, why))
        return
    run.ob('R06.2', u, pk, '%s: ATYP is a constant 1/3/4 under this family' % tag, None if atyp is NOCONST else False, slot='atyp:' + tag,
           message='ATYP is %r' % (atyp if atyp is not NOCONST else src(args[3])))


def r06_3(run):
    t = table(run)
    rows = t.rows_with_output('_send_request')
    ok = len(rows) == 1 and rows[0]['state'] == 'sent_version' and rows[0]['input'] == 'version_reply' and rows[0]['enter'] == 'sent_request'
    run.ob('R06.3', MOD, rows[0]['node'] if rows else None, 'request sent exactly on (sent_version, version_reply) -> sent_request', ok, slot='request-row',
           message='_send_request is an output of %s' % [(r['state'], r['input'], r['enter']) for r in rows])
    disp = dispatch_table(run)
    for fname in disp.values():
        for r in t.rows_with_output(fname):
            run.ob('R06.3', MOD, r['node'], 'request packers are not outputs themselves', False, slot='packer-row:%s' % fname,
                   message='%s is an output of (%s, %s)' % (fname, r['state'], r['input']))
    sr = MU(run, '_send_request')
    calls = [c for c in calls_in(sr) if isinstance(c.func, ast.Subscript) and dotted(c.func.value) == 'self._dispatch']
    ok = len(calls) == 1 and dotted(calls[0].func.slice) == 'self._req_type'
    if not calls:
        # an if-chain instead of the table: every path through _send_request runs exactly one sender, chosen by the request type
        gs_ = cfg_of(sr, assert_raises=True)
        ok = len(disp) >= 3
        for p_ in gs_.paths(follow_exc=False):
            if p_.exit == 'raise':
                continue
            k_ = sum(1 for n_, _ in p_.steps for a_ in node_asts(n_) if n_.kind == 'stmt' and isinstance(a_, ast.Call) and (dotted(a_.func) or '')[5:] in disp.values())
            if k_ != 1:
                ok = False
    run.ob('R06.3', sr, sr.node, 'one packer chosen by the request type', ok, slot='dispatch', message='_send_request does not dispatch once on self._req_type')
    pv = MU(run, '_parse_version_reply')
    g = cfg_of(pv)
    unp = [n for n in walk_unit(pv) if isinstance(n, ast.Assign) and isinstance(n.value, ast.Call) and dotted(n.value.func) == 'struct.unpack']
    names = [e.id for e in unp[0].targets[0].elts] if unp and isinstance(unp[0].targets[0], ast.Tuple) else []
    for c in calls_in(pv, 'self.version_reply'):
        for n in g.nodes_containing(c):
            gv = g.guarded_by(n, lambda x: isinstance(x, ast.Compare) and names and dotted(x.left) == names[0] and const(x.comparators[0]) == 5)
            okv = any((isinstance(tn.ast.ops[0], ast.Eq) and lab == 'T') or (isinstance(tn.ast.ops[0], ast.NotEq) and lab == 'F') for tn, lab in gv)
            run.ob('R06.3', pv, c, 'request follows only a version-5 method reply', okv, slot='version-gate', message='version_reply raised without version == 5')
            gm = g.guarded_by(n, lambda x: isinstance(x, ast.Compare) and len(names) > 1 and dotted(x.left) == names[1])
            okm = False
            for tn, lab in gm:
                op, cmpv = tn.ast.ops[0], const(tn.ast.comparators[0])
                if isinstance(cmpv, tuple):
                    cmpv = list(cmpv)
                if isinstance(op, (ast.In, ast.NotIn)) and (lab == 'T') == isinstance(op, ast.In) and isinstance(cmpv, list) and 0 in cmpv and set(cmpv) <= set([0, 2]):
                    okm = True
                if isinstance(op, (ast.Eq, ast.NotEq)) and (lab == 'T') == isinstance(op, ast.Eq) and cmpv == 0:
                    okm = True
            run.ob('R06.3', pv, c, 'request follows only the selection of an offered method', okm, slot='method-gate',
                   message='version_reply raised without testing the selected method')
    sr_assert = [n for n in walk_unit(sr) if isinstance(n, ast.Assert)]
    ok = any('== 0' in src(a) for a in sr_assert) or any(isinstance(n, ast.Compare) and const(n.comparators[0]) == 0 for n in walk_unit(sr))
    run.ob('R06.3', sr, sr.node, 'request only when "no authentication" (0) was selected', ok, slot='method-zero',
           message='_send_request does not insist on method 0')


def resolve_at(g, at_ast, expr, depth=0):
    """flow-sensitive: follow a local name to its single reaching definition at the
    CFG node containing at_ast."""
    while isinstance(expr, ast.Name) and depth < 5:
        vals = []
        for n in g.nodes_containing(at_ast):
            for rd in reaching_defs(g, n, expr.id):
                vals.append(def_value(rd, expr.id))
        if len(vals) != 1 or vals[0] is None:
            break
        # do not loop on self-referential updates: host = host.encode(...)
        if any(isinstance(x, ast.Name) and x.id == expr.id for x in ast.walk(vals[0])):
            return vals[0]
        expr = vals[0]
        depth += 1
    return expr


def r06_5(run):
    """every port 0..65535 and every host is accepted by the constructor path: no test on the port
    can reach a raise for a representative of the legal range"""
    units = [run.idx.unit(MOD + '._create_ip_address'), run.idx.find_method(machine(run), '__init__')]
    for u in units:
        g = cfg_of(u)
        pn = [p for p in u.params if p == 'port']
        if not pn:
            continue
        tests = [t for t in g.live if t.kind == 'test' and any(isinstance(x, ast.Name) and x.id == 'port' for x in ast.walk(t.ast))]
        for v in (0, 1, 80, 65534, 65535):
            for t in tests:
                r = eval_small(t.ast, {'port': v})
                if r is UNKNOWN:
                    continue
                lab = 'T' if r else 'F'
                nxt = [s_ for l, s_ in t.succ if l == lab]
                reach = g.reachable(nxt)
                bad = g.exit_raise in reach and not any(e in reach for e in g.normal_exits())
                run.ob('R06.5', u, t.ast, 'port %d is accepted' % v, not bad, slot='port-range@%s' % u.short,
                       message='%s: the test %s refuses port %d, which is a legal TCP port' % (u.short, src(t.ast), v))
        run.ob('R06.5', u, u.node, 'port tests examined in %s' % u.short, True)
    mi = run.idx.find_method(machine(run), '__init__')
    ok = any(isinstance(n, ast.Call) and dotted(n.func) == '_create_ip_address' and len(n.args) == 2 and dotted(n.args[1]) == 'port' for n in walk_unit(mi))
    run.ob('R06.5', mi, mi.node, 'the port reaches the address object unchanged', ok, slot='port-flow', message='port is not passed unchanged to _create_ip_address')


def r06_6(run):
    """The classifier is faithful: the family object is chosen by the class ipaddress.ip_address() gives for the
    caller's own host string, and carries that string; no rewriting (IPv4-mapped, scope ids, ...) in between."""
    u = run.idx.unit(MOD + '._create_ip_address')
    mod = u.module
    g = cfg_of(u)
    hp = u.params[0] if u.params else None
    pp = u.params[1] if len(u.params) > 1 else None
    # the parsed value: locals assigned from ipaddress.ip_address(...)
    parsed = names_defined_by(u, lambda v: isinstance(v, ast.Call) and (origin(mod, v.func) or '').endswith('ipaddress.ip_address'))
    run.floor('R06.6', 'locals holding the parsed address', len(parsed), 1)
    k = 0
    for n in walk_unit(u):
        if isinstance(n, (ast.Assign, ast.AugAssign)):
            for t in assigned_targets(n):
                if t in parsed:
                    v = n.value
                    ok = is_none(v) or (isinstance(v, ast.Call) and (origin(mod, v.func) or '').endswith('ipaddress.ip_address')
                                        and len(v.args) == 1 and dotted(v.args[0]) == hp)
                    k += 1
                    run.ob('R06.6', u, n, 'the parsed address is ipaddress.ip_address(host) or None', ok, slot='parsed-rewritten',
                           message='_create_ip_address sets the parsed address to %s: the family sent no longer follows the literal the caller gave' % src(v)[:60])
                if t in (hp, pp):
                    k += 1
                    run.ob('R06.6', u, n, 'host and port parameters are not rewritten', False, slot='param-rewritten:%s' % t,
                           message='_create_ip_address rewrites its parameter %s' % t)
    # every host string is put to the literal parser: no test on the host decides whether it is asked at all (a "looks like a
    # name" shortcut mis-files literals - an IPv6 literal ends in a hex letter as often as not)
    for c in calls_in(u):
        if (origin(mod, c.func) or '').endswith('ipaddress.ip_address'):
            for cn in g.nodes_containing(c):
                gd = g.guarded_by(cn, lambda t: hp is not None and mentions(t, hp))
                # (a test whose other leg only refuses the host - raises - does not decide *how* a host is classified)
                normal = set(g.normal_exits())
                gd = [(t, lab) for t, lab in gd if normal & g.reachable([s_ for l_, s_ in t.succ if l_ not in (lab, 'exc')], avoid=lambda x, cn=cn: x is cn, follow_exc=False)]
                k += 1
                run.ob('R06.6', u, c, 'the literal parser is consulted for every host', not gd, slot='classifier-unconditional',
                       message='_create_ip_address asks ipaddress.ip_address only when %s: hosts failing that test are filed as names without being parsed '
                               '(e.g. the IPv6 literal 2001:db8::a)' % ' / '.join(src(t.ast)[:40] for t, _ in gd))
    fam_cls = {'v4': 'IPv4Address', 'v6': 'IPv6Address'}
    for c in calls_in(u):
        o = origin(mod, c.func)
        if o not in TW:
            continue
        fam = TW[o]
        args = [dotted(a) for a in c.args]
        k += 1
        run.ob('R06.6', u, c, 'the address object carries the caller\'s host and port', hp in args and (pp in args), slot='ctor-args:%s' % fam,
               message='%s built from %s rather than (%s, %s)' % (o.split('.')[-1], args, hp, pp))
        if fam in fam_cls:
            ok = False
            for cn in g.nodes_containing(c):
                for t, lab in g.guarded_by(cn, lambda t: isinstance(t, ast.Call) and dotted(t.func) == 'isinstance'):
                    if lab == 'T' and len(t.ast.args) == 2 and dotted(t.ast.args[0]) in parsed and (origin(mod, t.ast.args[1]) or '').endswith('ipaddress.' + fam_cls[fam]):
                        ok = True
            if not ok:
                # the same decision read off the parsed object's .version (ip_address() yields version 4 or 6, nothing else)
                vnames = set(names_defined_by(u, lambda v: isinstance(v, ast.Attribute) and v.attr == 'version' and isinstance(v.value, ast.Call)
                                              and (origin(mod, v.value.func) or '').endswith('ipaddress.ip_address')))
                vnames |= set('%s.version' % p_ for p_ in parsed)
                want_v, other_v = (4, 6) if fam == 'v4' else (6, 4)
                for cn in g.nodes_containing(c):
                    for t, lab in g.guarded_by(cn, lambda t: isinstance(t, ast.Compare) and len(t.ops) == 1 and isinstance(t.ops[0], (ast.Eq, ast.NotEq)) and dotted(t.left) in vnames):
                        cv = const(t.ast.comparators[0])
                        eq = isinstance(t.ast.ops[0], ast.Eq)
                        if (cv == want_v and (lab == 'T') == eq) or (cv == other_v and (lab == 'T') != eq):
                            ok = True
            run.ob('R06.6', u, c, '%s is returned exactly under isinstance(parsed, ipaddress.%s)' % (fam, fam_cls[fam]), ok, slot='family-guard:%s' % fam,
                   message='the %s address object is not guarded by isinstance(<parsed>, ipaddress.%s)' % (fam, fam_cls[fam]))
    run.floor('R06.6', 'classifier obligations', k, 5)
    # the constructor hands the caller's host to the classifier unchanged (str() of it at most)
    mi = run.idx.find_method(machine(run), '__init__')
    hp2 = 'host' if 'host' in mi.params else None
    if hp2 is None:
        raise AnchorVanished('_SocksMachine.__init__ host parameter')
    for n in walk_unit(mi):
        if isinstance(n, (ast.Assign, ast.AugAssign)) and hp2 in assigned_targets(n):
            v = n.value
            same = isinstance(v, ast.Call) and dotted(v.func) == 'str' and len(v.args) == 1 and dotted(v.args[0]) == hp2
            run.ob('R06.6', mi, n, 'the requested host is not rewritten before it is classified', same, slot='host-rewritten@__init__',
                   message='_SocksMachine.__init__ sets host = %s: the address sent is not the one the caller asked for' % src(v)[:50])
    calls = [c for c in calls_in(mi) if dotted(c.func) == '_create_ip_address']
    for c in calls:
        a0 = c.args[0] if c.args else None
        okh = a0 is not None and (dotted(a0) == hp2 or (isinstance(a0, ast.Call) and dotted(a0.func) == 'str' and len(a0.args) == 1 and dotted(a0.args[0]) == hp2))
        run.ob('R06.6', mi, c, 'the classifier receives the caller\'s host', okh, slot='host-flow', message='_create_ip_address is given %s' % (src(a0) if a0 is not None else None))


def r06_7(run):
    """Draining the queued output (send_data, used when no synchronous writer is given) may call back into the machine: the
    callback can deliver the server's reply, which queues the request.  Whatever empties the queue must therefore run before the
    callback it hands the bytes to - a wholesale reset after the callback throws away what was queued meanwhile (the request)."""
    sd = MU(run, 'send_data')
    g = cfg_of(sd)
    cbp = sd.params[1] if len(sd.params) > 1 else 'callback'
    cbs = g.nodes_where(lambda n: any(isinstance(a, ast.Call) and dotted(a.func) == cbp for a in node_asts(n)))
    run.floor('R06.7', 'callback calls in send_data', len(cbs), 1)

    def wholesale(n):
        if n.kind != 'stmt':
            return False
        for a in node_asts(n):
            if isinstance(a, ast.Assign) and assign_to(a, 'self._outgoing_data') is not None and not mentions(a.value, 'self._outgoing_data'):
                # (an assignment that also reads the queue takes its content, it does not discard it - also when the take is the
                # statement just before: `pending = self._outgoing_data; self._outgoing_data = []`, the split form of a swap)
                preds = [p_ for _, p_ in n.pred]
                if len(preds) == 1 and preds[0].kind == 'stmt' and isinstance(preds[0].ast, ast.Assign) and dotted(preds[0].ast.value) == 'self._outgoing_data':
                    continue
                return True
            if isinstance(a, ast.Call) and dotted(a.func) == 'self._outgoing_data.clear':
                return True
            if isinstance(a, ast.Delete) and any(isinstance(t, ast.Subscript) and dotted(t.value) == 'self._outgoing_data' and isinstance(t.slice, ast.Slice) for t in a.targets):
                return True
        return False
    for c in cbs:
        after = g.reachable([s_ for lab, s_ in c.succ if lab != 'exc'], follow_exc=False)
        late = [n for n in after if wholesale(n)]
        run.ob('R06.7', sd, c.ast, 'nothing empties the output queue after handing bytes to the callback', not late, slot='drain-reentrant',
               message='send_data resets the queue (%s) after calling the callback: a request queued from inside that callback (the server\'s method reply '
                       'delivered synchronously) is discarded - the peer sees the greeting and then no request at all' % (src(late[0].ast)[:40] if late else ''))


def r06_4(run):
    disp = dispatch_table(run)
    k = 0
    for req, fname in sorted(disp.items()):
        u = MU(run, fname)
        defs = local_defs(u)
        for c, pk in packs_to_send(u):
            if pk is None:
                continue
            fn = _resolve_name(defs, pk.args[0])
            pf = parse_fmt(fn.body if isinstance(fn, ast.IfExp) else fn)
            if pf is None:
                continue
            fields = pf[1]
            args = list(pk.args[1:])
            for (cnt, code), a in zip(fields, args):
                if code == 's' and isinstance(cnt, ast.AST):
                    k += 1
                    v = resolve_at(cfg_of(u), pk, a)
                    ok = False
                    why = src(v)
                    if isinstance(v, ast.Call) and callee_attr(v) == 'encode':
                        enc = const(v.args[0]) if v.args else (next((const(kw.value) for kw in v.keywords if kw.arg == 'encoding'), None))
                        err = const(v.args[1]) if len(v.args) > 1 else next((const(kw.value) for kw in v.keywords if kw.arg == 'errors'), 'strict')
                        ok = enc in ('ascii', 'us-ascii') and err == 'strict'
                        why = 'encode(%r, errors=%r)' % (enc if enc is not None else 'utf-8 (default)', err)
                    run.ob('R06.4', u, pk, 'hostname bytes come from a strict ASCII/IDNA encoding', ok, slot='encode:%s' % fname,
                           message='%s sends the name through %s: a non-ASCII name goes out as UTF-8 bytes instead of being refused' % (fname, why))
                    # length is packed in one byte => > 255 refused by struct
                    i = fields.index((cnt, code))
                    run.ob('R06.4', u, pk, 'name length packed in a single byte (over-long names refused by struct)',
                           i > 0 and fields[i - 1] == (None, 'B'), slot='len-byte:%s' % fname, message='length field before the name is %s' % (fields[i - 1],))
    run.floor('R06.4', 'hostname fields packed', k, 2)
    ci = machine(run)
    init = run.idx.find_method(ci, '__init__')
    ok = any(isinstance(n, ast.Call) and dotted(n.func) == '_create_ip_address' for n in walk_unit(init))
    run.ob('R06.4', init, init.node, 'target classified once by _create_ip_address', ok, slot='classify', message='__init__ no longer classifies the target')


def r06_8(run):
    """every hostname of up to 255 octets gets its request: the DOMAINNAME length field is one byte, so 255 is the only length limit
    there is - a refusal at a smaller length (the 253 of DNS text form, a "sane" 128) drops targets the property covers"""
    ci = machine(run)
    units = [u for name, u in ci.methods.items() if name.startswith('_send_') or name == '__init__'] + [run.idx.unit(MOD + '._create_ip_address')]
    k = 0
    for u in units:
        g = cfg_of(u)
        raises = [n for n in g.real_nodes() if n.kind == 'stmt' and isinstance(n.ast, ast.Raise)]
        for r in raises:
            for t, lab in g.guarded_by(r, lambda t_: isinstance(t_, ast.Compare) and len(t_.ops) == 1 and isinstance(t_.left, ast.Call) and dotted(t_.left.func) == 'len'
                                       and isinstance(const(t_.comparators[0]), int)):
                op, K = t.ast.ops[0], const(t.ast.comparators[0])
                # smallest length refused on this edge
                if lab == 'T' and isinstance(op, ast.Gt):
                    least = K + 1
                elif lab == 'T' and isinstance(op, ast.GtE):
                    least = K
                elif lab == 'F' and isinstance(op, ast.LtE):
                    least = K + 1
                elif lab == 'F' and isinstance(op, ast.Lt):
                    least = K
                else:
                    continue
                k += 1
                run.ob('R06.8', u, t.ast, 'no name of 255 octets or fewer is refused for its length', least > 255, slot='length-refusal:%s' % u.name,
                       message='%s refuses names of %d octets and more (%s): RFC 1928 allows 255, so a legal target gets no request' % (u.short, least, src(t.ast)[:40]))
    run.ob('R06.8', MOD, None, 'length refusals examined (%d)' % k, True)


def r06_9(run):
    """the right command code: the request type the caller asked for is the one sent.  _SocksMachine keeps it in one attribute,
    written once, in the constructor, with the constructor's argument; the dispatch table (R06.3) turns it into the command byte.
    Any other store (re-deriving the type from the kind of target) sends a different command than requested"""
    m = machine(run)
    k = 0
    for u in m.methods.values():
        for n in walk_unit(u):
            if isinstance(n, (ast.Assign, ast.AugAssign)):
                for t in (n.targets if isinstance(n, ast.Assign) else [n.target]):
                    if dotted(t) == 'self._req_type':
                        k += 1
                        ok = u.name == '__init__' and isinstance(n, ast.Assign) and isinstance(n.value, ast.Name) and n.value.id in u.params
                        if ok:
                            # every construction that succeeds has passed the store
                            g = cfg_of(u)
                            ok = all(all(g.dominates(cn, e) for e in g.normal_exits()) for cn in g.nodes_containing(n))
                        run.ob('R06.9', u, n, 'the request type is the constructor argument, stored once and unconditionally', ok, slot='req-type-store@%s' % u.name,
                               message='%s sets self._req_type = %s%s: the command byte sent is no longer the request type the caller asked for' %
                                       (u.name, src(n.value)[:40], '' if u.name == '__init__' else ' outside the constructor'))
    run.floor('R06.9', 'stores of the request type', k, 1)


RULES = [
    ('R06.1', 'constant folding: method selection = 05 01 00, sent on (unconnected, connection)', r06_1),
    ('R06.2', 'struct format x header x address agreement with RFC 1928 for every request type and address family (path enumeration over the family atom)', r06_2),
    ('R06.3', 'one request, only after a version-5 reply selecting method 0 (table + dominance)', r06_3),
    ('R06.5', 'no test narrows the legal port range 0..65535 (representatives evaluated through the comparisons)', r06_5),
    ('R06.6', 'classifier fidelity: family chosen by ipaddress.ip_address(host) alone, host/port carried unchanged', r06_6),
    ('R06.7', 're-entrancy of the output drain: no wholesale reset of the queue after the callback', r06_7),
    ('R06.8', 'who-may-refuse: no length test refuses a hostname of 255 octets or fewer', r06_8),
    ('R06.9', 'who-may-write the request type: stored once, in the constructor, from its argument, unconditionally', r06_9),
    ('R06.4', 'sibling agreement: every packed hostname comes from a strict ASCII encoding and a one-byte length', r06_4),
]

from ..selftest import M  # noqa: E402
F = 'txtorcon/socks.py'
MUTANTS = [
    M('dns-text-length-limit', F, "        host = self._addr.host.encode('ascii')\n        self._data_to_send(\n            struct.pack(\n                '!BBBBB{}sH'.format(len(host)),\n                5,                   # version\n                0xF0,", "        host = self._addr.host.encode('ascii')\n        if len(host) > 253:\n            raise ValueError('hostname too long')\n        self._data_to_send(\n            struct.pack(\n                '!BBBBB{}sH'.format(len(host)),\n                5,                   # version\n                0xF0,", ['R06.8']),
    M('drain-join-then-reset', F, "        while len(self._outgoing_data):\n            data = self._outgoing_data.pop(0)\n            callback(data)", "        if self._outgoing_data:\n            callback(b''.join(self._outgoing_data))\n            self._outgoing_data = []", ['R06.7']),
    M('trailing-dot-stripped', F, "        self._addr = _create_ip_address(str(host), port)", "        host = str(host)\n        if host.endswith('.'):\n            host = host[:-1]\n        self._addr = _create_ip_address(host, port)", ['R06.6']),
    M('v4-mapped-rewritten', F, "        a = None\n    if isinstance(a, ipaddress.IPv4Address):", "        a = None\n    if isinstance(a, ipaddress.IPv6Address) and a.ipv4_mapped is not None:\n        a = a.ipv4_mapped\n    if isinstance(a, ipaddress.IPv4Address):", ['R06.6']),
    M('families-swapped', F, "    if isinstance(a, ipaddress.IPv4Address):\n        return IPv4Address('TCP', host, port)", "    if isinstance(a, ipaddress.IPv6Address):\n        return IPv4Address('TCP', host, port)", ['R06.6']),
    M('greeting-two-methods', F, "struct.pack('BBB', 5, 1, 0)", "struct.pack('BBB', 5, 2, 0)", ['R06.1']),
    M('port-little-endian', F, "                    '!BBBBB{}sH'.format(len(host)),\n                    5,                   # version\n                    0x01,", "                    '<BBBBB{}sH'.format(len(host)),\n                    5,                   # version\n                    0x01,", ['R06.2']),
    M('no-byte-order', F, "                '!BBBBB{}sH'.format(len(host)),\n                5,                   # version\n                0xF0,", "                'BBBBB{}sH'.format(len(host)),\n                5,                   # version\n                0xF0,", ['R06.2']),
    M('connect-atyp-domain-as-1', F, "                    0x03,\n                    len(host),\n                    host,\n                    port,", "                    0x01,\n                    len(host),\n                    host,\n                    port,", ['R06.2']),
    M('length-from-other-var', F, "        host = self._addr.host.encode('ascii')\n        self._data_to_send(\n            struct.pack(\n                '!BBBBB{}sH'.format(len(host)),", "        host = self._addr.host.encode('ascii')\n        self._data_to_send(\n            struct.pack(\n                '!BBBBB{}sH'.format(len(self._addr.host)),", ['R06.2']),
    M('resolve-cmd-connect', F, "                0xF0,                # command", "                0x01,                # command", ['R06.2']),
    M('ptr-atyp-swapped', F, "        addr_type = 0x04 if is_v6 else 0x01", "        addr_type = 0x01 if is_v6 else 0x04", ['R06.2']),
    M('ptr-foreign-class', F, "        is_v6 = isinstance(self._addr, IPv6Address)\n        addr_type", "        is_v6 = isinstance(self._addr, ipaddress.IPv6Address)\n        addr_type", ['R06.2']),
    M('connect-port-zero', F, "                    host,\n                    port,\n                )", "                    host,\n                    0,\n                )", ['R06.2']),
    M('request-on-got-data', F, "    sent_version.upon(\n        got_data,\n        enter=sent_version,\n        outputs=[_parse_version_reply],\n    )", "    sent_version.upon(\n        got_data,\n        enter=sent_version,\n        outputs=[_parse_version_reply, _send_request],\n    )", ['R06.3']),
    M('version-not-checked', F, "if version == 5 and method in [0x00, 0x02]:", "if method in [0x00, 0x02]:", ['R06.3']),
    M('resolve-utf8', F, "        host = self._addr.host.encode('ascii')\n        self._data_to_send(\n            struct.pack(\n                '!BBBBB{}sH'.format(len(host)),\n                5,                   # version\n                0xF0,", "        host = self._addr.host.encode('utf-8')\n        self._data_to_send(\n            struct.pack(\n                '!BBBBB{}sH'.format(len(host)),\n                5,                   # version\n                0xF0,", ['R06.4']),
    M('connect-encode-replace', F, "            host = host.encode('ascii')", "            host = host.encode('ascii', 'replace')", ['R06.4']),
]
TWINS = [
    M('method-test-negated-chain', F, "            if version == 5 and method in [0x00, 0x02]:\n                self.version_reply(method)\n                # whatever arrived in the same segment behind the\n                # method reply is (the start of) the request reply\n                if self._data:\n                    self.got_data()\n            else:\n                if version != 5:\n                    self.version_error(SocksError(\n                        \"Expected version 5, got {}\".format(version)))\n                else:\n                    self.version_error(SocksError(\n                        \"Wanted method 0 or 2, got {}\".format(method)))", "            if version != 5:\n                self.version_error(SocksError(\n                    \"Expected version 5, got {}\".format(version)))\n            elif method not in (0x00, 0x02):\n                self.version_error(SocksError(\n                    \"Wanted method 0 or 2, got {}\".format(method)))\n            else:\n                self.version_reply(method)\n                if self._data:\n                    self.got_data()"),
    M('ptr-legs-as-if-else', F, "        is_v6 = isinstance(self._addr, IPv6Address)\n        addr_type = 0x04 if is_v6 else 0x01\n        encoded_host = inet_pton(AF_INET6 if is_v6 else AF_INET, self._addr.host)\n", "        if isinstance(self._addr, IPv6Address):\n            is_v6 = True\n            addr_type = 0x04\n            family = AF_INET6\n        else:\n            is_v6 = False\n            addr_type = 0x01\n            family = AF_INET\n        encoded_host = inet_pton(family, self._addr.host)\n"),
    M('drain-swap-then-call', F, "        while len(self._outgoing_data):\n            data = self._outgoing_data.pop(0)\n            callback(data)", "        while len(self._outgoing_data):\n            pending, self._outgoing_data = self._outgoing_data, []\n            callback(b''.join(pending))"),
    M('host-str-first', F, "        self._addr = _create_ip_address(str(host), port)", "        host = str(host)\n        self._addr = _create_ip_address(host, port)"),
    M('greeting-literal', F, "struct.pack('BBB', 5, 1, 0)", "b'\\x05\\x01\\x00'"),
    M('gt-order', F, "                '!BBBBB{}sH'.format(len(host)),\n                5,                   # version\n                0xF0,", "                '>BBBBB{}sH'.format(len(host)),\n                5,                   # version\n                0xF0,"),
]
