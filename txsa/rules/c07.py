"""C07 - live state lists exactly Tor's circuits and streams, attachments consistent."""
import ast

from .common import *  # noqa

GONE = ('CLOSED', 'FAILED', 'DETACHED')
MUT_LIST = ('append', 'remove', 'insert', 'extend', 'pop', 'clear', 'sort', 'reverse')
TARGET_STATES = ('NEW', 'NEWRESOLVE', 'SUCCEEDED')


def TS(run):
    return run.idx.cls('TorState', 'torstate')


def TU(run, name):
    u = run.idx.find_method(TS(run), name)
    if u is None:
        raise AnchorVanished('TorState.' + name)
    return u


def stream_cls(run):
    return run.idx.cls('Stream', 'stream')


def circuit_cls(run):
    return run.idx.cls('Circuit', 'circuit')


def top_of(u):
    while u.parent is not None:
        u = u.parent
    return u


def r07_6(run):
    """the initial view is the snapshot: the bootstrap fetches circuit-status and stream-status and feeds each to its loader
    (which passes every line through the same update functions events use), the routers being loaded first; then it subscribes"""
    bs = TU(run, '_bootstrap')
    g = cfg_of(bs)
    for key, loader, upd in (('circuit-status', '_circuit_status', '_circuit_update'), ('stream-status', '_stream_status', '_stream_update')):
        fetch = [n for n in g.real_nodes() if n.kind == 'stmt' and isinstance(n.ast, ast.Assign) and any(
            isinstance(a, ast.Call) and callee_attr(a) in ('get_info_raw', 'get_info') and a.args and const(a.args[0]) == key for a in node_asts(n))]
        run.ob('R07.6', bs, bs.node, 'the bootstrap fetches %s' % key, len(fetch) == 1, slot='fetch:%s' % key, message='%d fetches of %s' % (len(fetch), key))
        for fn in fetch:
            var = assigned_targets(fn.ast)[0]
            load = g.nodes_where(lambda n: any(is_call_to(a, 'self.' + loader) and a.args and dotted(a.args[0]) == var for a in node_asts(n)))
            esc = g.escapes(fn, lambda n: n in load, exits=g.normal_exits())
            run.ob('R07.6', bs, fn.ast, 'the %s snapshot is loaded into the live state' % key, bool(load) and not esc, slot='load:%s' % key,
                   message='_bootstrap fetches %s but does not pass it to %s on every path: objects that existed before the connection are never listed' % (key, loader))
        lu = TU(run, loader)
        calls = [c for c in calls_in(lu) if dotted(c.func) == 'self.' + upd]
        run.ob('R07.6', lu, lu.node, '%s passes the snapshot lines through %s' % (loader, upd), bool(calls), slot='loader:%s' % loader, message='%s no longer calls %s' % (loader, upd))
    ev = g.nodes_where(lambda n: any(is_call_to(a, 'self._add_events') for a in node_asts(n)))
    run.ob('R07.6', bs, bs.node, 'the bootstrap subscribes to the events', bool(ev), slot='subscribe', message='_bootstrap no longer calls _add_events')
    # a snapshot entry is a whole event line with KEY=value words in it (BUILD_FLAGS=, PURPOSE=, old-style $fp=nick hops): the loaders,
    # and the helpers they share, take the "<key>=" prefix off without splitting the entry at every "="
    cut = ('_circuit_update', '_stream_update')
    for u in reach_units(run.idx, [TU(run, '_circuit_status'), TU(run, '_stream_status')], cut=cut):
        if u.name in cut:
            continue
        for c in calls_in(u):
            if callee_attr(c) in ('split', 'rsplit') and c.args and const(c.args[0]) == '=' and len(c.args) == 1 and not c.keywords:
                run.ob('R07.6', u, c, 'a snapshot entry is not cut at its own "=" signs', False, slot='snapshot-split@%s' % u.short,
                       message='%s splits the snapshot text on every "=": a single-entry answer ("circuit-status=5 BUILT ... BUILD_FLAGS=...") loses everything after the '
                               'entry\'s first KEY=value word (purpose, flags, and with $fp=nick hops the path)' % u.short)
    run.ob('R07.6', bs, bs.node, 'snapshot loaders examined for "=" splits', True)


def r07_5(run):
    """closed/failed circuits are gone: in circuit_closed / circuit_failed the removal lies after code that
    extracts the reason; every helper of the package called before the removal must be total (the
    event dispatcher logs and swallows an exception, and the circuit would stay listed for ever)."""
    ts = TS(run)
    k = 0
    for name in ('circuit_closed', 'circuit_failed'):
        u = run.idx.find_method(ts, name)
        if u is None:
            raise AnchorVanished('TorState.' + name)
        g = cfg_of(u)
        dn = g.nodes_where(lambda n: any(is_call_to(a, 'self.circuit_destroy') or isinstance(a, ast.Delete) for a in node_asts(n)))
        run.ob('R07.5', u, u.node, '%s removes the circuit' % name, bool(dn), slot='removes:%s' % name, message='%s no longer reaches circuit_destroy' % name)
        for a, what in partial_sites(u):
            run.ob('R07.5', u, a, 'no partial operation before the removal', False, slot='partial@%s' % name, message='%s: %s; the circuit then stays listed' % (name, what))
        for tgt, node, kind in resolve_refs(run.idx, u):
            if kind != 'call' or tgt.owner_cls is not None:
                continue
            k += 1
            ps = partial_sites(tgt)
            run.ob('R07.5', tgt, ps[0][0] if ps else tgt.node, 'helper %s called before the removal is total' % tgt.short, not ps, slot='partial@%s' % tgt.short,
                   message='%s (called by %s before the circuit is removed): %s; the dispatcher swallows the exception and the circuit stays listed'
                   % (tgt.short, name, ps[0][1] if ps else ''))
    run.floor('R07.5', 'package helpers called before the removal', k, 2)


def event_reaches_update(run, rid):
    """every CIRC line reaches its Circuit's update(); a stream created for a line is updated from it"""
    su = TU(run, '_stream_update')
    g = cfg_of(su)
    mk = g.nodes_where(lambda n: n.kind == 'stmt' and isinstance(n.ast, ast.Assign) and isinstance(n.ast.value, ast.Call)
                       and dotted(n.ast.value.func) == 'self.stream_factory')
    # every event line reaches the object's update()
    cu = TU(run, '_circuit_update')
    g = cfg_of(cu)
    un = g.nodes_where(lambda n: any(is_method_call(a, 'update') for a in node_asts(n)))
    r = g.reachable([g.entry], avoid=lambda n: n in un)
    run.ob(rid, cu, cu.node, 'every CIRC line updates its circuit', bool(un) and not any(e in r for e in g.normal_exits()), slot='update:circuit',
           message='_circuit_update can return without calling update()')
    g = cfg_of(su)
    un = g.nodes_where(lambda n: any(is_method_call(a, 'update') for a in node_asts(n)))
    # every STREAM line reaches its stream's update(), the one exception being the "no streams" marker of the snapshot
    marker = set((t.id, 'T' if isinstance(t.ast.ops[0], ast.Eq) else 'F') for t in g.live if t.kind == 'test' and isinstance(t.ast, ast.Compare) and len(t.ast.ops) == 1
                 and isinstance(t.ast.ops[0], (ast.Eq, ast.NotEq)) and const(t.ast.comparators[0]) == 'stream-status=')
    r_ = g.reachable([g.entry], avoid=lambda n: n in un, skip_edges=marker, follow_exc=False)
    run.ob(rid, su, su.node, 'every STREAM line updates its stream', bool(un) and not any(e in r_ for e in g.normal_exits()), slot='update:stream-always',
           message='_stream_update can return without calling update() for a real event line (e.g. a CLOSED for an id it decided to ignore): '
                   'a stream that re-uses that id stays listed after Tor closed it')
    for m in mk:
        esc = g.escapes(m, lambda n: n in un, exits=g.normal_exits())
        run.ob(rid, su, su.node, 'a newly created stream is updated from the event', not esc, slot='update:stream', message='_stream_update creates a stream without update()')


def r07_1(run):
    ts = TS(run)
    allowed = {
        'circuits': dict(store=('circuit_new', 'circuit_launched'), delete=('circuit_destroy',), rebind=('__init__',)),
        'streams': dict(store=('_stream_update',), delete=('stream_closed', 'stream_failed'), rebind=('__init__',)),
    }
    counts = {'circuits': [0, 0], 'streams': [0, 0]}
    for u in class_units(run.idx, ts):
        top = top_of(u)
        for n in walk_unit(u):
            for field in ('circuits', 'streams'):
                ft = 'self.' + field
                if isinstance(n, ast.Assign):
                    for t in n.targets:
                        if isinstance(t, ast.Subscript) and dotted(t.value) == ft:
                            counts[field][0] += 1
                            run.ob('R07.1', u, n, '%s entries stored only in %s' % (field, '/'.join(allowed[field]['store'])),
                                   top.name in allowed[field]['store'], slot='store:%s@%s' % (field, u.short), message='%s[...] stored in %s' % (ft, u.short))
                        if dotted(t) == ft:
                            run.ob('R07.1', u, n, '%s rebound only in __init__' % field, top.name in allowed[field]['rebind'],
                                   slot='rebind:%s@%s' % (field, u.short), message='%s rebound in %s' % (ft, u.short))
                elif isinstance(n, ast.Delete):
                    for t in n.targets:
                        if isinstance(t, ast.Subscript) and dotted(t.value) == ft:
                            counts[field][1] += 1
                            run.ob('R07.1', u, n, '%s entries deleted only in %s' % (field, '/'.join(allowed[field]['delete'])),
                                   top.name in allowed[field]['delete'], slot='del:%s@%s' % (field, u.short), message='del %s[...] in %s' % (ft, u.short))
                elif isinstance(n, ast.Call) and (dotted(n.func) or '').startswith(ft + '.') and callee_attr(n) in (
                        'pop', 'clear', 'update', 'setdefault', 'popitem'):
                    run.ob('R07.1', u, n, 'no other mutation of %s' % field, False, slot='%s:%s@%s' % (callee_attr(n), field, u.short),
                           message='%s mutated with %s in %s' % (ft, callee_attr(n), u.short))
    run.floor('R07.1', 'circuits store/delete sites', counts['circuits'][0] + counts['circuits'][1], 3)
    run.floor('R07.1', 'streams store/delete sites', counts['streams'][0] + counts['streams'][1], 3)
    # keys agree: stored under <obj>.id / deleted under <obj>.id where obj is the listener argument
    for name in ('circuit_new', 'circuit_launched', 'circuit_destroy', 'stream_closed', 'stream_failed'):
        u = TU(run, name)
        p = u.params[1]
        field = 'self.circuits' if name.startswith('circuit') else 'self.streams'
        hits = []
        for n in walk_unit(u):
            if isinstance(n, ast.Subscript) and dotted(n.value) == field:
                hits.append(n)
        ok = bool(hits) and all(dotted(h.slice) == p + '.id' for h in hits)
        run.ob('R07.1', u, u.node, '%s keys the index by %s.id' % (name, p), ok, slot='key:%s' % name, message='%s indexes %s by %s' % (name, field, [src(h.slice) for h in hits]))
        if name in ('circuit_new', 'circuit_launched'):
            st = [n for n in walk_unit(u) if isinstance(n, ast.Assign) and isinstance(n.targets[0], ast.Subscript) and dotted(n.targets[0].value) == field]
            run.ob('R07.1', u, u.node, '%s stores the circuit itself' % name, bool(st) and all(dotted(s.value) == p for s in st), slot='value:%s' % name,
                   message='%s stores %s' % (name, [src(s.value) for s in st]))
        # the removal/insert happens on every normal path
        g = cfg_of(u)
        hn = g.nodes_where(lambda n: any(isinstance(a, ast.Subscript) and dotted(a.value) == field and
                                         isinstance(a.ctx, (ast.Store, ast.Del)) for a in node_asts(n)))
        r = g.reachable([g.entry], avoid=lambda n: n in hn)
        run.ob('R07.1', u, u.node, '%s updates the index on every path' % name, not any(e in r for e in g.normal_exits()), slot='always:%s' % name,
               message='%s can return without updating %s' % (name, field))
    for name in ('circuit_closed', 'circuit_failed'):
        u = TU(run, name)
        g = cfg_of(u)
        dn = g.nodes_where(lambda n: any(is_call_to(a, 'self.circuit_destroy') for a in node_asts(n)))
        r = g.reachable([g.entry], avoid=lambda n: n in dn)
        ok = bool(dn) and not any(e in r for e in g.normal_exits())
        run.ob('R07.1', u, u.node, '%s removes the circuit (circuit_destroy on every path)' % name, ok, slot='destroy:%s' % name,
               message='%s can return without circuit_destroy: a closed circuit stays listed' % name)
        for c in calls_in(u, 'self.circuit_destroy'):
            run.ob('R07.1', u, c, 'the circuit destroyed is the one reported', c.args and dotted(c.args[0]) == u.params[1], slot='destroy-arg:%s' % name,
                   message='%s destroys %s' % (name, src(c.args[0]) if c.args else ''))
    # TorState listens to everything it creates
    mc = TU(run, '_maybe_create_circuit')
    g = cfg_of(mc)
    ls = g.nodes_where(lambda n: any(is_method_call(a, 'listen') and a.args and dotted(a.args[0]) == 'self' for a in node_asts(n)))
    mk = g.nodes_where(lambda n: n.kind == 'stmt' and isinstance(n.ast, ast.Assign) and isinstance(n.ast.value, ast.Call)
                       and dotted(n.ast.value.func) == 'self.circuit_factory')
    ok = bool(mk) and all(not g.escapes(m, lambda n: n in ls, exits=g.normal_exits()) for m in mk)
    run.ob('R07.1', mc, mc.node, 'TorState listens to every circuit it creates', ok, slot='self-listen:circuit',
           message='_maybe_create_circuit creates a circuit without c.listen(self): its CLOSED/FAILED never removes it')
    su = TU(run, '_stream_update')
    g = cfg_of(su)
    ls = g.nodes_where(lambda n: any(is_method_call(a, 'listen') and a.args and dotted(a.args[0]) == 'self' for a in node_asts(n)))
    mk = g.nodes_where(lambda n: n.kind == 'stmt' and isinstance(n.ast, ast.Assign) and isinstance(n.ast.value, ast.Call)
                       and dotted(n.ast.value.func) == 'self.stream_factory')
    ok = bool(mk) and all(not g.escapes(m, lambda n: n in ls, exits=g.normal_exits()) for m in mk)
    run.ob('R07.1', su, su.node, 'TorState listens to every stream it creates', ok, slot='self-listen:stream',
           message='_stream_update creates a stream without stream.listen(self)')
    event_reaches_update(run, 'R07.1')
    for c in [c for c in calls_in(su) if callee_attr(c) == 'update']:
        r_ = receiver(c)
        ok = isinstance(r_, ast.Subscript) and dotted(r_.value) == 'self.streams' or dotted(r_) == 'stream'
        run.ob('R07.1', su, c, 'the stream updated is the one indexed by the event id', ok, slot='update-recv:stream', message='update() called on %s' % src(r_))


# ----------------------------------------------------------------- R07.2/3
def attach_effect(a):
    if isinstance(a, ast.Call):
        d = dotted(a.func) or ''
        if d == 'self.circuit.streams.remove':
            return 'remove'
        if d == 'self.circuit.streams.append':
            return 'append'
    if isinstance(a, ast.Assign):
        v = assign_to(a, 'self.circuit')
        if v is not None:
            return 'set_none' if is_none(v) else 'set_some'
    return None


def replay(trail, init):
    """abstract (C, L) after the effects on the trail; errors recorded."""
    C, L = init
    errors = []
    for n, lab in trail:
        if n.kind not in ('stmt',):
            continue
        if lab == 'exc':
            # the raising statement did not complete: calls inside may have run, the store did not
            for a in node_asts(n):
                e = attach_effect(a)
                if e in ('remove', 'append'):
                    pass
            continue
        for a in node_asts(n):
            e = attach_effect(a)
            if e == 'remove':
                if C != 'Some':
                    errors.append(('remove-on-none', n))
                elif L != 'listed':
                    errors.append(('remove-unlisted', n))
                L = 'unlisted'
            elif e == 'append':
                if C != 'Some':
                    errors.append(('append-on-none', n))
                elif L == 'listed':
                    errors.append(('double-append', n))
                L = 'listed'
            elif e == 'set_none':
                if L == 'listed':
                    errors.append(('orphaned', n))
                C = 'None'
            elif e == 'set_some':
                if L == 'listed':
                    errors.append(('switched-while-listed', n))
                C = 'Some'
                L = 'unlisted'
    return C, L, errors


def r07_2(run):
    sc = stream_cls(run)
    up = run.idx.find_method(sc, 'update')
    if up is None:
        raise AnchorVanished('Stream.update')

    def may_raise(node):
        for a in walk_local(node, descend_root=False) if not isinstance(node, FUNC_TYPES) else []:
            if isinstance(a, ast.Call) and callee_attr(a) == 'find_circuit':
                return ('KeyError',)
        return None
    g = cfg_of(up, may_raise=may_raise)
    states = set()
    for n in walk_unit(up):
        if isinstance(n, ast.Compare) and dotted(n.left) == 'self.state':
            for c in n.comparators:
                v = const(c)
                if isinstance(v, str):
                    states.add(v)
                elif isinstance(v, list):
                    states.update(x for x in v if isinstance(x, str))
    run.floor('R07.2', 'stream states compared in Stream.update', len(states), 8)
    cidv = names_defined_by(up, lambda v: isinstance(v, ast.Call) and dotted(v.func) == 'int' and v.args and isinstance(v.args[0], ast.Subscript) and const(v.args[0].slice) == 2)
    run.floor('R07.2', 'locals holding the reported circuit id', len(cidv), 1)
    npaths = 0
    reported = set()
    for S in sorted(states) + ['<OTHER>']:
        for init in (('None', 'unlisted'), ('Some', 'listed')):
            def hook(node, val, trail, S=S, init=init):
                C, L, _ = replay(trail, init)
                a = node.ast
                r = eval_small(a, {'self.state': S, 'self.id': 1})
                if r is not UNKNOWN and mentions(a, 'self.state'):
                    return bool(r)
                if dotted(a) == 'self.circuit':
                    return C == 'Some'
                if isinstance(a, ast.Compare) and dotted(a.left) == 'self.circuit' and len(a.ops) == 1 and is_none(a.comparators[0]):
                    return (C == 'None') if isinstance(a.ops[0], ast.Is) else (C == 'Some')
                if isinstance(a, ast.Compare) and dotted(a.left) == 'self' and dotted(a.comparators[0]) == 'self.circuit.streams':
                    if C == 'None':
                        return None
                    return (L == 'listed') if isinstance(a.ops[0], ast.In) else (L != 'listed')
                if isinstance(a, ast.Compare) and dotted(a.left) == 'self.id':
                    return False if isinstance(a.ops[0], (ast.Is, ast.NotEq)) else None
                return None
            paths = g.paths(eval_hook=hook, loop_bound=1, pure_calls=('self._notify', 'self._create_flags', 'self.maybe_call_closing_deferred'))
            run.paths_enumerated += len(paths)
            for p in paths:
                npaths += 1
                C, L, errs = replay(p.steps, init)
                tag = 'state=%s from=%s/%s' % (S, init[0], init[1])
                last = [n for n, _ in p.steps if n.kind == 'stmt'][-1].ast if any(n.kind == 'stmt' for n, _ in p.steps) else up.node
                for kind, n in errs:
                    key = (kind, n.id)
                    if key in reported:
                        continue
                    reported.add(key)
                    run.ob('R07.2', up, n.ast, 'attachment bookkeeping step is legal in the abstract state', False, slot='%s:%s' % (kind, src(n.ast)[:40]),
                           message='Stream.update: %s at "%s" (%s)' % (kind, src(n.ast)[:60], tag), path=p.describe(10))
                inv = (C == 'None' and L == 'unlisted') or (C == 'Some' and L == 'listed')
                if not errs:
                    run.ob('R07.2', up, last, 'attachment invariant (circuit is None <=> not listed under any circuit) preserved [%s exit]' % p.exit, inv,
                           slot='inv:%s:%s' % (S if S in GONE else 'live', p.exit),
                           message='Stream.update leaves circuit=%s but stream %s in the circuit\'s list (%s)' % (C, L, tag), path=p.describe(10))
                if S not in GONE and S != '<OTHER>' and p.exit != 'raise' and not errs:
                    took = [(n, lab) for n, lab in p.steps if n.kind == 'test' and isinstance(n.ast, ast.Compare) and dotted(n.ast.left) in cidv
                            and const(n.ast.comparators[0]) == 0 and len(n.ast.ops) == 1 and isinstance(n.ast.ops[0], (ast.Eq, ast.NotEq))]
                    if not took:
                        run.ob('R07.2', up, last, 'a %s event\'s circuit id is applied to the attachment' % S, False, slot='attachment-follows:%s' % S,
                               message='Stream.update[%s] never looks at the circuit id Tor reported: the stream is not (re)attached / detached as reported (%s)' % (S, tag),
                               path=p.describe(10))
                    else:
                        n0, lab0 = took[0]
                        zero = (lab0 == 'T') == isinstance(n0.ast.ops[0], ast.Eq)
                        okf = (C == 'None' and L == 'unlisted') if zero else (C == 'Some' and L == 'listed')
                        run.ob('R07.2', up, last, 'after a %s event the stream is attached exactly as reported (circuit id %s)' % (S, '0' if zero else 'non-zero'), okf,
                               slot='attachment-follows:%s:%s' % (S, 'zero' if zero else 'nonzero'),
                               message='Stream.update[%s] with circuit id %s ends with circuit=%s / %s (%s)' % (S, '0' if zero else '!= 0', C, L, tag), path=p.describe(10))
                if S in GONE and p.exit != 'raise' and not errs:
                    run.ob('R07.3', up, last, 'after %s the stream is under no circuit' % S, C == 'None' and L == 'unlisted', slot='gone:%s' % S,
                           message='after %s the stream still has circuit=%s / %s (%s)' % (S, C, L, tag), path=p.describe(10))
    run.count('R07.2 paths x states x initial abstract states', npaths)
    # who may write the attachment
    circ = circuit_cls(run)
    k = 0
    for u in run.idx.all_units():
        inside = u.owner_cls is sc and top_of(u).name in ('__init__', 'update')
        for n in walk_unit(u):
            if isinstance(n, ast.Call):
                d = dotted(n.func) or ''
                parts = d.split('.')
                if len(parts) >= 3 and parts[-2] == 'streams' and parts[-1] in ('append', 'remove', 'insert', 'extend', 'pop', 'clear') \
                        and parts[-3] in ('circuit', 'circ', 'c', '_circuit'):
                    k += 1
                    run.ob('R07.2', u, n, "a circuit's stream list is edited only by Stream.update", inside, slot='streams-edit@%s' % u.short,
                           message='%s edits a circuit\'s stream list: %s' % (u.short, src(n)[:60]))
            elif isinstance(n, ast.Assign):
                for t in n.targets:
                    if isinstance(t, ast.Attribute) and t.attr == 'circuit' and (dotted(t.value) or '') in ('self', 'stream', 's') \
                            and (u.owner_cls is sc or dotted(t.value) != 'self'):
                        k += 1
                        run.ob('R07.2', u, n, "a stream's circuit is assigned only by Stream.__init__/update", inside, slot='circuit-assign@%s' % u.short,
                               message='%s assigns a stream\'s circuit' % u.short)
    # nobody else touches a circuit's stream list, by any spelling
    for u in run.idx.all_units():
        inside = u.owner_cls is sc and top_of(u).name in ('__init__', 'update')
        for n in walk_unit(u):
            if isinstance(n, ast.Call):
                d = dotted(n.func) or ''
                parts = d.split('.')
                if len(parts) >= 3 and parts[-2] == 'streams' and parts[-1] in MUT_LIST and parts[:-2] != ['self']:
                    ok = inside and parts[:-2] == ['self', 'circuit']
                    if not ok and not (parts[-3] in ('circuit', 'circ', 'c', '_circuit')):
                        k += 1
                        run.ob('R07.2', u, n, "a circuit's stream list is edited only through Stream.update", False, slot='streams-edit2@%s' % u.short,
                               message='%s edits %s' % (u.short, d))
            elif isinstance(n, (ast.Assign, ast.AugAssign, ast.Delete)):
                tg = n.targets if isinstance(n, (ast.Assign, ast.Delete)) else [n.target]
                for t in tg:
                    base = t.value if isinstance(t, ast.Subscript) else t
                    if isinstance(base, ast.Attribute) and base.attr == 'streams' and dotted(base.value) != 'self':
                        k += 1
                        run.ob('R07.2', u, n, "a circuit's stream list is never replaced or cut from outside", False, slot='streams-rebind@%s' % u.short,
                               message='%s overwrites %s: streams still attached lose their back-reference entry and their later '
                                       'CLOSED/FAILED/DETACHED raises in Stream.update (stream never removed)' % (u.short, src(base)))
    run.floor('R07.2', 'attachment write sites', k, 8)
    # Circuit.streams rebound only in Circuit.__init__
    for u in class_units(run.idx, circ):
        for st, v in writes_of(u, 'self.streams'):
            run.ob('R07.2', u, st, 'Circuit.streams rebound only in __init__', top_of(u).name == '__init__', slot='streams-rebind@%s' % u.short,
                   message='%s rebinds Circuit.streams' % u.short)


def target_learning(run, rid, states=TARGET_STATES):
    # a REMAP always carries the stream's new target address: it is taken over on every path of that leg (latest wins)
    su0 = run.idx.find_method(stream_cls(run), 'update')
    gs0 = cfg_of(su0)
    rt = [t for t in gs0.live if t.kind == 'test' and isinstance(t.ast, ast.Compare) and dotted(t.ast.left) == 'self.state' and const(t.ast.comparators[0]) == 'REMAP'
          and isinstance(t.ast.ops[0], ast.Eq)]
    run.floor('R07.4', 'REMAP tests in Stream.update', len(rt), 1)
    for t in rt:
        ws = [n for n in gs0.real_nodes() if n.kind == 'stmt' and assign_to(n.ast, 'self.target_addr') is not None and gs0.edge_dominates(t, 'T', n)]
        leg_end = [n for n in gs0.real_nodes() if not gs0.edge_dominates(t, 'T', n)]
        r_ = gs0.reachable([s_ for lab, s_ in t.succ if lab == 'T'], avoid=lambda n: n in ws, follow_exc=False)
        escaped = [n for n in r_ if n in leg_end or n in gs0.normal_exits()]
        run.ob('R07.4', su0, t.ast, 'a REMAP event always replaces target_addr', bool(ws) and not escaped, slot='remap-target',
               message='Stream.update[REMAP] can leave target_addr as it was (assignment missing or conditional): after a remap to a name / IPv6 literal the stream '
                       'still shows its previous address')
    # what is known about a stream's target comes from Tor's events only: outside __init__ nothing resets a target field to a
    # constant (a DETACHED stream keeps the address of its last REMAP until Tor reports another one)
    for n in walk_unit(su0):
        if isinstance(n, ast.Assign):
            for t in n.targets:
                d = dotted(t) or ''
                if d in ('self.target_addr', 'self.target_host', 'self.target_port') and const(n.value) is not NOCONST:
                    run.ob('R07.4', su0, n, 'a target field is only ever set from event data', False, slot='target-forgotten:%s' % d,
                           message='Stream.update sets %s = %s: the target Tor last reported is forgotten although no event said so' % (d, src(n.value)))
    run.ob('R07.4', su0, su0.node, 'target assignments examined', True)
    # a stream learns its target from the first event that can carry it (instances confirmed on
    # today's tree: NEW, NEWRESOLVE, SUCCEEDED - the latter for streams first seen in a snapshot)
    su = run.idx.find_method(stream_cls(run), 'update')
    gsu = cfg_of(su)
    for S in states:
        def hook(node, val, trail, S=S):
            a = node.ast
            r = eval_small(a, {'self.state': S, 'self.target_host': None, 'self._addrmap': None})
            if r is not UNKNOWN and (mentions(a, 'self.state') or mentions(a, 'self.target_host') or mentions(a, 'self._addrmap')):
                # target_host is assigned on the way: only decide before that
                if mentions(a, 'self.target_host') and any(n.kind == 'stmt' and assign_to(n.ast, 'self.target_host') is not None for n, _ in trail):
                    return None
                return bool(r)
            return None
        for p_ in gsu.paths(eval_hook=hook, loop_bound=1, follow_exc=False, pure_calls=('self._notify', 'self._create_flags', 'self.maybe_call_closing_deferred')):
            run.paths_enumerated += 1
            if p_.exit == 'raise':
                continue
            th = any(n.kind == 'stmt' and assign_to(n.ast, 'self.target_host') is not None for n, _ in p_.steps)
            tp = any(n.kind == 'stmt' and assign_to(n.ast, 'self.target_port') is not None for n, _ in p_.steps)
            run.ob(rid, su, su.node, 'a stream whose target is unknown learns host and port from a %s event' % S, th and tp, slot='target:%s' % S,
                   message='Stream.update[%s] with target_host None leaves the target unset (streams first seen in this state keep target (None, 0))' % S)


def r07_7(run):
    """each stream with its latest source address: whenever the event carries SOURCE_ADDR, both parts are recorded - for every
    form of the value ("(Tor_internal):0" included), so on every path from the "SOURCE_ADDR in kw" test to the end of update()"""
    up = run.idx.find_method(stream_cls(run), 'update')
    g = cfg_of(up)
    tests = [t for t in g.live if t.kind == 'test' and isinstance(t.ast, ast.Compare) and len(t.ast.ops) == 1 and isinstance(t.ast.ops[0], (ast.In, ast.NotIn))
             and const(t.ast.left) == 'SOURCE_ADDR']
    # the same test spelled  src = kw.get('SOURCE_ADDR'); if src is not None:
    got = set(names_defined_by(up, lambda v: isinstance(v, ast.Call) and callee_attr(v) == 'get' and v.args and const(v.args[0]) == 'SOURCE_ADDR'))
    tests2 = [t for t in g.live if t.kind == 'test' and isinstance(t.ast, ast.Compare) and len(t.ast.ops) == 1 and isinstance(t.ast.ops[0], (ast.Is, ast.IsNot))
              and dotted(t.ast.left) in got and is_none(t.ast.comparators[0])]
    run.floor('R07.7', 'tests for a SOURCE_ADDR keyword in Stream.update', len(tests) + len(tests2), 1)
    for t in tests + tests2:
        lab = 'T' if isinstance(t.ast.ops[0], (ast.In, ast.IsNot)) else 'F'
        start = [s_ for l_, s_ in t.succ if l_ == lab]
        for field in ('self.source_addr', 'self.source_port'):
            ws = [n for n in g.real_nodes() if n.kind == 'stmt' and assign_to(n.ast, field) is not None]
            r = g.reachable(start, avoid=lambda n: n in ws, follow_exc=False)
            esc = [e for e in g.normal_exits() if e in r]
            run.ob('R07.7', up, t.ast, 'an event with SOURCE_ADDR always records %s' % field, bool(ws) and not esc, slot='source:%s' % field,
                   message='Stream.update can finish an event that carries SOURCE_ADDR without assigning %s (some form of the value - e.g. "(Tor_internal):0" - '
                           'keeps the old / initial value)' % field)


def r07_4(run):
    for ci, name in ((circuit_cls(run), 'Circuit'), (stream_cls(run), 'Stream')):
        up = run.idx.find_method(ci, 'update')
        g = cfg_of(up)
        p = up.params[1]
        for field, want in (('self.state', '%s[1]' % p), ('self.flags', None)):
            ws = [n for n in g.real_nodes() if n.kind == 'stmt' and assign_to(n.ast, field) is not None]
            r = g.reachable([g.entry], avoid=lambda n: n in ws, follow_exc=False)
            ok = bool(ws) and not any(e in r for e in g.normal_exits())
            run.ob('R07.4', up, up.node, '%s.update always records %s from the event' % (name, field), ok, slot='%s:%s' % (name, field),
                   message='%s.update can return without assigning %s (stale status kept)' % (name, field))
            for n in ws:
                v = assign_to(n.ast, field)
                if want:
                    run.ob('R07.4', up, n.ast, '%s := %s' % (field, want), src(v) == want, slot='%s:%s:value' % (name, field), message='%s assigned %s' % (field, src(v)))
                else:
                    defs = local_defs(up)
                    vv = v
                    if isinstance(v, ast.Name):
                        d = single_def(defs, v.id)
                        vv = d[1] if d and d[0] == 'expr' else v
                    ok2 = isinstance(vv, ast.Call) and (dotted(vv.func) or '').endswith('find_keywords') and vv.args and dotted(vv.args[0]) == p
                    run.ob('R07.4', up, n.ast, '%s := find_keywords(event)' % field, ok2, slot='%s:%s:value' % (name, field), message='%s assigned %s' % (field, src(vv)))
    # latest wins: a field copied from an event keyword is not conditioned on the field's own current value
    # (instances on today's tree: Circuit.purpose, Circuit.build_flags)
    cu0 = run.idx.find_method(circuit_cls(run), 'update')
    g0 = cfg_of(cu0)
    kws = names_defined_by(cu0, lambda v: isinstance(v, ast.Call) and (dotted(v.func) or '').endswith('find_keywords'))
    klw = 0
    for n in g0.real_nodes():
        if n.kind != 'stmt' or not isinstance(n.ast, ast.Assign):
            continue
        for t in n.ast.targets:
            d = dotted(t)
            if not d or not d.startswith('self.') or d in ('self.flags', 'self.state'):
                continue
            if not any(isinstance(x, ast.Subscript) and dotted(x.value) in kws and isinstance(const(x.slice), str) for x in ast.walk(n.ast.value)):
                continue
            if d == 'self.time_created':
                continue    # creation time is fixed by definition
            klw += 1
            bad = [tt for tt, lab in g0.guarded_by(n, lambda t_: mentions(t_, d))]
            run.ob('R07.4', cu0, n.ast, '%s follows the latest event that carries it' % d, not bad, slot='latest-wins:%s' % d,
                   message='Circuit.update assigns %s only under %s: the first value sticks and later events (e.g. a purpose change) are ignored'
                   % (d, src(bad[0].ast) if bad else ''))
    run.floor('R07.4', 'Circuit fields copied from event keywords', klw, 2)
    target_learning(run, 'R07.4')
    # Circuit path handling
    cu = run.idx.find_method(circuit_cls(run), 'update')
    g = cfg_of(cu)
    for S, want_clear, want_update in (('LAUNCHED', True, False), ('EXTENDED', False, True), ('BUILT', False, True), ('CLOSED', False, False), ('FAILED', False, False)):
        for p_ in g.paths(eval_hook=hook_for_env({'self.state': S}, frozen_after_write=False), loop_bound=1):
            run.paths_enumerated += 1
            if p_.exit == 'raise':
                continue
            clear = any(n.kind == 'stmt' and isinstance(n.ast, ast.Assign) and assign_to(n.ast, 'self.path') is not None for n, _ in p_.steps)
            upd = [n for n, _ in p_.steps if any(is_call_to(a, 'self.update_path') for a in node_asts(n))]
            has_path_arg = any(b for _, b in p_.took(lambda t: isinstance(t, ast.Compare) and 'len(%s)' % cu.params[1] in src(t)))
            if want_clear:
                run.ob('R07.4', cu, cu.node, 'LAUNCHED clears the path', clear and not upd, slot='path:LAUNCHED', message='LAUNCHED does not reset the path')
            elif want_update:
                if has_path_arg:
                    run.ob('R07.4', cu, cu.node, '%s with a path recomputes it' % S, len(upd) == 1, slot='path:%s' % S, message='%s: update_path called %d times' % (S, len(upd)))
            else:
                run.ob('R07.4', cu, cu.node, '%s keeps the last path' % S, not upd and not clear, slot='path:%s' % S, message='%s rewrites the path' % S)
    upp = run.idx.find_method(circuit_cls(run), 'update_path')
    ok = any(isinstance(n, ast.Call) and dotted(n.func) == 'self.router_container.router_from_id' for n in walk_unit(upp)) and \
        any(isinstance(n, ast.Call) and dotted(n.func) == 'self.path.append' for n in walk_unit(upp)) and \
        any(isinstance(n, ast.Assign) and assign_to(n, 'self.path') is not None and isinstance(n.value, ast.List) and not n.value.elts for n in walk_unit(upp))
    run.ob('R07.4', upp, upp.node, 'update_path rebuilds the path from router_from_id of each hop', ok, slot='update_path', message='update_path no longer rebuilds self.path from the hops')
    rf = TU(run, 'router_from_id')
    h = [n for n in walk_unit(rf) if isinstance(n, ast.ExceptHandler)]
    # (the miss is noticed by `except KeyError` or by a membership test on the relay table)
    miss = bool(h) or any(isinstance(n, ast.Compare) and len(n.ops) == 1 and isinstance(n.ops[0], (ast.In, ast.NotIn)) and dotted(n.comparators[0]) == 'self.routers' for n in walk_unit(rf))
    ok = miss and any(isinstance(n, ast.Call) and dotted(n.func) == 'Router' for n in walk_unit(rf))
    run.ob('R07.4', rf, rf.node, 'relays missing from the consensus get a placeholder router', ok, slot='unknown-relay', message='router_from_id no longer creates a placeholder for unknown relays')
    # a hop is identified by its fingerprint: every lookup in the relay table made by router_from_id is keyed by the leading
    # "$<40 hex>" of the hop text (a slice of the argument that starts at its beginning), never by the nickname after "~" / "="
    arg = rf.params[1]
    defs = local_defs(rf)
    k = 0
    for n in walk_unit(rf):
        key = None
        if isinstance(n, ast.Subscript) and dotted(n.value) == 'self.routers' and isinstance(n.ctx, ast.Load):
            key = n.slice
        elif isinstance(n, ast.Call) and dotted(n.func) in ('self.routers.get', 'self.routers.__getitem__', 'self.routers.pop') and n.args:
            key = n.args[0]
        elif isinstance(n, ast.Compare) and len(n.ops) == 1 and isinstance(n.ops[0], (ast.In, ast.NotIn)) and dotted(n.comparators[0]) == 'self.routers':
            key = n.left
        if key is None:
            continue
        k += 1
        kv = key
        if isinstance(kv, ast.Name) and single_def(defs, kv.id) and single_def(defs, kv.id)[0] == 'expr':
            kv = single_def(defs, kv.id)[1]
        ok = dotted(kv) == arg or (isinstance(kv, ast.Subscript) and dotted(kv.value) == arg and isinstance(kv.slice, ast.Slice) and
                                   (kv.slice.lower is None or const(kv.slice.lower) == 0) and const(kv.slice.upper) == 41)
        run.ob('R07.4', rf, n, 'a hop is looked up by its fingerprint only', ok, slot='hop-by-fingerprint',
               message='router_from_id looks a hop up with %s: a relay that is not in the consensus but carries the nickname of one that is gets listed as that relay '
                       '(wrong fingerprint in Circuit.path)' % src(key)[:40])
    run.floor('R07.4', 'relay-table lookups in router_from_id', k, 1)


RULES = [
    ('R07.1', 'index maintenance: circuits/streams written only by the listener callbacks keyed by .id; closed/failed reach circuit_destroy; TorState listens to and updates everything it creates', r07_1),
    ('R07.6', 'bootstrap: circuit-status and stream-status snapshots fetched, loaded through the event update functions, events subscribed', r07_6),
    ('R07.5', 'totality: helpers called by circuit_closed/circuit_failed before the removal cannot raise (KeyError behind handler or membership test, str-method arity)', r07_5),
    ('R07.2', 'abstract interpretation of Stream.update over (circuit None/Some, listed/unlisted) x every stream state x both invariant states, normal and exceptional exits; who-writes', r07_2),
    ('R07.7', 'must-assign: an event with SOURCE_ADDR records source address and port on every path', r07_7),
    ('R07.4', 'status/flags assigned unconditionally from the event; circuit path cleared/recomputed/kept per state', r07_4),
]

RULES.insert(2, ('R07.3', 'after CLOSED/FAILED/DETACHED the stream is under no circuit (decided inside the R07.2 interpretation)', lambda run: None))

from ..selftest import M  # noqa: E402
FS, FT, FC = 'txtorcon/stream.py', 'txtorcon/torstate.py', 'txtorcon/circuit.py'
MUTANTS = [
    M('snapshot-entry-split-at-every-equals', 'txtorcon/torstate.py', "        data = data[len('circuit-status='):].split('\\n')", "        data = data.split('=')[1].split('\\n')", ['R07.6']),
    M('hop-by-nickname', 'txtorcon/torstate.py', "                is_named = routerid[41] == '='\n", "                is_named = routerid[41] == '='\n                known = self.routers.get(nick, None)\n                if known is not None:\n                    return known\n", ['R07.4']),
    M('detach-forgets-address', 'txtorcon/stream.py', "                self.circuit.streams.remove(self)\n                self.circuit = None\n\n            # FIXME does this count as closed?", "                self.circuit.streams.remove(self)\n                self.circuit = None\n            self.target_addr = None\n\n            # FIXME does this count as closed?", ['R07.4']),
    M('remap-only-ips', 'txtorcon/stream.py', "            self.target_addr = maybe_ip_addr(args[3][:args[3].rfind(':')])", "            addr_ = maybe_ip_addr(args[3][:args[3].rfind(':')])\n            if not isinstance(addr_, str):\n                self.target_addr = addr_", ['R07.4']),
    M('closed-after-failed-swallowed', 'txtorcon/torstate.py', "        stream_id = int(args[0])\n        wasnew = False\n        if stream_id not in self.streams:", "        stream_id = int(args[0])\n        if args[1] == 'CLOSED' and stream_id in getattr(self, '_failed', ()):\n            return\n        wasnew = False\n        if stream_id not in self.streams:", ['R07.1']),
    M('stream-snapshot-not-loaded', 'txtorcon/torstate.py', "        ss = yield self.protocol.get_info_raw('stream-status')\n        self._stream_status(ss)\n", "        ss = yield self.protocol.get_info_raw('stream-status')\n", ['R07.6']),
    M('attach-only-for-listed-states', 'txtorcon/stream.py', "        if self.state not in ['CLOSED', 'FAILED', 'DETACHED']:\n            cid = int(args[2])", "        if self.state in ['SENTCONNECT', 'REMAP', 'SUCCEEDED']:\n            cid = int(args[2])", ['R07.2']),
    M('purpose-first-wins', 'txtorcon/circuit.py', "        if 'PURPOSE' in kw:", "        if self.purpose is None and 'PURPOSE' in kw:", ['R07.4']),
    M('reason-join-arity', 'txtorcon/circuit.py', "reason = '{}, {}'.format(reason, kw['REMOTE_REASON'])", "reason = ', '.join(reason, kw['REMOTE_REASON'])", ['R07.5']),
    M('stream_failed-keeps', FT, "        txtorlog.msg(\"stream_failed\", stream.id)\n        del self.streams[stream.id]\n", "        txtorlog.msg(\"stream_failed\", stream.id)\n", ['R07.1']),
    M('no-self-listen', FT, "            self.streams[stream_id] = stream\n            stream.listen(self)\n", "            self.streams[stream_id] = stream\n", ['R07.1']),
    M('circuit_failed-no-destroy', FT, "                CircuitBuildFailedError(_extract_reason(kw))\n            )\n        )\n        self.circuit_destroy(circuit)\n", "                CircuitBuildFailedError(_extract_reason(kw))\n            )\n        )\n", ['R07.1']),
    M('failed-leg-no-remove', FS, "        elif self.state == 'FAILED':\n            if self.circuit:\n                self.circuit.streams.remove(self)\n            self.circuit = None", "        elif self.state == 'FAILED':\n            self.circuit = None", ['R07.2']),
    M('append-without-test', FS, "                    if self not in self.circuit.streams:\n                        self.circuit.streams.append(self)\n                        self._notify('stream_attach', self, self.circuit)", "                    self.circuit.streams.append(self)\n                    self.circuit.streams.append(self)\n                    self._notify('stream_attach', self, self.circuit)", ['R07.2']),
    M('none-before-remove', FS, "        elif self.state == 'CLOSED':\n            if self.circuit:\n                self.circuit.streams.remove(self)\n            self.circuit = None", "        elif self.state == 'CLOSED':\n            c = self.circuit\n            self.circuit = None\n            if self.circuit:\n                c.streams.remove(self)", ['R07.2']),
    M('detached-keeps-circuit', FS, "            if self.circuit:\n                self.circuit.streams.remove(self)\n                self.circuit = None\n\n            # FIXME", "            if self.circuit:\n                self.circuit.streams.remove(self)\n\n            # FIXME", ['R07.2', 'R07.3']),
    M('cid0-no-remove', FS, "                if self.circuit and self in self.circuit.streams:\n                    self.circuit.streams.remove(self)\n                self.circuit = None", "                self.circuit = None", ['R07.2']),
    M('state-conditional', FC, "        self.state = args[1]\n\n        kw = find_keywords(args)", "        if args[1] != 'EXTENDED':\n            self.state = args[1]\n\n        kw = find_keywords(args)", ['R07.4']),
    M('launched-keeps-path', FC, "        if self.state == 'LAUNCHED':\n            self.path = []\n", "        if self.state == 'LAUNCHED':\n", ['R07.4']),
]
TWINS = [
    M('closed-failed-merged', FS, "        elif self.state == 'CLOSED':\n            if self.circuit:\n                self.circuit.streams.remove(self)\n            self.circuit = None\n            self.maybe_call_closing_deferred()\n            flags = self._create_flags(kw)\n            self._notify('stream_closed', self, **flags)\n\n        elif self.state == 'FAILED':\n            if self.circuit:\n                self.circuit.streams.remove(self)\n            self.circuit = None\n            self.maybe_call_closing_deferred()\n            # build lower-case version of all flags\n            flags = self._create_flags(kw)\n            self._notify('stream_failed', self, **flags)", "        elif self.state in ('CLOSED', 'FAILED'):\n            if self.circuit:\n                self.circuit.streams.remove(self)\n            self.circuit = None\n            self.maybe_call_closing_deferred()\n            flags = self._create_flags(kw)\n            if self.state == 'CLOSED':\n                self._notify('stream_closed', self, **flags)\n            else:\n                self._notify('stream_failed', self, **flags)"),
    M('is-not-none', FS, "        elif self.state == 'CLOSED':\n            if self.circuit:\n                self.circuit.streams.remove(self)", "        elif self.state == 'CLOSED':\n            if self.circuit is not None:\n                self.circuit.streams.remove(self)"),
    M('detached-unconditional-none', FS, "            if self.circuit:\n                self.circuit.streams.remove(self)\n                self.circuit = None\n\n            # FIXME", "            if self.circuit:\n                self.circuit.streams.remove(self)\n            self.circuit = None\n\n            # FIXME"),
]
