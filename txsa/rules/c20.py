"""C20 - address map holds a name exactly until its latest mapping expires."""
import ast

from .common import *  # noqa

MOD = 'addrmap'


def AD(run):
    return run.idx.cls('Addr', MOD)


def AM(run):
    return run.idx.cls('AddrMap', MOD)


def M_(run, ci, name):
    u = run.idx.find_method(ci, name)
    if u is None:
        raise AnchorVanished('%s.%s' % (ci.name, name))
    return u


# --- tiny local type inference: which local names / expressions are timedeltas?
def timedelta_names(u):
    names = set()
    dt_locals = set(names_defined_by(u, lambda v: (dotted(v) or '').split('.')[-1] in ('expires', 'created')))
    changed = True

    def is_td(e):
        if isinstance(e, ast.Call) and (dotted(e.func) or '').split('.')[-1] == 'timedelta':
            return True
        if isinstance(e, ast.BinOp) and isinstance(e.op, ast.Sub):
            return is_dt(e.left) and is_dt(e.right)
        if isinstance(e, ast.Name):
            return e.id in names
        if isinstance(e, ast.IfExp):
            return is_td(e.body) or is_td(e.orelse)
        return False

    def is_dt(e):
        d = dotted(e) or ''
        if d.split('.')[-1] in ('expires', 'created', 'now') or d in dt_locals:
            return True
        if isinstance(e, ast.Call) and (dotted(e.func) or '').split('.')[-1] in ('utcnow', 'now', 'strptime', 'fromtimestamp'):
            return True
        return False
    while changed:
        changed = False
        for n in walk_unit(u):
            if isinstance(n, ast.Assign) and len(n.targets) == 1 and isinstance(n.targets[0], ast.Name) and is_td(n.value):
                if n.targets[0].id not in names:
                    names.add(n.targets[0].id)
                    changed = True
    return names, is_td


def r20_1(run):
    k = 0
    for ci in (AD(run), AM(run)):
        for u in class_units(run.idx, ci):
            names, is_td = timedelta_names(u)
            for n in walk_unit(u):
                if isinstance(n, ast.Attribute) and n.attr in ('seconds', 'microseconds', 'days') and is_td(n.value):
                    k += 1
                    # accepted: days and seconds used together in one expression
                    ok = False
                    if n.attr in ('seconds', 'days'):
                        for p in walk_unit(u):
                            if isinstance(p, ast.BinOp) and any(x is n for x in ast.walk(p)):
                                attrs = set(x.attr for x in ast.walk(p) if isinstance(x, ast.Attribute) and is_td(x.value))
                                if {'days', 'seconds'} <= attrs:
                                    ok = True
                    run.ob('R20.1', u, n, 'a duration is read through total_seconds() (or days and seconds together)', ok, slot='td-attr@%s:%s' % (u.short, src(n)),
                           message='%s uses %s as the length of a duration: .seconds is only the seconds within the last day, so a '
                                   'mapping expiring in 2 days + 10 s is scheduled 10 s ahead (and an earlier expiry becomes ~1 day later)' % (u.short, src(n)))
            # delays handed to the scheduler derive from total_seconds()
            for c in calls_in(u):
                if callee_attr(c) in ('callLater', 'delay', 'reset') and c.args:
                    a = c.args[0]
                    uses_td = any(isinstance(x, ast.Name) and x.id in names for x in ast.walk(a)) or is_td(a)
                    if uses_td:
                        k += 1
                        ok = any(isinstance(x, ast.Call) and callee_attr(x) == 'total_seconds' for x in ast.walk(a)) or \
                            {'days', 'seconds'} <= set(x.attr for x in ast.walk(a) if isinstance(x, ast.Attribute))
                        run.ob('R20.1', u, c, 'the delay given to %s is the whole duration' % callee_attr(c), ok, slot='delay@%s:%s' % (u.short, callee_attr(c)),
                               message='%s(%s) is not the total length of the duration' % (callee_attr(c), src(a)))
    run.floor('R20.1', 'duration reads / scheduler delays in addrmap.py', k, 2)


def r20_2(run):
    am = AM(run)
    up = M_(run, am, 'update')
    ex = M_(run, AD(run), '_expire')
    g = cfg_of(up)
    # keys stored on the new-name leg
    stores = [n for n in g.real_nodes() if n.kind == 'stmt' and isinstance(n.ast, ast.Assign) and isinstance(n.ast.targets[0], ast.Subscript)
              and dotted(n.ast.targets[0].value) == 'self.addr']
    keys = [src(n.ast.targets[0].slice) for n in stores]
    run.floor('R20.2', 'stores into AddrMap.addr', len(stores), 2)
    PARAMS = (names_defined_by(up, lambda v: isinstance(v, ast.Call) and (dotted(v.func) or '').endswith('split')) or ['params'])[0]
    name_key, addr_key = PARAMS + '[0]', PARAMS + '[1]'
    run.ob('R20.2', up, up.node, 'a mapping is stored under its name and under its address', name_key in keys and addr_key in keys, slot='store-both', message='stored under %s' % keys)
    # _expire removes every key the mapping is stored under
    dels = [n for n in walk_unit(ex) if isinstance(n, ast.Delete)]
    pops = [c for c in calls_in(ex) if callee_attr(c) == 'pop' and (dotted(c.func) or '').endswith('addr.pop')]
    removes_all = False
    for n in walk_unit(ex):
        if isinstance(n, ast.For) and any(isinstance(x, ast.Delete) for x in ast.walk(n)):
            it = n.iter
            if 'is self' in src(it) and '.items()' in src(it):
                removes_all = True
    by_name = any('self.name' in src(d) for d in dels) or any('self.name' in src(p) for p in pops)
    by_addr = any(x in src(d) for d in dels for x in ('self.ip', 'self._ip_key', 'self.addr_key')) or any(x in src(p) for p in pops for x in ('self.ip', 'self._ip_key'))
    ok = removes_all or (by_name and by_addr)
    run.ob('R20.2', ex, ex.node, 'expiry removes the mapping under the name and under the address', ok, slot='expire-both',
           message='_expire removes only %s: after expiry find(<address>) still returns the mapping' % ('the name key' if by_name else 'nothing recognisable'))
    # existing-name leg keeps the address key in step with a changed address
    tests = [t for t in g.live if t.kind == 'test' and isinstance(t.ast, ast.Compare) and isinstance(t.ast.ops[0], (ast.In, ast.NotIn)) and dotted(t.ast.comparators[0]) == 'self.addr'
             and src(t.ast.left) == name_key]
    run.floor('R20.2', 'known-name tests in AddrMap.update', len(tests), 1)
    for t in tests:
        lab = 'T' if isinstance(t.ast.ops[0], ast.In) else 'F'
        leg = g.reachable([s for l, s in t.succ if l == lab], avoid=lambda n: False)
        other = g.reachable([s for l, s in t.succ if l != lab and l != 'exc'])
        leg_only = [n for n in leg if n not in other]
        st = [n for n in leg_only if n in stores and src(n.ast.targets[0].slice) == addr_key]
        dl = [n for n in leg_only if n.kind == 'stmt' and any(isinstance(a, ast.Delete) for a in node_asts(n))]
        run.ob('R20.2', up, t.ast, 'an update for a known name stores the (possibly new) address key', bool(st), slot='update-stores-address',
               message='on the existing-name leg the new address is never stored: after "name A" then "name B", find(B) fails')
        run.ob('R20.2', up, t.ast, 'an update for a known name drops the old address key', bool(dl), slot='update-drops-old-address',
               message='on the existing-name leg the old address key is kept: find(A) still answers after the mapping moved to B')
        # the mapping updated on this leg is the one stored under the *name* just tested (not the one under the address)
        looks = [n for n in leg_only if n.kind == 'stmt' and isinstance(n.ast, ast.Assign) and isinstance(n.ast.value, ast.Subscript) and dotted(n.ast.value.value) == 'self.addr']
        for n in looks:
            run.ob('R20.2', up, n.ast, 'the known mapping is looked up under the name', src(n.ast.value.slice) == name_key, slot='lookup-by-name',
                   message='on the existing-name leg the mapping is fetched with self.addr[%s]: for a name that moved to a new address this is a KeyError / another name\'s mapping'
                           % src(n.ast.value.slice))
        run.ob('R20.2', up, t.ast, 'the known mapping is fetched from the map', bool(looks), slot='lookup-present', message='no self.addr[...] lookup on the existing-name leg')
        # only this mapping's other keys are dropped: the filter keeps (value is the mapping) and (key is not the name)
        for n in dl:
            for lp_ in [x for x in walk_unit(up) if isinstance(x, ast.For) and any(y is a for a in node_asts(n) for y in ast.walk(x))]:
                comps = [c for c in ast.walk(lp_.iter) if isinstance(c, ast.comprehension)]
                conds = [i_ for c in comps for i_ in c.ifs]
                # (part of the filter may be a test around the delete inside the loop body: for k in keys: if k != name: del ...)
                conds += [t_.ast for t_, lab_ in g.guarded_by(n, lambda x: isinstance(x, ast.Compare)) if lab_ == 'T' and any(y is t_.ast for y in ast.walk(lp_))]
                txt = ' '.join(src(i_) for i_ in conds)
                mapvar = assigned_targets(looks[0].ast)[0] if looks else None
                same = any(isinstance(x, ast.Compare) and isinstance(x.ops[0], ast.Is) and mapvar in (dotted(x.left), dotted(x.comparators[0])) for i_ in conds for x in ast.walk(i_))
                notname = any(isinstance(x, ast.Compare) and isinstance(x.ops[0], ast.NotEq) and name_key in (src(x.left), src(x.comparators[0])) for i_ in conds for x in ast.walk(i_))
                run.ob('R20.2', up, lp_, 'only this mapping\'s stale keys are dropped', (same and notname) if conds else None, slot='stale-key-filter',
                       message='the stale-key removal filters on "%s": keys of other names\' mappings are deleted (or this mapping\'s name key is)' % txt[:80])
    # find() looks keys up as stored
    fd = M_(run, am, 'find')
    rets = [r for r in walk_unit(fd) if isinstance(r, ast.Return)]
    ok = len(rets) == 1 and src(rets[0].value) == 'self.addr[%s]' % fd.params[1]
    run.ob('R20.2', fd, fd.node, 'lookups use the key as given (name or address)', ok, slot='find', message='find returns %s' % [src(r.value) for r in rets])


def r20_3(run):
    ad = AD(run)
    up = M_(run, ad, 'update')
    OLDN = names_defined_by(up, lambda v: dotted(v) == 'self.expires')
    # ... or only whether there was one: had = self.expires is not None / no_deadline = self.expires is None
    HADN = names_defined_by(up, lambda v: isinstance(v, ast.Compare) and len(v.ops) == 1 and dotted(v.left) == 'self.expires' and is_none(v.comparators[0]) and isinstance(v.ops[0], ast.IsNot))
    HADNOTN = names_defined_by(up, lambda v: isinstance(v, ast.Compare) and len(v.ops) == 1 and dotted(v.left) == 'self.expires' and is_none(v.comparators[0]) and isinstance(v.ops[0], ast.Is))
    ex = M_(run, ad, '_expire')
    g = cfg_of(up)

    def classify(a):
        if isinstance(a, ast.Call):
            d = dotted(a.func) or ''
            if callee_attr(a) == 'callLater':
                return 'schedule'
            if d in ('self.expiry.delay', 'self.expiry.reset'):
                return 'reschedule'
            if d == 'self.expiry.cancel' or d == 'self._cancel_expiry':
                return 'cancel'
            if d == 'self._expire':
                return 'expire'
        return None
    # does _expire itself cancel a pending timer?
    helper_cancels = {}
    for m in ad.methods.values():
        helper_cancels[m.name] = any(is_call_to(c, 'self.expiry.cancel') for c in calls_in(m))
    expire_cancels = any(is_call_to(c, 'self.expiry.cancel') for c in calls_in(ex)) or \
        any((dotted(c.func) or '').startswith('self.') and helper_cancels.get(callee_attr(c)) for c in calls_in(ex))
    for old_timed in (False, True):
        for new in ('time', 'never', 'error'):
            def hook(node, val, trail, old_timed=old_timed, new=new):
                a = node.ast
                # self.ip == '<error>'
                if isinstance(a, ast.Compare) and dotted(a.left) == 'self.ip' and const(a.comparators[0]) == '<error>':
                    return (new == 'error') == isinstance(a.ops[0], ast.Eq)
                if isinstance(a, ast.Compare) and 'NEVER' in src(a) and 'upper()' in src(a):
                    return (new == 'never') == isinstance(a.ops[0], ast.Eq)
                if isinstance(a, ast.Compare) and dotted(a.left) == 'self.expires' and is_none(a.comparators[0]):
                    isnone = (new == 'never')
                    return isnone if isinstance(a.ops[0], ast.Is) else (not isnone)
                if isinstance(a, ast.Compare) and dotted(a.left) in OLDN and is_none(a.comparators[0]):
                    isnone = not old_timed
                    return isnone if isinstance(a.ops[0], ast.Is) else (not isnone)
                if isinstance(a, ast.Compare) and dotted(a.left) == 'self.expiry' and is_none(a.comparators[0]):
                    isnone = not old_timed
                    return isnone if isinstance(a.ops[0], ast.Is) else (not isnone)
                if dotted(a) in HADN:
                    return old_timed
                if dotted(a) in HADNOTN:
                    return not old_timed
                if isinstance(a, ast.Call) and dotted(a.func) == 'self.expiry.active':
                    return old_timed
                if dotted(a) == 'self.expiry':
                    return old_timed
                return None
            seen = set()
            for p in g.paths(eval_hook=hook, loop_bound=1, follow_exc=False):
                run.paths_enumerated += 1
                if p.exit == 'raise':
                    continue
                tags = [t for t, _, _ in path_effects(p, classify)]
                if tuple(tags) in seen:
                    continue
                seen.add(tuple(tags))
                tag = 'pending timer=%s, new mapping=%s' % (old_timed, new)
                if new == 'error':
                    ok = 'expire' in tags and (not old_timed or expire_cancels or 'cancel' in tags)
                    run.ob('R20.3', up, up.node, 'an error mapping drops the entry and leaves no timer armed [%s]' % tag, ok, slot='error:%s' % old_timed,
                           message='<error> mapping with %s: effects %s%s' % (tag, tags, '' if expire_cancels else ' (and _expire does not cancel the pending timer: it fires later on a removed entry)'))
                elif new == 'never':
                    exp_none = any(n.kind == 'stmt' and assign_to(n.ast, 'self.expires') is not None and is_none(assign_to(n.ast, 'self.expires')) for n, _ in p.steps)
                    run.ob('R20.3', up, up.node, 'a NEVER mapping is recorded as having no expiry time [%s]' % tag, exp_none, slot='never-recorded:%s' % old_timed,
                           message='on a NEVER mapping self.expires keeps the old time: the next timed mapping is handled as a re-timing of a timer that no longer exists')
                    ok = ('cancel' in tags) if old_timed else ('schedule' not in tags)
                    run.ob('R20.3', up, up.node, 'a NEVER mapping has no timer armed afterwards [%s]' % tag, ok, slot='never:%s' % old_timed,
                           message='NEVER mapping with %s: effects %s - the old timer still removes the now permanent mapping' % (tag, tags))
                else:
                    if old_timed:
                        ok = tags.count('reschedule') == 1 and 'schedule' not in tags or (tags.count('cancel') >= 1 and tags.count('schedule') == 1)
                        run.ob('R20.3', up, up.node, 'a new expiry moves the pending timer (exactly one timer) [%s]' % tag, ok, slot='time:moved',
                               message='timed mapping over a pending timer: effects %s' % tags)
                    else:
                        ok = tags.count('schedule') == 1 and 'reschedule' not in tags
                        run.ob('R20.3', up, up.node, 'a first timed mapping arms exactly one timer [%s]' % tag, ok, slot='time:first', message='first timed mapping: effects %s' % tags)
    # the scheduled callback is _expire
    for c in calls_in(up):
        if callee_attr(c) == 'callLater':
            run.ob('R20.3', up, c, 'the timer calls _expire', len(c.args) >= 2 and dotted(c.args[1]) == 'self._expire', slot='timer-callback', message='callLater(..., %s)' % (src(c.args[1]) if len(c.args) > 1 else ''))
            okr = any(isinstance(n, ast.Assign) and assign_to(n, 'self.expiry') is not None and any(x is c for x in ast.walk(n.value)) for n in walk_unit(up))
            run.ob('R20.3', up, c, 'the pending timer is remembered (self.expiry)', okr, slot='timer-kept', message='callLater result not stored in self.expiry')
    # re-timing: the pending timer is re-armed for (new expiry - now), not shifted by (new - old expiry) - the pending timer
    # need not stand at the old expiry (a mapping that arrived already expired was armed for "now")
    for c in calls_in(up):
        if dotted(c.func) == 'self.expiry.delay':
            run.ob('R20.3', up, c, 'a re-timed mapping expires at its new expiry time', False, slot='retime-relative-to-old',
                   message='Addr.update shifts the pending timer by %s: if that timer was not standing at the old expiry (the first mapping had already expired and '
                           'was armed for "now") the mapping outlives its new expiry by the difference' % src(c.args[0] if c.args else c)[:40])
        if dotted(c.func) == 'self.expiry.reset':
            a = c.args[0] if c.args else None
            roots = [a] if a is not None else []
            for x in (ast.walk(a) if a is not None else []):
                if isinstance(x, ast.Name):
                    for cn in g.nodes_containing(c):
                        roots += [def_value(r, x.id) for r in reaching_defs(g, cn, x.id) if def_value(r, x.id) is not None]
            txt = ' '.join(src(r_).replace(' ', '') for r_ in roots)
            okr = 'self.expires-self.created' in txt
            run.ob('R20.3', up, c, 'a re-timed mapping is re-armed for (new expiry - now)', okr, slot='retime-amount', message='expiry.reset(%s)' % (src(a) if a is not None else ''))
            if isinstance(a, ast.Call) and dotted(a.func) in ('max', 'min'):
                cs = [const(x) for x in a.args if const(x) is not NOCONST]
                okm = dotted(a.func) == 'max' and all(isinstance(v, (int, float)) and v == 0 for v in cs)
                run.ob('R20.3', up, c, 'the re-arm delay is clamped at zero only (an expiry in the past fires now, every other delay is kept)', okm, slot='retime-clamp',
                       message='Addr.update re-arms with %s: a mapping whose new expiry is nearer than the clamp outlives it' % src(a)[:50])
    # "now" (self.created) is taken afresh in every call before it is used to compute a delay
    cr = [n for n in g.real_nodes() if n.kind == 'stmt' and assign_to(n.ast, 'self.created') is not None]
    okc = bool(cr) and all('utcnow()' in src(assign_to(n.ast, 'self.created')) or 'now(' in src(assign_to(n.ast, 'self.created')) for n in cr)
    # ... in UTC, like the EXPIRES time it is subtracted from (Tor reports GMT): utcnow(), or now(<utc tzinfo>) - never the naive local now()
    for n in cr:
        v = assign_to(n.ast, 'self.created')
        calls = [c for c in ast.walk(v) if isinstance(c, ast.Call) and callee_attr(c) in ('now', 'utcnow', 'today')]
        # ... and as read: the delay is (expiry - now) to the microsecond; a rounded "now" (replace(microsecond=0), a truncation to
        # seconds) arms every timer late by the fraction cut off, so the name outlives its expiry
        if calls:
            exact = any(v is c for c in calls) or (isinstance(v, ast.Call) and callee_attr(v) in ('replace', 'astimezone') and receiver(v) in calls and
                                                    all(k_.arg == 'tzinfo' for k_ in v.keywords) and (callee_attr(v) == 'astimezone' or not v.args))
            run.ob('R20.3', up, v, 'the current time is used as read (not rounded)', exact, slot='now-exact',
                   message='Addr.update takes "now" as %s: timers are armed for (expiry - rounded now), i.e. up to a second late' % src(v)[:60])
        for c in calls:
            utc = bool(callee_attr(c) == 'utcnow' or (callee_attr(c) == 'now' and (c.args or c.keywords) and 'utc' in src(c).lower()))
            run.ob('R20.3', up, c, 'the current time is taken in UTC', utc, slot='now-in-utc',
                   message='Addr.update reads the clock with %s (local time) and subtracts it from Tor\'s GMT expiry: on a host that is not on UTC every new timer is off by '
                           'the zone offset' % src(c))
    sched = g.nodes_where(lambda n: any(isinstance(a, ast.Call) and callee_attr(a) == 'callLater' for a in node_asts(n)))
    okc = okc and all(any(g.dominates(c_, s_) for c_ in cr) for s_ in sched)
    run.ob('R20.3', up, up.node, 'the current time used for a new timer is read in this very update', okc, slot='fresh-now',
           message='self.created is not (re)assigned from the clock on every path before callLater: a timer armed on an older '
                   'entry is too long by the age of the entry')
    oe = [n for n in walk_unit(up) if isinstance(n, ast.Assign) and isinstance(n.targets[0], ast.Name) and (dotted(n.value) == 'self.expires' or n.targets[0].id in HADN or n.targets[0].id in HADNOTN)]
    ok = len(oe) == 1
    g2 = cfg_of(up)
    if ok:
        on = g2.nodes_containing(oe[0])
        wr = [n for n in g2.real_nodes() if n.kind == 'stmt' and assign_to(n.ast, 'self.expires') is not None]
        ok = all(any(g2.dominates(o, w) for o in on) for w in wr)
    run.ob('R20.3', up, up.node, 'the old expiry is read before it is overwritten', ok, slot='oldexpires', message='oldexpires not taken from self.expires before the update')


def _announces(a, what):
    """a call that announces `what` to the listeners: <map>.notify('<what>', ...) or <listener>.<what>(...) (the direct form)"""
    if not isinstance(a, ast.Call):
        return False
    if callee_attr(a) == 'notify' and a.args and const(a.args[0]) == what:
        return True
    return callee_attr(a) == what and isinstance(a.func, ast.Attribute) and isinstance(a.func.value, ast.Name)


def _known_test(g, up, t):
    """(matches, label on which the name is NEW) for a test atom of AddrMap.update: `name in/not in self.addr`, or a flag that was
    computed as such a comparison before anything is stored into self.addr"""
    a = t.ast if hasattr(t, 'ast') else t
    if isinstance(a, ast.Compare) and len(a.ops) == 1 and isinstance(a.ops[0], (ast.In, ast.NotIn)) and dotted(a.comparators[0]) == 'self.addr':
        return True, ('F' if isinstance(a.ops[0], ast.In) else 'T')
    if isinstance(a, ast.Name):
        d = single_def(local_defs(up), a.id)
        if d and d[0] == 'expr' and isinstance(d[1], ast.Compare) and len(d[1].ops) == 1 and isinstance(d[1].ops[0], (ast.In, ast.NotIn)) and dotted(d[1].comparators[0]) == 'self.addr':
            dn = [n for n in g.real_nodes() if n.kind == 'stmt' and isinstance(n.ast, ast.Assign) and a.id in assigned_targets(n.ast)]
            ins = [n for n in g.real_nodes() if n.kind == 'stmt' and isinstance(n.ast, (ast.Assign, ast.Delete)) and
                   any(isinstance(x, ast.Subscript) and dotted(x.value) == 'self.addr' and isinstance(x.ctx, (ast.Store, ast.Del)) for x in ast.walk(n.ast))]
            if dn and not any(dn[0] in g.reachable([s_ for _, s_ in i_.succ], follow_exc=False) for i_ in ins):
                return True, ('F' if isinstance(d[1].ops[0], ast.In) else 'T')
    return False, None


def r20_4(run):
    am = AM(run)
    up = M_(run, am, 'update')
    g = cfg_of(up)
    ad = [n for n in g.real_nodes() if any(_announces(a, 'addrmap_added') and (callee_attr(a) != 'notify' or is_call_to(a, 'self.notify')) for a in node_asts(n))]
    run.floor('R20.4', 'addrmap_added notifications', len(ad), 1)
    for n in ad:
        gd = g.guarded_by(n, lambda t: _known_test(g, up, t)[0])
        ok = any(lab == _known_test(g, up, t)[1] for t, lab in gd)
        run.ob('R20.4', up, n.ast, '"added" is announced only for a new name', ok, slot='added-new-only', message='addrmap_added reachable for a name that is already mapped')
    for p in g.paths(loop_bound=1):
        run.paths_enumerated += 1
        k = sum(1 for n, _ in p.steps if n in ad)
        run.ob('R20.4', up, up.node, 'at most one "added" per event', k <= 1, slot='added-once', message='%d addrmap_added on one path' % k)
        # exactly one for a new name, whatever kind of mapping it is (timed, NEVER, failed): the new-name leg always announces
        newleg = [b for n, b in p.took(lambda t: isinstance(t, ast.Compare) and isinstance(t.ops[0], (ast.In, ast.NotIn)) and dotted(t.comparators[0]) == 'self.addr')
                  if True]
        tests_ = [(n, lab) for n, lab in p.steps if n.kind == 'test' and _known_test(g, up, n)[0]]
        is_new = any(lab == _known_test(g, up, n)[1] for n, lab in tests_)
        # (a notification written as a loop over the listeners counts once however many listeners there are)
        k = min(k, 1) if any(n in ad and any(isinstance(a, ast.Call) and callee_attr(a) == 'addrmap_added' for a in node_asts(n)) for n, _ in p.steps) else k
        # ... and zero times when nobody listens: passing the head of the announcing loop is the announcement
        if k == 0 and any(n.kind == 'iter' and any(x in ad for x in g.real_nodes() if any(y is x.ast for y in ast.walk(n.ast))) for n, _ in p.steps):
            k = 1
        if is_new and p.exit != 'raise':
            run.ob('R20.4', up, up.node, 'a new name is always announced with "added"', k == 1, slot='added-always-for-new',
                   message='AddrMap.update can finish the new-name leg without addrmap_added (%s): e.g. a name whose first mapping never expires is stored but never announced' % p.describe(6))
    for u in run.idx.all_units():
        for c in calls_in(u):
            if callee_attr(c) == 'notify' and c.args and const(c.args[0]) == 'addrmap_expired':
                ok = u.owner_cls is AD(run) and u.name == '_expire'
                run.ob('R20.4', u, c, '"expired" is announced only by _expire', ok, slot='expired@%s' % u.short, message='%s announces addrmap_expired' % u.short)
            if callee_attr(c) == 'notify' and c.args and const(c.args[0]) == 'addrmap_added' and u is not up:
                run.ob('R20.4', u, c, '"added" is announced only by AddrMap.update', False, slot='added@%s' % u.short, message='%s announces addrmap_added' % u.short)
    ex = M_(run, AD(run), '_expire')
    ge = cfg_of(ex)
    for p in ge.paths(loop_bound=2):
        if p.exit == 'raise':
            continue
        k = sum(1 for n, _ in p.steps for a in node_asts(n) if isinstance(a, ast.Call) and callee_attr(a) == 'notify')
        direct = [n for n, _ in p.steps if any(_announces(a, 'addrmap_expired') and callee_attr(a) != 'notify' for a in node_asts(n))]
        if not k and direct:
            k = 1       # announced by a loop over the listeners (passed at least once on this path)
        elif not k and any(_announces(a, 'addrmap_expired') and callee_attr(a) != 'notify' for a in walk_unit(ex)):
            continue    # the zero-listener iteration of that loop
        run.ob('R20.4', ex, ex.node, 'one "expired" per expiry', k == 1, slot='expired-once', message='%d notifications in _expire' % k)
    dels = ge.nodes_where(lambda n: any(isinstance(a, ast.Delete) or (isinstance(a, ast.Call) and callee_attr(a) == 'pop') for a in node_asts(n)))
    nots = ge.nodes_where(lambda n: any(_announces(a, 'addrmap_expired') for a in node_asts(n)))
    iters = [n for n in ge.live if n.kind == 'iter']
    ok = bool(nots) and all(any(ge.dominates(x, n) for x in (dels + iters)) and not any(d in ge.reachable([s_ for _, s_ in n.succ]) for d in dels) for n in nots)
    run.ob('R20.4', ex, ex.node, 'the mapping is removed before listeners hear "expired"', ok, slot='remove-before-notify',
           message='_expire notifies listeners before deleting the keys: a listener that looks the name up still gets the expired mapping, and one that raises leaves it in the map for good')
    nt = M_(run, am, 'notify')
    loops = [n for n in walk_unit(nt) if isinstance(n, ast.For) and dotted(n.iter) in ('self.listeners',) or
             (isinstance(n, ast.For) and isinstance(n.iter, ast.Call) and n.iter.args and dotted(n.iter.args[0]) == 'self.listeners')]
    run.ob('R20.4', nt, nt.node, 'notify calls every listener once', len(loops) == 1, slot='notify-loop', message='%d listener loops' % len(loops))
    # fed from ADDRMAP events
    ts = run.idx.find_method(run.idx.cls('TorState', 'torstate'), '_addr_map')
    ok = any(is_call_to(c, 'self.addrmap.update') and dotted(c.args[0]) == ts.params[1] for c in calls_in(ts))
    run.ob('R20.4', ts, ts.node, 'ADDRMAP events are fed to the map unchanged', ok, slot='fed', message='_addr_map does not pass the event to addrmap.update')


def r20_5(run):
    """Addr.update() may drop the mapping on the spot (an <error> or already expired mapping calls _expire, which removes its
    keys).  A store into the map that runs *after* it files the dropped mapping again: on every path of AddrMap.update all
    stores of the mapping precede the call of its update()."""
    am = run.idx.cls('AddrMap', 'addrmap')
    up = run.idx.find_method(am, 'update')
    if up is None:
        raise AnchorVanished('AddrMap.update')
    g = cfg_of(up)
    upd = g.nodes_where(lambda n: any(isinstance(a, ast.Call) and callee_attr(a) == 'update' and isinstance(receiver(a), ast.Name) for a in node_asts(n)))
    stores = g.nodes_where(lambda n: n.kind == 'stmt' and isinstance(n.ast, ast.Assign) and any(isinstance(t, ast.Subscript) and dotted(t.value) == 'self.addr' for t in n.ast.targets))
    run.floor('R20.5', 'calls of Addr.update in AddrMap.update', len(upd), 1)
    run.floor('R20.5', 'stores into the map', len(stores), 3)
    # every ADDRMAP line reaches its mapping's update(): nothing (a CACHED flag, the kind of the current mapping ...) lets
    # AddrMap.update return before, because the property makes the *latest* event decide address and expiry
    skip = g.reachable([g.entry], avoid=lambda n: n in upd, follow_exc=False)
    run.ob('R20.5', up, up.node, 'every address-map event is applied to its mapping', bool(upd) and not any(e in skip for e in g.normal_exits()), slot='event-always-applied',
           message='AddrMap.update can return without calling the mapping\'s update(): some later events are ignored, so the mapping keeps an address / expiry '
                   'that is no longer Tor\'s')
    for un in upd:
        after = g.reachable([s_ for lab, s_ in un.succ if lab != 'exc'], follow_exc=False)
        late = [s_ for s_ in stores if s_ in after]
        run.ob('R20.5', up, un.ast, 'nothing is stored in the map after the mapping has been updated (it may have been dropped)', not late, slot='store-after-update',
               message='AddrMap.update stores %s after calling the mapping\'s update(): an <error> / expired mapping that update() has just removed is filed again and '
                       'is returned by find() for good' % (src(late[0].ast)[:40] if late else ''))


def r20_6(run):
    """which field of the ADDRMAP line is the expiry.  control-spec: `ADDRMAP name addr "local-time"|NEVER [error=..] [EXPIRES="utc"]`;
    txtorcon's parser hands over the space-separated fields, and the caller compares with utcnow(), so the UTC time is the one to
    use: the EXPIRES= keyword's value when present, else a bare fourth field (old Tors: local then UTC), else the third field.
    Path enumeration of Addr.update per line form, tests decided on the form; the last definition of the value that reaches the
    time parser is resolved to a field index"""
    u = M_(run, AD(run), 'update')
    g = cfg_of(u)
    sp = [c for c in calls_in(u) if callee_attr(c) == 'strptime' and c.args and isinstance(c.args[0], ast.Name)]
    if len(sp) != 1:
        raise Undecided('Addr.update: expected one strptime(<name>, fmt), found %d' % len(sp))
    V = sp[0].args[0].id
    A = u.node.args.vararg.arg if u.node.args.vararg else None
    if A is None:
        raise Undecided('Addr.update no longer takes *args')

    # the selection may live in a helper that gets the fields: analyse that function, its returns being the uses
    asg = [assign_to(n, V) for n in walk_unit(u) if isinstance(n, ast.Assign) and assign_to(n, V) is not None]
    helper = None
    if asg and all(isinstance(v, ast.Call) and len(v.args) == 1 and dotted(v.args[0].value if isinstance(v.args[0], ast.Starred) else v.args[0]) == A for v in asg):
        hs_ = set(dotted(v.func) for v in asg)
        if len(hs_) == 1:
            nm = hs_.pop()
            helper = run.idx.unit(MOD + '.' + nm) if '.' not in nm else (run.idx.find_method(AD(run), nm.split('.', 1)[1]) if nm.startswith('self.') else None)
            if helper is None:
                raise Undecided('Addr.update: the expiry text comes from %s(), which was not resolved' % nm)
    if helper is not None:
        u = helper
        g = cfg_of(u)
        ps_ = [p for p in u.params if p != 'self']
        A = u.node.args.vararg.arg if u.node.args.vararg else (ps_[0] if ps_ else None)
        V = None
        sp = [None]

    def uses(n):
        if n.ast is None or n.kind not in ('stmt', 'test'):
            return False
        if helper is not None:
            return n.kind == 'stmt' and isinstance(n.ast, ast.Return) and n.ast.value is not None
        if isinstance(n.ast, ast.Assign) and assign_to(n.ast, V) is not None:
            return False
        for x in node_asts(n):
            if x is sp[0]:
                return True
            if isinstance(x, ast.Compare) and mentions(x, V) and any(const(c) == 'NEVER' for c in x.comparators):
                return True
        return False

    def field_of(e, trail, depth=0):
        """index into args that expression e denotes at the end of trail (None = unknown, 'kw' = keyword value)"""
        if isinstance(e, ast.IfExp):
            r = eval_small(e.test, CURENV[0])
            if r is UNKNOWN:
                return None
            return field_of(e.body if r else e.orelse, trail, depth)
        if isinstance(e, ast.Subscript) and dotted(e.value) == A and isinstance(const(e.slice), int):
            return const(e.slice)
        if isinstance(e, ast.Subscript) and isinstance(e.slice, ast.Slice) and isinstance(e.value, ast.Name):
            return ('kw', e.value.id, const(e.slice.lower))
        if isinstance(e, ast.Name) and depth < 4:
            for i in range(len(trail) - 1, -1, -1):
                n = trail[i][0]
                if n.kind != 'stmt' or not isinstance(n.ast, ast.Assign):
                    continue
                for t in n.ast.targets:
                    if dotted(t) == e.id:
                        return field_of(n.ast.value, trail[:i], depth + 1)
                    if isinstance(t, (ast.Tuple, ast.List)):
                        for k_, el in enumerate(t.elts):
                            if dotted(el) == e.id:
                                v = n.ast.value
                                if dotted(v) == A or (isinstance(v, ast.Subscript) and dotted(v.value) == A and isinstance(v.slice, ast.Slice) and v.slice.lower is None):
                                    return k_
                                if isinstance(v, (ast.Tuple, ast.List)) and len(v.elts) == len(t.elts):
                                    return field_of(v.elts[k_], trail[:i], depth + 1)
                                return None
        return None

    CURENV = [{}]
    FORMS = [('three fields (name addr time)', 3, 2), ('four bare fields (name addr local-time utc-time)', 4, 3)]
    for label, n_args, want in FORMS:
        env = {'len(%s)' % A: n_args, '%s[2]' % A: '2030-01-01 00:00:00', 'expires': None}
        env.pop('expires')
        CURENV[0] = env

        def hook(node, val, trail, env=env):
            t = src(node.ast)
            if 'startswith' in t and 'expires=' in t.lower():
                return False
            if '=' in t and "'='" in t:
                return None
            r = eval_small(node.ast, env)
            return None if r is UNKNOWN else bool(r)
        ps = [p_ for p_ in g.paths(eval_hook=hook, stop=uses, loop_bound=1, follow_exc=False) if uses(p_.last)]
        run.paths_enumerated += len(ps)
        if not ps:
            raise Undecided('Addr.update: no path reaches the use of the expiry text for the form %s' % label)
        seen = set()
        for p_ in ps:
            trail = p_.steps[:-1]
            last = None
            if helper is not None:
                last = (len(trail), p_.last.ast.value)
            for i in range(len(trail) - 1, -1, -1) if helper is None else []:
                n = trail[i][0]
                if n.kind == 'stmt' and isinstance(n.ast, ast.Assign) and assign_to(n.ast, V) is not None:
                    last = (i, assign_to(n.ast, V))
                    break
            if last is None:
                got = field_of(ast.Name(id=V, ctx=ast.Load()), trail)
            else:
                got = field_of(last[1], trail[:last[0]])
            if got in seen:
                continue
            seen.add(got)
            if got is None or isinstance(got, tuple):
                run.undecide('R20.6', u.qual, 'the expiry text of the form "%s" could not be resolved to a field (%s)' % (label, src(last[1]) if last else V))
                continue
            run.ob('R20.6', u, last[1] if last else u.node, 'expiry field for the form: %s is field %d' % (label, want), got == want, slot='expiry-field:%d-fields' % n_args,
                   message='for an ADDRMAP line with %s the expiry is taken from field %d instead of field %d%s' %
                           (label, got, want, ': the local-time field is compared with utcnow(), so the mapping expires early/late by the host\'s UTC offset' if n_args == 4 else ''),
                   path=p_.describe(8))
    # keyword form: the value is what follows 'expires=' (slice at the length of the prefix that was tested)
    k = 0
    for t in [n for n in g.live if n.kind == 'test' and n.ast is not None and 'startswith' in src(n.ast)]:
        pre = [const(c.args[0]) for c in ast.walk(t.ast) if isinstance(c, ast.Call) and callee_attr(c) == 'startswith' and c.args and isinstance(const(c.args[0]), str)]
        if not pre or pre[0].lower() != 'expires=':
            continue
        tested = set(x.id for c in ast.walk(t.ast) if isinstance(c, ast.Call) and callee_attr(c) == 'startswith' for x in ast.walk(c.func) if isinstance(x, ast.Name))
        for n in g.real_nodes():
            if n.kind == 'stmt' and isinstance(n.ast, (ast.Assign, ast.Return)) and g.edge_dominates(t, 'T', n):
                v = n.ast.value
                # the statement that takes the value out of the tested field (whatever local it goes to)
                if v is None or not tested or not any(isinstance(x, ast.Name) and x.id in tested for x in ast.walk(v)):
                    continue
                k += 1
                ok = isinstance(v, ast.Subscript) and isinstance(v.slice, ast.Slice) and v.slice.upper is None and \
                    (const(v.slice.lower) == len(pre[0]) or src(v.slice.lower) in ("len('%s')" % pre[0], 'len("%s")' % pre[0]))
                ok = ok or (isinstance(v, ast.Subscript) and isinstance(v.value, ast.Call) and callee_attr(v.value) in ('split', 'partition') and const(v.value.args[0]) == '=')
                run.ob('R20.6', u, n.ast, 'the keyword value is what follows EXPIRES=', ok, slot='expiry-keyword-slice', message='the EXPIRES= value is taken as %s' % src(v))
    run.floor('R20.6', 'EXPIRES= keyword legs', k, 1)


RULES = [
    ('R20.5', 'ordering: every store of a mapping precedes the call that may expire it synchronously', r20_5),
    ('R20.1', 'local type inference: every timedelta used as a delay is read through total_seconds() (never .seconds alone)', r20_1),
    ('R20.2', 'insert/remove key agreement: stored under name and address, removed under both, address key kept in step on updates', r20_2),
    ('R20.3', 'timer discipline by path enumeration over (pending timer, new mapping kind): exactly one timer for a timed mapping, none after NEVER/error', r20_3),
    ('R20.6', 'expiry field selection per ADDRMAP line form (3 fields / 4 bare fields / EXPIRES= keyword), by path enumeration with the form deciding the tests', r20_6),
    ('R20.4', '"added" only for a new name, "expired" only from _expire, once each', r20_4),
]

from ..selftest import M  # noqa: E402
F = 'txtorcon/addrmap.py'
MUTANTS = [
    M('expiry-always-third-field', F, "                if args[2] == 'NEVER':\n                    gmtexpires = args[2]\n                else:\n                    gmtexpires = args[3]", "                gmtexpires = args[2]", ['R20.6']),
    M('expiry-keyword-slice-short', F, "                gmtexpires = arg[8:]", "                gmtexpires = arg[7:]", ['R20.6']),
    M('local-now', F, "        self.created = datetime.datetime.utcnow()", "        self.created = datetime.datetime.now()", ['R20.3']),
    M('added-only-with-timer', F, "            a.update(*params)\n            self.notify(\"addrmap_added\", *[a], **{})", "            a.update(*params)\n            if a.expiry is not None:\n                self.notify(\"addrmap_added\", *[a], **{})", ['R20.4']),
    M('cached-no-ignored', F, "            a = self.addr[params[0]]\n", "            a = self.addr[params[0]]\n            if a.expires is None and len(params) > 3:\n                return\n", ['R20.5']),
    M('lookup-by-address', F, "            a = self.addr[params[0]]\n", "            a = self.addr[params[1]]\n", ['R20.2']),
    M('stale-filter-inverted', F, "if v is a and k != params[0]]:", "if v is not a and k != params[0]]:", ['R20.2']),
    M('rekey-after-update', F, "            self.addr[params[1]] = a\n            a.update(*params)\n\n        else:", "            a.update(*params)\n            self.addr[params[1]] = a\n\n        else:", ['R20.5']),
    M('seconds-again', F, "self.expiry.reset(max(0, diff.total_seconds()))", "self.expiry.reset(max(0, diff.seconds))", ['R20.1']),
    M('retime-clamped-at-one', F, "self.expiry.reset(max(0, diff.total_seconds()))", "self.expiry.reset(max(1, diff.total_seconds()))", ['R20.3']),
    M('retime-by-difference', F, "                diff = self.expires - self.created\n                self.expiry.reset(max(0, diff.total_seconds()))", "                diff = self.expires - oldexpires\n                self.expiry.delay(diff.total_seconds())", ['R20.3']),
    M('calllater-seconds', F, "callLater(diff.total_seconds(),", "callLater(diff.seconds,", ['R20.1']),
    M('expire-name-only', F, "        for k in [k for (k, v) in self.map.addr.items() if v is self]:\n            del self.map.addr[k]", "        del self.map.addr[self.name]", ['R20.2']),
    M('update-keeps-old-address', F, "            for k in [k for (k, v) in self.addr.items() if v is a and k != params[0]]:\n                del self.addr[k]\n", "", ['R20.2']),
    M('update-no-new-address', F, "                del self.addr[k]\n            self.addr[params[1]] = a\n", "                del self.addr[k]\n", ['R20.2']),
    M('never-keeps-timer', F, "        if self.expires is None:\n            # a permanent mapping: a timer from an earlier, timed\n            # mapping must not remove it\n            self._cancel_expiry()\n\n        else:", "        if self.expires is not None:", ['R20.3']),
    M('expire-keeps-timer', F, "        callback done via callLater\n        \"\"\"\n        self._cancel_expiry()\n", "        callback done via callLater\n        \"\"\"\n", ['R20.3']),
    M('second-timer', F, "                self.expiry.reset(max(0, diff.total_seconds()))", "                self.expiry = self.map.scheduler.callLater(diff.total_seconds(), self._expire)", ['R20.3']),
    M('reset-from-old-expiry', F, "                diff = self.expires - self.created\n                self.expiry.reset(", "                diff = self.expires - oldexpires\n                self.expiry.reset(", ['R20.3']),
    M('added-always', F, "            a.update(*params)\n            self.notify(\"addrmap_added\", *[a], **{})", "            a.update(*params)\n        self.notify(\"addrmap_added\", *[self.addr.get(params[0])], **{})", ['R20.4']),
]
TWINS = [
    M('expiry-field-by-conditional-expression', F, "            if len(args) == 3:\n                gmtexpires = expires\n            else:\n                if args[2] == 'NEVER':\n                    gmtexpires = args[2]\n                else:\n                    gmtexpires = args[3]", "            gmtexpires = args[3] if len(args) > 3 and args[2] != 'NEVER' else args[2]"),
    M('aware-utc-now', F, "        self.created = datetime.datetime.utcnow()", "        self.created = datetime.datetime.now(datetime.timezone.utc).replace(tzinfo=None)"),
    M('days-and-seconds', F, "self.expiry.reset(max(0, diff.total_seconds()))", "self.expiry.reset(max(0, diff.days * 86400 + diff.seconds))"),
    M('cancel-inline', F, "        if self.expires is None:\n            # a permanent mapping: a timer from an earlier, timed\n            # mapping must not remove it\n            self._cancel_expiry()\n", "        if self.expires is None:\n            if self.expiry is not None and self.expiry.active():\n                self.expiry.cancel()\n            self.expiry = None\n"),
]
