"""C01 - control replies resolve commands FIFO, exactly once, one command in flight."""
import ast

from .common import *  # noqa

MOD = 'torcontrolprotocol'
CLS = 'TorControlProtocol'
WRITE_CALLS = ('self.transport.write', 'self.transport.writeSequence', 'self.sendLine')


def _resolve_name(defs, node, depth=0):
    """follow single plain definitions of local names."""
    while isinstance(node, ast.Name) and depth < 6:
        d = single_def(defs, node.id)
        if d is None or d[0] != 'expr':
            break
        node = d[1]
        depth += 1
    return node


def proto(run):
    return run.idx.cls(CLS, MOD)


def U(run, name):
    u = run.idx.find_method(proto(run), name)
    if u is None:
        raise AnchorVanished('%s.%s' % (CLS, name))
    return u


def queue_layout(run):
    """(index of Deferred, index of command bytes, index of per-line callback) in the
    tuple queue_command appends to self.commands, and the append call."""
    qc = U(run, 'queue_command')
    defs = local_defs(qc)
    apps = []
    for c in calls_in(qc):
        d = dotted(c.func) or ''
        if d.startswith('self.commands.') and c.args:
            t = _resolve_name(defs, c.args[-1])
            if isinstance(t, ast.Tuple):
                apps.append((c, t))
    if len(apps) != 1:
        raise Undecided('queue_command: expected exactly one insertion of a tuple into self.commands')
    tup = apps[0][1]
    apps = [apps[0][0]]
    params = qc.params
    idx_d = idx_cmd = idx_cb = None
    for i, e in enumerate(tup.elts):
        if not isinstance(e, ast.Name):
            continue
        ds = defs.get(e.id, [])
        if any(d[0] == 'expr' and isinstance(d[1], ast.Call) and dotted(d[1].func) in
               ('defer.Deferred', 'Deferred') for d in ds):
            idx_d = i
        elif len(params) > 1 and (e.id == params[1] or (ds and all(d[0] == 'expr' and params[1] in [x.id for x in ast.walk(d[1]) if isinstance(x, ast.Name)] for d in ds))):
            # the command parameter itself, or a local every definition of which is computed from it (cmd / cmd.encode(...))
            idx_cmd = i
        elif len(params) > 2 and e.id == params[2]:
            idx_cb = i
    if None in (idx_d, idx_cmd, idx_cb):
        raise Undecided('queue_command: cannot identify (deferred, cmd, callback) in %s' % src(tup))
    return idx_d, idx_cmd, idx_cb, apps[0], tup


def popped_unpack(run):
    """In _maybe_issue_command: names bound to the elements of the popped tuple."""
    mi = U(run, '_maybe_issue_command')
    out = {}
    for n in walk_unit(mi):
        if isinstance(n, ast.Assign) and isinstance(n.targets[0], (ast.Tuple, ast.List)):
            v = n.value
            if dotted(v) == 'self.command' or (isinstance(v, ast.Call) and dotted(v.func) == 'self.commands.pop'):
                for i, e in enumerate(n.targets[0].elts):
                    if isinstance(e, ast.Name):
                        out[i] = e.id
    return out


def popped_element(run, e, defs=None):
    """index i if expression e denotes element i of the popped queue entry in _maybe_issue_command: a name bound by unpacking it,
    a name defined as <entry>[i], or <entry>[i] itself - <entry> being self.command, the pop() call, or a local alias of either"""
    mi = U(run, '_maybe_issue_command')
    defs = defs if defs is not None else local_defs(mi)
    unp = popped_unpack(run)

    def is_entry(x, depth=0):
        if dotted(x) == 'self.command' or (isinstance(x, ast.Call) and dotted(x.func) == 'self.commands.pop'):
            return True
        if isinstance(x, ast.Name) and depth < 3:
            d = single_def(defs, x.id)
            return bool(d and d[0] == 'expr' and is_entry(d[1], depth + 1))
        return False
    if isinstance(e, ast.Name):
        for i, nm in unp.items():
            if nm == e.id:
                return i
        d = single_def(defs, e.id)
        if d and d[0] == 'expr':
            return popped_element(run, d[1], defs) if not isinstance(d[1], ast.Name) or d[1].id != e.id else None
        return None
    if isinstance(e, ast.Subscript) and isinstance(const(e.slice), int) and is_entry(e.value):
        return const(e.slice)
    return None


# --------------------------------------------------------------------- R01.1
def r01_1(run):
    ci = proto(run)
    sites = []
    for u in class_units(run.idx, ci):
        for c in calls_in(u):
            d = dotted(c.func)
            if d in WRITE_CALLS:
                sites.append((u, c))
                ok = (u.name == '_maybe_issue_command' and u.parent is None)
                run.ob('R01.1', u, c, 'transport write only in _maybe_issue_command', ok,
                       slot='write@%s' % u.short,
                       message='%s writes to the control transport (%s) outside _maybe_issue_command'
                       % (u.short, src(c)[:60]))
    run.floor('R01.1', 'transport write sites in TorControlProtocol', len(sites), 1)
    # package-wide: nobody writes to a TorControlProtocol's transport from outside
    n = 0
    for u in run.idx.all_units():
        if u.owner_cls is not None and u.owner_cls in [ci] + run.idx.subclasses(ci):
            continue
        for c in calls_in(u):
            d = dotted(c.func) or ''
            parts = d.split('.')
            if len(parts) >= 3 and parts[-2] == 'transport' and parts[-1] in ('write', 'writeSequence'):
                recv = parts[-3]
                n += 1
                bad = recv in ('protocol', '_protocol', 'tor_protocol', 'proto', '_tor_protocol', 'control')
                run.ob('R01.1', u, c, 'no foreign write to a control protocol transport', not bad,
                       slot='foreign-write@%s' % u.short,
                       message='%s writes directly to the control connection transport: %s' % (u.short, src(c)[:60]))
    run.count('foreign_transport_writes_examined', n)


# --------------------------------------------------------------------- R01.2
def _resolve_name(defs, node, depth=0):
    """follow single plain definitions of local names."""
    while isinstance(node, ast.Name) and depth < 6:
        d = single_def(defs, node.id)
        if d is None or d[0] != 'expr':
            break
        node = d[1]
        depth += 1
    return node


def r01_2(run):
    mi = U(run, '_maybe_issue_command')
    idx_d, idx_cmd, idx_cb, app, tup = queue_layout(run)
    writes = [c for c in calls_in(mi) if dotted(c.func) in WRITE_CALLS]
    defs = local_defs(mi)
    unp = popped_unpack(run)
    for w in writes:
        if not w.args:
            run.ob('R01.2', mi, w, 'written payload identified', None)
            continue
        arg = _resolve_name(defs, w.args[0])
        # accepted: <cmd> + b'\r\n' ; b''.join([cmd, b'\r\n']) ; sendLine(cmd)
        pieces = None
        if isinstance(arg, ast.BinOp) and isinstance(arg.op, ast.Add):
            pieces = [arg.left, arg.right]
        elif isinstance(arg, ast.Call) and callee_attr(arg) == 'join' and arg.args and \
                isinstance(arg.args[0], (ast.List, ast.Tuple)) and const(receiver(arg)) in (b'', ''):
            pieces = list(arg.args[0].elts)
        elif dotted(w.func) == 'self.sendLine':
            pieces = [arg, ast.Constant(value=b'\r\n')]
        if pieces is None and isinstance(arg, ast.IfExp):
            # a choice between payloads: each alternative has to be <command> + CRLF; one that is not writes some commands without
            # (or with something other than) the terminator the property fixes
            alts = [_resolve_name(defs, x) for x in (arg.body, arg.orelse)]
            plain = [x for x in alts if not (isinstance(x, ast.BinOp) and isinstance(x.op, ast.Add) and const(x.right) in (b'\r\n', '\r\n'))]
            run.ob('R01.2', mi, w, 'every alternative of the written payload is <command> + CRLF', not plain, slot='payload-alternatives',
                   message='for some commands (%s) the payload written is %s, not the command text plus CRLF: the property fixes "verbatim plus CRLF" for every command, '
                           'whatever it ends in' % (src(arg.test)[:40], [src(x)[:30] for x in plain]))
            if plain:
                continue
            pieces = [alts[0].left, alts[0].right]
        if pieces is None or len(pieces) != 2:
            run.ob('R01.2', mi, w, 'written payload is <command> + CRLF', None,
                   message='payload shape not recognised: %s' % src(arg))
            continue
        head, tail = pieces
        tailc = const(tail)
        ok_tail = tailc in (b'\r\n', '\r\n')
        run.ob('R01.2', mi, w, 'payload terminator is exactly CRLF', ok_tail, slot='terminator',
               message='command terminator is %r, not CRLF' % (tailc if tailc is not NOCONST else src(tail)))
        # head must be the command element of the popped tuple, never redefined
        ok_head = False
        why = src(head)
        if isinstance(head, ast.Name):
            ds = defs.get(head.id, [])
            if len(ds) == 1 and ds[0][0] == 'elem' and ds[0][2] == idx_cmd:
                v = ds[0][1]
                ok_head = dotted(v) == 'self.command' or (isinstance(v, ast.Call) and dotted(v.func) == 'self.commands.pop')
            else:
                why = '%s has %d definitions / not element %d of the popped tuple' % (head.id, len(ds), idx_cmd)
        elif isinstance(head, ast.Subscript) and dotted(head.value) == 'self.command' and const(head.slice) == idx_cmd:
            ok_head = True
        if not ok_head and popped_element(run, head, defs) == idx_cmd:
            # (the element reached through a constant subscript of the entry / an alias of it, and a single definition)
            ok_head = not isinstance(head, ast.Name) or len(defs.get(head.id, [])) == 1
        run.ob('R01.2', mi, w, 'payload head is the queued command bytes, unmodified', ok_head, slot='head',
               message='written bytes are not the queued command verbatim: %s' % why)
    # queue_command: the queued bytes are the caller's cmd, only ever .encode()d
    qc = U(run, 'queue_command')
    qdefs = local_defs(qc)
    cmdname = tup.elts[idx_cmd].id
    for d in qdefs.get(cmdname, []):
        if d[0] == 'param':
            continue
        pname = qc.params[1] if len(qc.params) > 1 else cmdname
        def _plain_or_encoded(e):
            return dotted(e) == pname or (isinstance(e, ast.Call) and callee_attr(e) == 'encode' and dotted(receiver(e)) in (cmdname, pname))
        ok = d[0] == 'expr' and (_plain_or_encoded(d[1]) or (isinstance(d[1], ast.IfExp) and _plain_or_encoded(d[1].body) and _plain_or_encoded(d[1].orelse)))
        run.ob('R01.2', qc, d[1] if len(d) > 1 else qc.node, 'queued command is the argument, at most encoded', ok,
               slot='queue_command:cmd-def:%s' % (src(d[1])[:40] if len(d) > 1 else d[0]),
               message='queue_command rewrites the command before queueing: %s = %s' % (cmdname, src(d[1]) if len(d) > 1 else d[0]))


# --------------------------------------------------------------------- R01.3
def r01_3(run):
    ci = proto(run)
    idx_d, idx_cmd, idx_cb, app, tup = queue_layout(run)
    n_assign = n_append = n_pop = 0
    for u in class_units(run.idx, ci):
        top = u
        while top.parent is not None:
            top = top.parent
        for n in walk_unit(u):
            if isinstance(n, (ast.Assign, ast.AugAssign)):
                tg = assigned_targets(n)
                if 'self.commands' in tg:
                    n_assign += 1
                    val = n.value
                    empty = isinstance(n, ast.Assign) and ((isinstance(val, (ast.List, ast.Tuple)) and not val.elts) or
                                                           (isinstance(val, ast.Call) and dotted(val.func) in ('list', 'deque', 'collections.deque') and not val.args))
                    ok = empty and top.name in ('__init__', 'connectionLost')
                    run.ob('R01.3', u, n, 'queue only (re)bound to an empty queue in __init__/connectionLost', ok,
                           slot='assign@%s' % u.short,
                           message='self.commands rebound: %s' % src(n))
                for t in (n.targets if isinstance(n, ast.Assign) else [n.target]):
                    if isinstance(t, ast.Subscript) and dotted(t.value) == 'self.commands':
                        run.ob('R01.3', u, n, 'no element/slice store into the queue', False,
                               slot='store@%s' % u.short, message='queue modified by subscript store: %s' % src(n))
            elif isinstance(n, ast.Delete):
                for t in n.targets:
                    if isinstance(t, ast.Subscript) and dotted(t.value) == 'self.commands':
                        full = isinstance(t.slice, ast.Slice) and t.slice.lower is None and t.slice.upper is None
                        ok = full and top.name == 'connectionLost'
                        run.ob('R01.3', u, n, 'queue deletion only to empty it on loss', ok,
                               slot='del@%s' % u.short, message='queue element deleted: %s' % src(n))
            elif isinstance(n, ast.Call):
                d = dotted(n.func) or ''
                if not d.startswith('self.commands.'):
                    continue
                m = d[len('self.commands.'):]
                if m == 'append':
                    n_append += 1
                    run.ob('R01.3', u, n, 'tail insertion only in queue_command', top.name == 'queue_command' and u is top,
                           slot='append@%s' % u.short, message='command appended outside queue_command: %s' % src(n))
                elif m in ('pop', 'popleft'):
                    n_pop += 1
                    head = (m == 'popleft' and not n.args) or (m == 'pop' and len(n.args) == 1 and const(n.args[0]) == 0)
                    where = top.name in ('_maybe_issue_command', 'connectionLost')
                    run.ob('R01.3', u, n, 'removal is from the head', head, slot='pop-head@%s' % u.short,
                           message='queue removal is not head removal (FIFO broken): %s' % src(n))
                    run.ob('R01.3', u, n, 'removal only in _maybe_issue_command (or draining on loss)', where,
                           slot='pop-where@%s' % u.short, message='queue popped in %s' % u.short)
                elif m in ('clear',):
                    run.ob('R01.3', u, n, 'clear only on loss', top.name == 'connectionLost', slot='clear@%s' % u.short,
                           message='queue cleared in %s' % u.short)
                elif m in MUTATING:
                    run.ob('R01.3', u, n, 'no reordering mutation of the queue', False, slot='%s@%s' % (m, u.short),
                           message='queue mutated with %s (order/contents no longer FIFO): %s' % (m, src(n)))
    run.floor('R01.3', 'assign/append/pop sites of self.commands', min(n_assign, 1) + min(n_append, 1) + min(n_pop, 1), 3)
    # queue_command: the Deferred appended is the one returned; issue attempted after append
    qc = U(run, 'queue_command')
    g = cfg_of(qc)
    dname = tup.elts[idx_d].id
    app_nodes = g.nodes_containing(app)
    for p in g.paths():
        run.paths_enumerated += 1
        nodes = p.nodes()
        if not any(n in app_nodes for n in nodes):
            continue
        if p.exit == 'return':
            ret = [n for n in nodes if n.kind == 'stmt' and isinstance(n.ast, ast.Return)][-1]
            ok = isinstance(ret.ast.value, ast.Name) and ret.ast.value.id == dname
            run.ob('R01.3', qc, ret.ast, 'the queued Deferred is the one returned', ok, slot='return-deferred',
                   message='queue_command returns %s, not the queued Deferred %s' % (src(ret.ast.value), dname))
        elif p.exit == 'fall':
            run.ob('R01.3', qc, qc.node, 'the queued Deferred is the one returned', False, slot='return-deferred',
                   message='queue_command can fall off without returning the queued Deferred')
    for an in app_nodes:
        esc = g.escapes(an, lambda n: any(is_call_to(a, 'self._maybe_issue_command') for a in node_asts(n)),
                        exits=g.normal_exits())
        run.ob('R01.3', qc, app, 'after queueing, issuing is attempted on every path', not esc, slot='issue-after-append',
               message='a path from the append to return does not call _maybe_issue_command (an idle '
                       'connection would never send the command)')


MUTATING = frozenset(('insert', 'sort', 'reverse', 'extend', 'remove', 'appendleft', 'extendleft', 'rotate',
                      '__setitem__', '__delitem__'))


# --------------------------------------------------------------------- R01.4
def slot_falsy_edges(g, text):
    """[(test node, label)] whose being taken means `text` is falsy/None."""
    out = []
    for t in g.live:
        if t.kind != 'test':
            continue
        a = t.ast
        if dotted(a) == text:
            out.append((t, 'F'))
        elif isinstance(a, ast.Compare) and dotted(a.left) == text and len(a.ops) == 1 and is_none(a.comparators[0]):
            if isinstance(a.ops[0], ast.Is):
                out.append((t, 'T'))
            elif isinstance(a.ops[0], ast.IsNot):
                out.append((t, 'F'))
    return out


def r01_4(run):
    ci = proto(run)
    mi = U(run, '_maybe_issue_command')
    idx_d, idx_cmd, idx_cb, app, tup = queue_layout(run)
    g = cfg_of(mi)
    wnodes = g.nodes_where(lambda n: any(isinstance(a, ast.Call) and dotted(a.func) in WRITE_CALLS for a in node_asts(n)))
    pnodes = g.nodes_where(lambda n: any(isinstance(a, ast.Call) and dotted(a.func) in ('self.commands.pop', 'self.commands.popleft')
                                         for a in node_asts(n)))
    if not wnodes or not pnodes:
        raise AnchorVanished('_maybe_issue_command: write or pop site missing')
    falsy = slot_falsy_edges(g, 'self.command')
    for pn in pnodes:
        ok = any(g.edge_dominates(t, lab, pn) for t, lab in falsy)
        run.ob('R01.4', mi, pn.ast, 'next command popped only when no command is in flight', ok, slot='pop-guard',
               message='self.commands.pop is reachable while self.command is set (second command written before the reply)')
    unp = popped_unpack(run)
    for wn in wnodes:
        ok = any(g.dominates(pn, wn) for pn in pnodes)
        run.ob('R01.4', mi, wn.ast, 'write dominated by the pop', ok, slot='write-after-pop',
               message='transport write reachable without popping a command')
        # slot assignment before the write
        set_cmd = [n for n in g.real_nodes() if n.kind == 'stmt' and assign_to(n.ast, 'self.command') is not None
                   and not is_none(assign_to(n.ast, 'self.command'))]
        ok = any(g.dominates(n, wn) for n in set_cmd)
        run.ob('R01.4', mi, wn.ast, 'in-flight slot set before the write', ok, slot='slot-before-write',
               message='self.command is not assigned on every path before the write')
        set_def = [n for n in g.real_nodes() if n.kind == 'stmt' and assign_to(n.ast, 'self.defer') is not None]
        okd = False
        for n in set_def:
            v = assign_to(n.ast, 'self.defer')
            is_d = (isinstance(v, ast.Name) and unp.get(idx_d) == v.id) or \
                   (isinstance(v, ast.Subscript) and dotted(v.value) == 'self.command' and const(v.slice) == idx_d) or popped_element(run, v) == idx_d
            if is_d and g.dominates(n, wn):
                okd = True
        run.ob('R01.4', mi, wn.ast, "self.defer := the popped command's Deferred before the write", okd, slot='defer-before-write',
               message="self.defer is not set to the popped command's Deferred (tuple index %d) before the write" % idx_d)
    # one in flight: nothing is popped (and nothing more written) after a write in the same invocation - a loop that keeps
    # draining the queue writes the commands behind the first one while its reply is outstanding
    for wn in wnodes:
        after = g.reachable([s_ for _, s_ in wn.succ], follow_exc=False)
        again = [x for x in list(pnodes) + list(wnodes) if x in after]
        run.ob('R01.4', mi, again[0].ast if again else wn.ast, 'after a command is written nothing further is popped or written in this call', not again, slot='one-per-call',
               message='_maybe_issue_command can reach %s again after writing a command (a draining loop): with two or more commands waiting they are all written '
                       'back to back and the replies resolve the wrong Deferreds' % (src(again[0].ast)[:50] if again else ''))
    # who may assign the slot
    allowed = ('__init__', '_maybe_issue_command', '_broadcast_response', 'connectionLost')
    n = 0
    for u in class_units(run.idx, ci):
        top = u
        while top.parent is not None:
            top = top.parent
        for field in ('self.command', 'self.defer'):
            for st, v in writes_of(u, field):
                n += 1
                run.ob('R01.4', u, st, '%s assigned only in %s' % (field, '/'.join(allowed)), top.name in allowed,
                       slot='%s@%s' % (field, u.short), message='%s assigned in %s' % (field, u.short))
    run.floor('R01.4', 'assignments to self.command/self.defer', n, 6)


# --------------------------------------------------------------------- R01.5
def code_reps(run):
    units = [U(run, '_broadcast_response')]
    consts = int_constants_compared_with(units, 'self.code')
    consts.update((200, 300, 500, 600, 700))
    return [None] + [c for c in representatives(consts) if c >= 0]


def code_class(c):
    if c is None:
        return 'none'
    if 200 <= c < 300:
        return '2xx'
    if 500 <= c < 600:
        return '5xx'
    if 600 <= c < 700:
        return '6xx'
    return 'other'


def bc_classify(a):
    if isinstance(a, ast.Call):
        d = dotted(a.func)
        if d == 'self.defer.callback':
            return 'callback'
        if d == 'self.defer.errback':
            return 'errback'
        if d == 'self._handle_notify':
            return 'notify'
        if d == 'self._maybe_issue_command':
            return 'issue'
        if isinstance(a.func, ast.Subscript) and dotted(a.func.value) == 'self.command':
            return 'linecb'
    if isinstance(a, ast.Assign) and isinstance(a.value, ast.Subscript) and isinstance(a.value.slice, ast.Slice) and isinstance(a.targets[0], ast.Name) \
            and dotted(a.value.value) == a.targets[0].id and a.value.slice.upper is not None:
        return 'cut'      # <text> = <text>[:-k]: something is cut off the end of the collected text
    if isinstance(a, (ast.Assign, ast.AugAssign)):
        out = []
        for f, tag in (('self.command', 'command'), ('self.defer', 'defer'), ('self.code', 'code'), ('self.response', 'response')):
            v = assign_to(a, f)
            if v is not None:
                if isinstance(a, ast.Assign) and (is_none(v) or const(v) == ''):
                    out.append('reset_' + tag)
                else:
                    out.append('set_' + tag)
        return out or None
    return None


def r01_5(run, rid='R01.5', classes=('2xx', '5xx', 'other', 'none')):
    bc = U(run, '_broadcast_response')
    g = cfg_of(bc)
    defs = local_defs(bc)
    nsite = 0
    for c in code_reps(run):
        cls = code_class(c)
        if cls not in classes:
            continue
        paths = g.paths(eval_hook=hook_for_env({'self.code': c}))
        run.paths_enumerated += len(paths)
        for p in paths:
            eff = path_effects(p, bc_classify)
            tags = [t for t, _, _ in eff]
            where = 'code=%s %s' % (c, p.describe(6))
            normal = p.exit in ('return', 'fall')
            nsite += 1
            last = p.steps[-2][0].ast if len(p.steps) > 1 else bc.node

            def ob(what, ok, slot, msg):
                run.ob(rid, bc, last, '%s [code class %s]' % (what, cls), ok, slot='%s[%s]' % (slot, cls),
                       message='%s (code=%s)' % (msg, c), path=where)
            if cls in ('other', 'none'):
                ob('no command is resolved by a non-reply code', 'callback' not in tags and 'errback' not in tags,
                   'no-fire', 'a Deferred is fired for a code that is neither 2xx nor 5xx')
                continue
            if cls == '6xx':
                ob('event: dispatched, not refused', normal, 'event-not-refused', 'a reply with a 6xx code raises instead of being dispatched to listeners')
                if normal:
                    ob('event: exactly one _handle_notify', tags.count('notify') == 1, 'notify-once',
                       '6xx reply dispatches %d notifications' % tags.count('notify'))
                if 'notify' in tags:
                    ob('event: listeners get the text as Tor sent it (nothing cut off before dispatch)', 'cut' not in tags[:tags.index('notify')], 'event-text-uncut',
                       'the text of a 650 event is shortened before it is dispatched: an event closed by "650 OK" loses that line (a two-line event then loses the last letter of its name and reaches nobody)')
                ob('event: no command Deferred fired', 'callback' not in tags and 'errback' not in tags, 'no-fire',
                   'a 650 event fires the in-flight command')
                ob('event: in-flight slot untouched', not any(t in tags for t in ('reset_command', 'set_command', 'reset_defer', 'set_defer')),
                   'slot-untouched', 'a 650 event clears/changes self.command or self.defer')
                ob('event: next command not issued', 'issue' not in tags, 'no-issue',
                   'a 650 event issues the next command while one may be in flight')
                if normal:
                    ob('event: response buffer reset', 'reset_response' in tags, 'reset-response', 'self.response not reset after an event')
                    ob('event: code reset', 'reset_code' in tags, 'reset-code', 'self.code not reset after an event')
                continue
            fire, other = ('callback', 'errback') if cls == '2xx' else ('errback', 'callback')
            ob('reply never fires the wrong way', other not in tags, 'no-' + other,
               '%s reply calls self.defer.%s' % (cls, other))
            ob('reply does not dispatch as event', 'notify' not in tags, 'no-notify', '%s reply reaches _handle_notify' % cls)
            if not normal:
                ob('a raising path has not fired the Deferred', fire not in tags, 'raise-unfired',
                   'raises after firing the command Deferred')
                nodefer = any(b for _, b in p.took(lambda t: isinstance(t, ast.Compare) and dotted(t.left) == 'self.defer'
                                                   and isinstance(t.ops[0], ast.Is) and is_none(t.comparators[0])))
                ob('a %s reply is refused only when no command is in flight' % cls, nodefer, 'unresolved',
                   '%s reply is not resolved: the path raises instead of firing the command' % cls)
                continue
            ob('exactly one %s' % fire, tags.count(fire) == 1, 'fire-once', '%s reply fires %d times' % (cls, tags.count(fire)))
            if tags.count(fire) != 1:
                continue
            i = tags.index(fire)
            after = tags[i + 1:]
            ob('in-flight slot cleared after the fire', 'reset_command' in tags and 'reset_defer' in tags,
               'slot-reset', 'self.command/self.defer not cleared after the reply')
            ob('response buffer reset', 'reset_response' in tags, 'reset-response', 'self.response not reset')
            ob('code reset', 'reset_code' in tags, 'reset-code', 'self.code not reset (next reply would be compared against it)')
            ok_issue = tags.count('issue') == 1 and 'issue' in after
            if ok_issue:
                j = tags.index('issue')
                ok_issue = all(tags.index(x) < j for x in ('reset_command', 'reset_defer') if x in tags) and \
                    'reset_command' in tags and 'reset_defer' in tags
            ob('next command issued once, after the slot is cleared', ok_issue, 'issue-after-reset',
               '_maybe_issue_command not called exactly once after clearing the slot')
            if cls == '5xx':
                # the error carries the reply text as Tor sent it: nothing is cut off it (the "\nOK" trailer belongs to 2xx replies
                # only; a multi-line 5xx whose last line reads OK keeps that line)
                ob('5xx: the error text is what Tor sent (nothing cut off before the errback)', 'cut' not in tags[:tags.index('errback')], 'error-text-uncut',
                   'the text of a 5xx reply is shortened before it is put into the error: a multi-line error whose closing line reads "OK" loses it')
                call = [a for t, _, a in eff if t == 'errback'][0]
                arg = _resolve_name(defs, call.args[0]) if call.args else None
                okerr = isinstance(arg, ast.Call) and dotted(arg.func) in ('TorProtocolError',) and arg.args and \
                    dotted(arg.args[0]) == 'self.code'
                ob('5xx fails with TorProtocolError(self.code, text)', okerr, 'error-type',
                   'errback value is %s' % (src(arg) if arg is not None else '<none>'))
    run.count('R01.5 path x code valuations', nsite)
    # nobody else fires self.defer
    ci = proto(run)
    for u in class_units(run.idx, ci):
        for cl in calls_in(u):
            d = dotted(cl.func)
            if d in ('self.defer.callback', 'self.defer.errback'):
                run.ob(rid, u, cl, 'self.defer fired only in _broadcast_response', u.name == '_broadcast_response',
                       slot='fire@%s' % u.short, message='%s fires self.defer' % u.short)


# --------------------------------------------------------------------- R01.7
def r01_7(run):
    ci = proto(run)
    ext = run.idx.external_bases(ci)
    ok = any(b.endswith('LineOnlyReceiver') for b in ext)
    run.ob('R01.7', ci.file, ci.node, 'framing delegated to LineOnlyReceiver', ok, slot='base',
           message='TorControlProtocol no longer derives from LineOnlyReceiver: %s' % ext)
    for c in [ci] + run.idx.subclasses(ci):
        for nm in ('dataReceived', 'delimiter', 'lineLengthExceeded'):
            bad = nm in c.methods or nm in c.attrs
            if nm == 'lineLengthExceeded':
                continue
            run.ob('R01.7', c.file, c.node, '%s not overridden in %s' % (nm, c.name), not bad, slot='override:%s:%s' % (c.name, nm),
                   message='%s overrides %s (line framing no longer Twisted\'s)' % (c.name, nm))
    ml = ci.attrs.get('MAX_LENGTH')
    v = const(ml) if ml is not None else NOCONST
    run.ob('R01.7', ci.file, ml or ci.node, 'MAX_LENGTH >= 2**20', v is not NOCONST and isinstance(v, int) and v >= 2 ** 20,
           slot='MAX_LENGTH', message='MAX_LENGTH is %s (< 1 MiB: long GETINFO replies drop the connection)' %
           (v if v is not NOCONST else 'not a constant / missing'))
    lr = U(run, 'lineReceived')
    g = cfg_of(lr)
    param = lr.params[1] if len(lr.params) > 1 else None

    def is_process(n):
        return any(is_call_to(a, 'self.fsm.process') for a in node_asts(n))
    for p in g.paths():
        run.paths_enumerated += 1
        if p.exit == 'raise':
            continue
        k = sum(1 for n in p.nodes() if n.kind != 'exit' and is_process(n))
        run.ob('R01.7', lr, lr.node, 'every received line is fed to the machine exactly once', k == 1, slot='process-once',
               message='lineReceived feeds the line %d times on path %s' % (k, p.describe()))
    # ... and it is the line as received: before the machine has classified it nothing may rewrite it (un-stuffing a data line
    # belongs in the data-line handler - done here, the stuffed line ".." turns into the block terminator ".")
    for n in walk_unit(lr):
        if isinstance(n, (ast.Assign, ast.AugAssign)) and param in assigned_targets(n):
            v = n.value
            plain = isinstance(v, ast.Call) and callee_attr(v) == 'decode' and dotted(receiver(v)) == param
            run.ob('R01.7', lr, n, 'the received line is only decoded before it is classified', plain, slot='line-rewritten',
                   message='lineReceived rewrites the line (%s = %s) before the line machine sees it: the machine\'s matchers then classify a different line than Tor sent' % (param, src(v)[:40]))
    for c in calls_in(lr, 'self.fsm.process'):
        a = c.args[0] if c.args else None
        ok = a is not None and (dotted(a) == param or (isinstance(a, ast.Call) and callee_attr(a) == 'decode' and dotted(receiver(a)) == param))
        run.ob('R01.7', lr, c, 'the machine sees the received line (only decoded)', ok, slot='process-arg',
               message='fsm.process is given %s rather than the received line' % src(a))


# --------------------------------------------------------------------- R01.8
HANDLERS = ('_start_command', '_accumulate_response', '_accumulate_multi_response')


def acc_classify(a):
    if isinstance(a, ast.Call) and isinstance(a.func, ast.Subscript) and dotted(a.func.value) == 'self.command':
        return 'linecb'
    if isinstance(a, ast.AugAssign) and dotted(a.target) == 'self.response':
        return 'acc'
    if isinstance(a, ast.Assign):
        v = assign_to(a, 'self.response')
        if v is not None and const(v) != '':
            return 'acc'
    return None


def is_dot_test(t, p):
    """test that the line begins with '.': line.startswith('.'|'..'), line[0] == '.', line[:1] == '.'"""
    if isinstance(t, ast.Call) and dotted(t.func) == p + '.startswith' and t.args and const(t.args[0]) in ('.', '..'):
        return True
    if isinstance(t, ast.Compare) and len(t.ops) == 1 and isinstance(t.ops[0], ast.Eq) and const(t.comparators[0]) in ('.', '..'):
        l = t.left
        if isinstance(l, ast.Subscript) and dotted(l.value) == p:
            return True
    return False


def is_dot_unstuffing(g, sub, p):
    for n in g.nodes_containing(sub):
        if any(lab == 'T' for _, lab in g.guarded_by(n, lambda t: is_dot_test(t, p))):
            return True
    return False


def r01_8(run):
    idx_d, idx_cmd, idx_cb, app, tup = queue_layout(run)
    for name in HANDLERS:
        u = U(run, name)
        g = cfg_of(u)
        for p in g.paths():
            run.paths_enumerated += 1
            if p.exit == 'raise':
                continue
            tags = [t for t, _, _ in path_effects(p, acc_classify)]
            ok = (tags.count('linecb') + tags.count('acc')) == 1
            run.ob('R01.8', u, u.node, 'each line goes to the per-line callback or to the reply text, exactly one of them',
                   ok, slot='one-of:%s' % name,
                   message='%s: line delivered %d times to the callback and %d times to the reply text on path %s'
                   % (name, tags.count('linecb'), tags.count('acc'), p.describe()))
        for c in [x for x in calls_in(u) if isinstance(x.func, ast.Subscript) and dotted(x.func.value) == 'self.command']:
            run.ob('R01.8', u, c, 'per-line callback is tuple element %d' % idx_cb, const(c.func.slice) == idx_cb,
                   slot='cb-index:%s' % name, message='%s calls self.command[%s], the callback is element %d'
                   % (name, src(c.func.slice), idx_cb))
    # handlers strip exactly the 4-character "DDD?" prefix; data lines are kept whole
    for name, want in (('_start_command', 4), ('_accumulate_response', 4), ('_accumulate_multi_response', None)):
        u = U(run, name)
        p = u.params[1] if len(u.params) > 1 else None
        k = 0
        gg = cfg_of(u)
        for n in walk_unit(u):
            if isinstance(n, ast.Subscript) and dotted(n.value) == p and isinstance(n.slice, ast.Slice):
                lo = const(n.slice.lower) if n.slice.lower is not None else None
                up = n.slice.upper
                # int(line[:3]) - the code - is not payload
                if lo is None and up is not None:
                    continue
                if want is None and lo == 1 and up is None and is_dot_unstuffing(gg, n, p):
                    continue    # control-spec 2.3: one leading '.' removed from a dot-stuffed data line
                k += 1
                ok = (want is not None and lo == want and up is None)
                run.ob('R01.8', u, n, 'payload of a prefixed line is line[4:]', ok, slot='slice:%s' % name,
                       message='%s takes %s as payload (prefix is 4 characters "DDD" + separator)' % (name, src(n)))
        if want is None:
            uses = [n for n in walk_unit(u) if isinstance(n, ast.Name) and n.id == p and isinstance(n.ctx, ast.Load)]
            run.ob('R01.8', u, u.node, 'data-block lines are accumulated unsliced', k == 0 and len(uses) >= 2, slot='raw:%s' % name,
                   message='%s slices data-block lines' % name)
    bc = U(run, '_broadcast_response')
    p = bc.params[1]
    # the final status line's payload is also a line of the reply: on every path where the line is long
    # enough to have one, it reaches the per-line callback or the reply text, exactly once
    gb = cfg_of(bc)
    seen_payload = 0

    def uses_line(a):
        return any(isinstance(x, ast.Name) and x.id == p for x in ast.walk(a))
    all_paths = []
    for c_ in [c for c in code_reps(run) if c is not None]:
        for pa in gb.paths(eval_hook=code_hook(c_)):
            all_paths.append((c_, pa))
    for c_, pa in all_paths:
        run.paths_enumerated += 1
        if pa.exit == 'raise':
            continue
        short = any(n.kind == 'test' and 'len(%s)' % p in src(n.ast) and
                    eval_small(n.ast, {'len(%s)' % p: 3}) is not UNKNOWN and bool(eval_small(n.ast, {'len(%s)' % p: 3})) == (lab == 'T')
                    and bool(eval_small(n.ast, {'len(%s)' % p: 5})) != (lab == 'T')
                    for n, lab in pa.steps)
        if short:
            continue
        k_cb = k_txt = 0
        for n, lab in pa.steps:
            if n.kind != 'stmt':
                continue
            for a in node_asts(n):
                if isinstance(a, ast.Call) and isinstance(a.func, ast.Subscript) and dotted(a.func.value) == 'self.command' and any(uses_line(x) for x in a.args):
                    k_cb += 1
            if isinstance(n.ast, (ast.Assign, ast.AugAssign)) and uses_line(n.ast.value) and not any(
                    isinstance(x, ast.Call) and isinstance(x.func, ast.Subscript) for x in ast.walk(n.ast.value)):
                k_txt += 1
        seen_payload += 1
        # which of the two: the callback exactly when the reply is 2xx and the in-flight command has one
        has_cb = [b for n, b in pa.took(lambda t: 'self.command' in src(t))]
        opaque = any(n.kind == 'test' and isinstance(n.ast, ast.Call) and (dotted(n.ast.func) or '').startswith('self.') for n, _ in pa.steps)
        if not has_cb and not opaque and code_class(c_) == '2xx' and k_cb + k_txt == 1:
            run.ob('R01.8', bc, bc.node, 'for a 2xx reply (code %d) the per-line callback is consulted for the final line' % c_, False, slot='final-line-target:2xx:unconsulted',
                   message='_broadcast_response puts the final line of a reply with code %d into the reply text without looking whether the command has a per-line callback' % c_,
                   path=pa.describe(8))
        if has_cb and not opaque and k_cb + k_txt == 1:
            want_cb = code_class(c_) == '2xx' and all(has_cb)
            run.ob('R01.8', bc, bc.node, 'final line of a %s reply (code %d), line callback %s: goes to the %s' % (code_class(c_), c_, 'present' if all(has_cb) else 'absent', 'callback' if want_cb else 'reply text'),
                   (k_cb == 1) == want_cb, slot='final-line-target:%s:%s' % (code_class(c_), 'cb' if all(has_cb) else 'nocb'),
                   message='_broadcast_response hands the final line of a reply with code %d (%s a per-line callback) to the %s' % (c_, 'with' if all(has_cb) else 'without', 'callback' if k_cb else 'reply text'),
                   path=pa.describe(8))
        run.ob('R01.8', bc, bc.node, 'the status line\'s payload goes to the per-line callback or to the reply text, exactly one of them',
               k_cb + k_txt == 1, slot='one-of:_broadcast_response',
               message='_broadcast_response: payload of the final line delivered %d times to the callback and %d times to the reply text on path %s'
               % (k_cb, k_txt, pa.describe()))
    run.floor('R01.8', 'paths of _broadcast_response that carry a payload', seen_payload, 2)
    for n in walk_unit(bc):
        if isinstance(n, ast.Subscript) and dotted(n.value) == p and isinstance(n.slice, ast.Slice):
            lo = const(n.slice.lower) if n.slice.lower is not None else None
            run.ob('R01.8', bc, n, 'payload of the status line is line[4:]', lo == 4 and n.slice.upper is None, slot='slice:_broadcast_response',
                   message='_broadcast_response takes %s as payload' % src(n))


def code_hook(c):
    """self.code stands for the status code of the reply the current line belongs
    to; `self.code = int(line[:3])` keeps it, `= None` clears it."""
    def hook(node, val, trail):
        cur = c
        for n, lab in trail:
            if n.kind == 'stmt' and isinstance(n.ast, ast.Assign):
                v = assign_to(n.ast, 'self.code')
                if v is None:
                    continue
                if isinstance(v, ast.Call) and dotted(v.func) == 'int':
                    cur = c
                elif is_none(v):
                    cur = None
                else:
                    return None
        r = eval_small(node.ast, {'self.code': cur})
        return None if r is UNKNOWN else bool(r)
    return hook



def r01_9(run):
    """per-line callback only for lines of a 2xx reply: lines of a 5xx reply belong to the error text."""
    RID = 'R01.9'
    ci = proto(run)
    reps = [c for c in code_reps(run) if code_class(c) in ('5xx', 'other') and c is not None and c >= 300]
    sites = 0
    for u in class_units(run.idx, ci):
        cbcalls = [x for x in calls_in(u) if isinstance(x.func, ast.Subscript) and dotted(x.func.value) == 'self.command']
        if not cbcalls:
            continue
        sites += len(cbcalls)
        g = cfg_of(u)
        bad = {}
        for c in reps:
            for p in g.paths(eval_hook=code_hook(c)):
                run.paths_enumerated += 1
                for t, n, a in path_effects(p, acc_classify):
                    if t == 'linecb':
                        bad.setdefault(id(a), (a, c, p))
        for call in cbcalls:
            hit = bad.get(id(call))
            if hit is not None and any(n.kind == 'test' and isinstance(n.ast, ast.Call) and (dotted(n.ast.func) or '').startswith('self.')
                                       for n, _ in hit[2].steps):
                run.ob(RID, u, call, 'reachability decided', None, message='the path to the per-line callback depends on %s, which the checker cannot see through' %
                       [src(n.ast) for n, _ in hit[2].steps if n.kind == 'test' and isinstance(n.ast, ast.Call)][:2])
                continue
            run.ob('R01.9', u, call, 'per-line callback unreachable while the current reply is not 2xx', hit is None,
                   slot='linecb-non2xx@%s' % u.short,
                   message='%s hands a line of a %s reply to the per-line callback: a 5xx reply then fails with '
                           'only part of its text' % (u.short, hit[1] if hit else ''),
                   path=('code=%s %s' % (hit[1], hit[2].describe())) if hit else None)
    run.floor('R01.9', 'calls of self.command[2](...)', sites, 1)



# -------------------------------------------------------------------- R01.11
def r01_11(run, rid='R01.11'):
    """The line accumulator (self.response) and the code of the reply in progress (self.code)
    belong to the line machine: a write from anywhere else (e.g. when a command is issued)
    clobbers the lines of a reply or 650 event that is part-way through arriving."""
    from ..tables import SpaghettiTable
    ci = proto(run)
    init = U(run, '__init__')
    tab = SpaghettiTable(init)
    owners = set([init])
    # after the connection is gone no further line arrives: resetting there loses nothing
    work = [x for x in (run.idx.find_method(ci, 'connectionLost'), run.idx.find_method(ci, 'connectionMade')) if x is not None]
    for t in tab.trans:
        for role in ('matcher', 'handler'):
            d = dotted(t[role]) if t[role] is not None else None
            if d and d.startswith('self.') and len(d.split('.')) == 2:
                u = run.idx.find_method(ci, d.split('.')[1])
                if u is not None:
                    work.append(u)
    # single-expression / small helpers called by the machine's functions belong to it too
    while work:
        u = work.pop()
        if u in owners:
            continue
        owners.add(u)
    run.floor(rid, 'functions of the line machine', len(owners), 5)
    k = 0
    for u in class_units(run.idx, ci):
        top = u
        while top.parent is not None and top.parent.owner_cls is ci and not isinstance(top.node, ast.ClassDef) and top not in owners:
            top = top.parent
        for attr in ('self.response', 'self.code'):
            for st, v in writes_of(u, attr):
                k += 1
                run.ob(rid, u, st, '%s is written only by the line machine\'s own functions' % attr, u in owners or top in owners,
                       slot='foreign-write:%s@%s' % (attr, u.short),
                       message='%s writes %s outside the line machine: lines of a reply or event that is part-way through arriving are lost' % (u.short, attr))
    run.floor(rid, 'writes of the accumulator / code', k, 5)

# --------------------------------------------------------------------- R01.6
FSM_ORACLE = {
    # (state, line class) -> (next state, handler role)
    ('IDLE', 'status'): ('IDLE', 'broadcast'), ('IDLE', 'mid'): ('RECV', 'start'), ('IDLE', 'data0'): ('RECV_PLUS', 'start'),
    ('RECV', 'status'): ('IDLE', 'broadcast'), ('RECV', 'mid'): ('RECV', 'accumulate'), ('RECV', 'data0'): ('RECV_PLUS', 'accumulate'),
    ('RECV_PLUS', 'dot'): ('RECV', 'none'),
    ('RECV_PLUS', 'status'): ('RECV_PLUS', 'raw'), ('RECV_PLUS', 'mid'): ('RECV_PLUS', 'raw'), ('RECV_PLUS', 'data0'): ('RECV_PLUS', 'raw'),
    ('RECV_PLUS', 'stuffed'): ('RECV_PLUS', 'raw'), ('RECV_PLUS', 'empty'): ('RECV_PLUS', 'raw'), ('RECV_PLUS', 'blankdot'): ('RECV_PLUS', 'raw'),
    ('RECV_PLUS', 'text'): ('RECV_PLUS', 'raw'), ('RECV_PLUS', 'keyval'): ('RECV_PLUS', 'raw'),
}
ROLE = {'self._broadcast_response': 'broadcast', 'self._start_command': 'start', 'self._accumulate_response': 'accumulate',
        'self._accumulate_multi_response': 'raw'}


def r01_6(run):
    from ..tables import SpaghettiTable
    from ..strsem import Interp, classify
    ci = proto(run)
    init = U(run, '__init__')
    tab = SpaghettiTable(init)
    run.floor('R01.6', 'control FSM states', len(tab.states), 4)
    run.floor('R01.6', 'control FSM transitions', len(tab.trans), 8)
    lam = dict((id(c.node), c) for c in init.children if isinstance(c.node, ast.Lambda))

    def resolver(call, unit):
        d = dotted(call.func) or ''
        if d.startswith('self.') and len(d.split('.')) == 2:
            return run.idx.find_method(ci, d.split('.')[1])
        return None

    def matcher_fn(m, code):
        d = dotted(m)
        if d and d.startswith('self.'):
            u = run.idx.find_method(ci, d.split('.')[1])
        elif isinstance(m, ast.Lambda):
            u = lam.get(id(m))
        else:
            u = None
        if u is None:
            raise Undecided('matcher %s not resolvable' % src(m))
        return lambda line: Interp(resolve_call=resolver, attrs={'self.code': code}).call_unit(u, [line])
    by_name = dict((nm, var) for var, nm in tab.states.items())
    for need in ('IDLE', 'RECV', 'RECV_PLUS'):
        if need not in by_name:
            raise AnchorVanished('FSM state %s' % need)
    for code_txt, code in (('250', 250), ('552', 552), ('650', 650)):
        classes = [('status', code_txt + ' ', False), ('mid', code_txt + '-', False), ('data0', code_txt + '+', False)]
        data_classes = classes + [('dot', '.', True), ('stuffed', '..', False), ('empty', '', True), ('blankdot', ' .', True),
                                  ('text', 'abc', False), ('keyval', 'k=', False)]
        for sname in ('IDLE', 'RECV', 'RECV_PLUS'):
            var = by_name[sname]
            trans = tab.of_state(var)
            cur_code = None if sname == 'IDLE' else code
            for cname, prefix, exact in (data_classes if sname == 'RECV_PLUS' else classes):
                want = FSM_ORACLE.get((sname, cname))
                if want is None:
                    continue
                from ..strsem import TAILS, Raised
                members = [prefix] if exact else [prefix + tl for tl in TAILS]
                outcomes = {}
                for line_ in members:
                    res = ('nofire', None, None)
                    for t in trans:
                        try:
                            hit = bool(matcher_fn(t['matcher'], cur_code)(line_))
                        except Raised as ex:
                            res = ('raise', ex.kind, t)
                            break
                        if hit:
                            nxt = tab.states.get(t['next'], t['next'])
                            h = t['handler']
                            hd = dotted(h) if h is not None else None
                            noop = h is None or is_none(h) or (isinstance(h, ast.Lambda) and is_none(h.body))
                            if not noop and hd and hd.startswith('self.') and hd not in ROLE:
                                hm_ = run.idx.find_method(proto(run), hd[5:])
                                if hm_ is not None:
                                    body_ = [b_ for b_ in hm_.node.body if not (isinstance(b_, ast.Expr) and isinstance(b_.value, ast.Constant))]
                                    noop = all(isinstance(b_, ast.Pass) or (isinstance(b_, ast.Return) and (b_.value is None or is_none(b_.value))) for b_ in body_)
                            role = ROLE.get(hd, 'none' if noop else 'other:%s' % src(h)[:30])
                            res = ('fire', (nxt, role), t)
                            break
                    outcomes.setdefault((res[0], res[1]), (line_, res[2]))
                for (kind, val), (line_, t) in sorted(outcomes.items(), key=lambda kv: str(kv[0])):
                    where = t['node'] if t is not None else init.node
                    if kind == 'raise':
                        run.ob('R01.6', init, where, 'no matcher raises on a well-formed %s line in %s' % (cname, sname), False, slot='raises:%s:%s' % (sname, cname),
                               message='in %s the matcher %s raises %s on the line %r (code %s)' % (sname, src(t['matcher']), val, line_, code_txt))
                    elif kind == 'nofire':
                        run.ob('R01.6', init, where, 'a transition fires for %s in %s' % (cname, sname), False, slot='nofire:%s:%s' % (sname, cname),
                               message='no transition of %s matches the line %r: it is dropped with a "No next state" warning, the reply it ends is never delivered' % (sname, line_))
                    else:
                        ok = val == want
                        run.ob('R01.6', init, where, '%s + %s line (code %s) -> %s / %s' % (sname, cname, code_txt, want[0], want[1]), ok, slot='fsm:%s:%s' % (sname, cname),
                               message='in state %s the %s line %r goes to %s via %s (control-spec 2.3 wants %s / %s)' % (sname, cname, line_, val[0], val[1], want[0], want[1]))
    # the machine starts in IDLE and the unused first state is never entered
    fsm_names = set(['self.fsm']) | set(dotted(a.value) for a in walk_unit(init) if isinstance(a, ast.Assign) and dotted(a.targets[0]) == 'self.fsm' and isinstance(a.value, ast.Name))
    st = [n for n in walk_unit(init) if isinstance(n, ast.Assign) and isinstance(n.targets[0], ast.Attribute) and n.targets[0].attr == 'state' and dotted(n.targets[0].value) in fsm_names]
    ok = len(st) == 1 and tab.states.get(dotted(st[0].value)) == 'IDLE'
    run.ob('R01.6', init, init.node, 'the line machine starts in IDLE', ok, slot='initial', message='initial state is %s' % [src(x.value) for x in st])
    # spaghetti semantics relied upon: first match wins; a handler returning None keeps the table's next state
    sp = run.idx.find_method(run.idx.cls('State', 'spaghetti'), 'process')
    loops = [n for n in walk_unit(sp) if isinstance(n, ast.For) and dotted(n.iter) == 'self.transitions']
    ok = len(loops) == 1 and any(isinstance(x, ast.Return) for x in ast.walk(loops[0]))
    run.ob('R01.6', sp, sp.node, 'State.process returns at the first matching transition', ok, slot='first-match', message='State.process no longer first-match')
    th = run.idx.find_method(run.idx.cls('Transition', 'spaghetti'), 'handle')
    # evaluated, not matched: for (no handler | handler returning None | handler returning a state) the result is
    # (the declared next state | the declared next state | the handler's state)
    for hv, rv, want, label in (('NONE', 'NONE', 'NEXT', 'no handler'), ('H', 'NONE', 'NEXT', 'a handler returning None'), ('H', 'S', 'S', 'a handler returning a state')):
        def leaf(e, hv=hv, rv=rv):
            d = dotted(e)
            if d == 'self.next_state':
                return 'NEXT'
            if d == 'self.handler':
                return hv
            if isinstance(e, ast.Call) and dotted(e.func) == 'self.handler':
                if hv == 'NONE':
                    raise MiniUndecided('calls a missing handler')
                return rv
            return None
        try:
            got = mini_interp(th.node, leaf)
        except MiniUndecided as e:
            raise Undecided('Transition.handle: %s' % e)
        run.ob('R01.6', th, th.node, 'Transition.handle with %s yields %s' % (label, 'the declared next state' if want == 'NEXT' else "the handler's state"), got == want,
               slot='handle-none', message='Transition.handle with %s returns %s' % (label, got))
    # handlers of the three accumulate/start kinds return None (they never redirect the machine)
    for hn in ('_start_command', '_accumulate_response', '_accumulate_multi_response', '_broadcast_response'):
        hu = U(run, hn)
        rets = [r for r in walk_unit(hu) if isinstance(r, ast.Return) and r.value is not None and not is_none(r.value)]
        run.ob('R01.6', hu, hu.node, '%s never redirects the machine (returns None)' % hn, not rets, slot='handler-returns:%s' % hn, message='%s returns %s' % (hn, [src(r.value) for r in rets]))


def r01_12(run):
    """data-block lines are dot-unstuffed before they reach the reply text *or* the per-line callback (rule R13.1, shared)"""
    from . import c13
    borrow(run, c13.r13_1, 'R01.12')


def r01_10(run):
    from . import c13
    c13.ok_removal(run, 'R01.10')


RULES = [
    ('R01.10', 'the final OK line is removed exactly (cut by the length of the tested suffix, no character-set strip)', r01_10),
    ('R01.12', 'dot-unstuffing precedes both sinks of a data-block line: reply text and per-line callback (R13.1 borrowed)', r01_12),
    ('R01.6', 'FSM table x abstract line classes (matcher ASTs interpreted on class representatives, first-match) against the control-spec 2.3 reply grammar, for 2xx/5xx/6xx codes', r01_6),
    ('R01.1', 'who-may-call: the control transport is written only in _maybe_issue_command', r01_1),
    ('R01.2', 'def-use: written bytes = queued command (tuple element agreement) + constant CRLF', r01_2),
    ('R01.3', 'mutation-site enumeration: queue is append-tail/pop-head only; returned Deferred is the queued one; issue attempted after append', r01_3),
    ('R01.4', 'dominance: pop guarded by empty in-flight slot; slot and Deferred set before write; who-may-assign slot', r01_4),
    ('R01.5', 'path enumeration over status-code ordering classes in _broadcast_response: one fire of the right kind, slot cleared, then next issue', r01_5),
    ('R01.7', 'framing: LineOnlyReceiver base, no dataReceived/delimiter override, MAX_LENGTH >= 2**20, each line processed once', r01_7),
    ('R01.11', 'who-may-write: self.response / self.code are written only by __init__ and the functions registered in the line machine\'s table', r01_11),
    ('R01.9', 'reachability: per-line callback unreachable under every non-2xx code class', r01_9),
    ('R01.8', 'each reply line goes to exactly one of per-line callback / reply text; prefix slice is 4; data lines unsliced', r01_8),
]

from ..selftest import M  # noqa: E402
F = 'txtorcon/torcontrolprotocol.py'
MUTANTS = [
    M('issue-loop-drains-queue', F, "        if len(self.commands):\n            self.command = self.commands.pop(0)", "        while len(self.commands):\n            self.command = self.commands.pop(0)", ['R01.4']),
    M('ok-trailer-cut-from-every-reply', F, ["        self.response = ''\n        if self.code is None:", "            if resp.endswith('\\nOK'):\n                resp = resp[:-3]\n            self.defer.callback(resp)"], ["        self.response = ''\n        if resp.endswith('\\nOK'):\n            resp = resp[:-3]\n        if self.code is None:", "            self.defer.callback(resp)"], ['R01.5']),
    M('crlf-only-when-missing', F, "            data = cmd + b'\\r\\n'\n", "            data = cmd if cmd.endswith(b'\\r\\n') else cmd + b'\\r\\n'\n", ['R01.2']),
    M('linecb-gets-stuffed-line', F, "        if line.startswith('.'):\n            line = line[1:]\n        if self._wants_lines():\n            self.command[2](line)\n", "        if self._wants_lines():\n            self.command[2](line)\n            return None\n        if line.startswith('.'):\n            line = line[1:]\n        if False:\n            pass\n", ['R01.12/R13.1']),
    M('empty-status-line-dropped', F, "sl = len(line) > 3 and line[3] == ' '", "sl = len(line) > 4 and line[3] == ' '", ['R01.6']),
    M('code-200-not-2xx-for-linecb', F, "            if self.code >= 200 and self.code < 300 and \\\n               self.command and self.command[2] is not None:", "            if self.code > 200 and self.code < 300 and \\\n               self.command and self.command[2] is not None:", ['R01.8']),
    M('final-line-payload-dropped', F, "                self.command[2](line[4:])\n                resp = ''", "                resp = ''", ['R01.8']),
    M('issue-wipes-accumulator', F, "            self.defer = d\n", "            self.defer = d\n            self.response = ''\n", ['R01.11']),
    M('linecb-for-5xx', F, "        return self.code >= 200 and self.code < 300 and \\\n            self.command", "        return self.code < 600 and \\\n            self.command", ['R01.9']),
    M('write-in-queue_command', F, "        self.commands.append((d, cmd, arg))\n", "        self.commands.append((d, cmd, arg))\n        self.transport.write(cmd)\n", ['R01.1']),
    M('lf-terminator', F, "data = cmd + b'\\r\\n'", "data = cmd + b'\\n'", ['R01.2']),
    M('write-stripped', F, "data = cmd + b'\\r\\n'", "data = cmd.strip() + b'\\r\\n'", ['R01.2']),
    M('queue-lowercases', F, "        d = defer.Deferred()\n        self.commands.append", "        cmd = cmd.upper()\n        d = defer.Deferred()\n        self.commands.append", ['R01.2']),
    M('pop-tail', F, "self.commands.pop(0)", "self.commands.pop()", ['R01.3']),
    M('insert-head', F, "self.commands.append((d, cmd, arg))", "self.commands.insert(0, (d, cmd, arg))", ['R01.3']),
    M('no-issue-after-append', F, "        self.commands.append((d, cmd, arg))\n        self._maybe_issue_command()\n", "        self.commands.append((d, cmd, arg))\n        if arg is None:\n            self._maybe_issue_command()\n", ['R01.3']),
    M('return-other-deferred', F, "        self._maybe_issue_command()\n        return d\n", "        self._maybe_issue_command()\n        return defer.Deferred()\n", ['R01.3']),
    M('no-inflight-guard', F, "        if self.command:\n            return\n\n        if len(self.commands):", "        if len(self.commands):", ['R01.4']),
    M('defer-not-set', F, "            self.defer = d\n\n            self.debuglog", "            self.debuglog", ['R01.4']),
    M('defer-wrong-elem', F, "            self.defer = d\n", "            self.defer = cmd_arg\n", ['R01.4']),
    M('no-defer-reset', F, "        self.code = None\n        self.defer = None\n        self._maybe_issue_command()", "        self.code = None\n        self._maybe_issue_command()", ['R01.5']),
    M('issue-before-reset', F, "        self.command = None\n        self.code = None\n        self.defer = None\n        self._maybe_issue_command()", "        self._maybe_issue_command()\n        self.command = None\n        self.code = None\n        self.defer = None", ['R01.5']),
    M('5xx-callback', F, "            self.defer.errback(err)", "            self.defer.callback(err)", ['R01.5']),
    M('no-response-reset', F, "            resp = self.response\n        self.response = ''\n", "            resp = self.response\n", ['R01.5']),
    M('5xx-range-narrow', F, "elif self.code >= 500 and self.code < 600:", "elif self.code > 500 and self.code < 600:", ['R01.5']),
    M('2xx-includes-300', F, "        elif self.code >= 200 and self.code < 300:\n            if self.defer is None", "        elif self.code >= 200 and self.code <= 300:\n            if self.defer is None", ['R01.5']),
    M('max-length-small', F, "MAX_LENGTH = 2 ** 20", "MAX_LENGTH = 2 ** 16", ['R01.7']),
    M('slice-3', F, "            self.response += (line[4:] + '\\n')", "            self.response += (line[3:] + '\\n')", ['R01.8']),
    M('data-line-sliced', F, "            self.response += (line + '\\n')", "            self.response += (line[1:] + '\\n')", ['R01.8']),
    M('both-cb-and-acc', F, "            self.command[2](line)\n\n        else:\n            self.response += (line + '\\n')", "            self.command[2](line)\n        self.response += (line + '\\n')", ['R01.8']),
]
TWINS = [
    M('deque-queue', F, ["from warnings import warn\n", "        self.commands = []       # queued commands", "            self.command = self.commands.pop(0)", "        outstanding = [self.command] + self.commands if self.command else self.commands", "        self.defer = None\n        self.commands = []\n"], ["from warnings import warn\nfrom collections import deque\n", "        self.commands = deque()  # queued commands", "            self.command = self.commands.popleft()", "        outstanding = [self.command] + list(self.commands) if self.command else list(self.commands)", "        self.defer = None\n        self.commands = deque()\n"]),
    M('truthy-queue-test', F, "        if len(self.commands):\n            self.command = self.commands.pop(0)", "        if self.commands:\n            self.command = self.commands.pop(0)"),
    M('join-payload', F, "data = cmd + b'\\r\\n'", "data = b''.join([cmd, b'\\r\\n'])"),
    M('append-bound-first', F, "        self.commands.append((d, cmd, arg))", "        entry = (d, cmd, arg)\n        self.commands.append(entry)"),
    M('guard-is-not-none', F, "        if self.command:\n            return\n", "        if self.command is not None:\n            return\n"),
    M('reorder-resets', F, "        self.command = None\n        self.code = None\n        self.defer = None\n        self._maybe_issue_command()", "        self.code = None\n        self.defer = None\n        self.command = None\n        self._maybe_issue_command()"),
    M('chained-compare', F, "elif self.code >= 500 and self.code < 600:", "elif 500 <= self.code < 600:"),
]

MUTANTS += [
    M('idle-rows-swapped', F, "        idle.add_transition(Transition(idle,\n                                       self._is_single_line_response,\n                                       self._broadcast_response))\n        idle.add_transition(Transition(recvmulti,\n                                       self._is_multi_line,\n                                       self._start_command))", "        idle.add_transition(Transition(recvmulti,\n                                       self._is_single_line_response,\n                                       self._start_command))\n        idle.add_transition(Transition(idle,\n                                       self._is_multi_line,\n                                       self._broadcast_response))", ['R01.6']),
    M('continuation-index-2', F, "        return line[3] == '-'", "        return line[2] == '-'", ['R01.6']),
    M('end-line-strip', F, "        return line == '.'", "        return line.strip() == '.'", ['R01.6']),
    M('end-line-dotdot', F, "        return line == '.'", "        return line.startswith('.')", ['R01.6']),
    M('multi-goes-to-recv', F, "        recv.add_transition(Transition(recvmulti,\n                                       self._is_multi_line,\n                                       self._accumulate_response))", "        recv.add_transition(Transition(recv,\n                                       self._is_multi_line,\n                                       self._accumulate_response))", ['R01.6']),
    M('finish-any-dot', F, "        if len(line) > 3 and line[3] == ' ':\n            return True\n        return False\n\n    def _broadcast_response", "        if len(line) > 3 and line[3] in ' -':\n            return True\n        return False\n\n    def _broadcast_response", None),
]
MUTANTS = [m for m in MUTANTS if m.name != 'finish-any-dot']
TWINS += [
    M('end-line-len', F, "        return line == '.'", "        return len(line) == 1 and line[0] == '.'"),
]
