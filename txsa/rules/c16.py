"""C16 - relay view equals the latest consensus document, nothing carried over."""
import ast

from .common import *  # noqa
from ..tables import SpaghettiTable
from ..strsem import Interp, classify, Raised
from .c07 import TS, TU

CONTAINERS = ('dict', 'set', 'list', 'OrderedDict')


def r16_1(run):
    cr = TU(run, '_create_router')
    un = TU(run, '_update_network_status')
    written = {}
    for n in walk_unit(cr):
        if isinstance(n, ast.Assign):
            for t in n.targets:
                if isinstance(t, ast.Subscript) and (dotted(t.value) or '').startswith('self.') and len(dotted(t.value).split('.')) == 2:
                    written.setdefault(dotted(t.value), n)
        elif isinstance(n, ast.Call) and (dotted(n.func) or '').startswith('self.') and callee_attr(n) in ('add', 'append', 'setdefault', 'update') \
                and len((dotted(n.func) or '').split('.')) == 3:
            written.setdefault('.'.join(dotted(n.func).split('.')[:2]), n)
    run.floor('R16.1', 'indexes written per relay in _create_router', len(written), 6)
    g = cfg_of(un)
    feed = g.nodes_where(lambda n: any(isinstance(a, ast.Call) and callee_attr(a) in ('feed_line',) for a in node_asts(n)))
    if not feed:
        raise AnchorVanished('_update_network_status: feed_line call')
    # resets: rebinding to a fresh container / .clear() that dominates the first feed, in this function or a helper it calls first
    reset = {}
    units = [un]
    for c in calls_in(un):
        d = dotted(c.func) or ''
        if d.startswith('self.') and len(d.split('.')) == 2:
            h = run.idx.find_method(TS(run), d.split('.')[1])
            if h is not None and all(any(g.dominates(m, f) for m in g.nodes_containing(c)) for f in feed):
                units.append(h)
    for u in units:
        gu = cfg_of(u)
        for n in gu.real_nodes():
            if n.kind != 'stmt':
                continue
            if u is un and not all(g.dominates(n, f) for f in feed):
                continue
            a = n.ast
            if isinstance(a, ast.Assign):
                for t in a.targets:
                    d = dotted(t)
                    if d and d.startswith('self.'):
                        v = a.value
                        fresh = (isinstance(v, ast.Call) and (dotted(v.func) or '').split('.')[-1] in CONTAINERS and not v.args) or \
                                (isinstance(v, (ast.Dict, ast.List, ast.Set)) and not getattr(v, 'keys', getattr(v, 'elts', [])))
                        if fresh:
                            reset[d] = n
                        elif d == 'self._old_routers':
                            reset[d] = n
            for x in node_asts(n):
                if isinstance(x, ast.Call) and callee_attr(x) == 'clear' and (dotted(x.func) or '').startswith('self.'):
                    reset['.'.join(dotted(x.func).split('.')[:2])] = n
    for w, site in sorted(written.items()):
        ok = w in reset
        run.ob('R16.1', cr, site, '%s (written per relay) starts empty for every document' % w, ok, slot='reset:%s' % w,
               message='%s is filled by _create_router but not reset in _update_network_status: relays that left the consensus '
                       'or lost the flag stay in it' % w)
    # a replacement document always replaces: the reset block may be skipped only for an empty payload (today: `if len(data):`),
    # never depending on what the document says (a document listing no relay is a legitimate "every relay left")
    dp = un.params[1] if len(un.params) > 1 else 'data'
    for w, n in sorted(reset.items()):
        if n not in g.real_nodes():
            continue
        for t, lab in g.guarded_by(n, lambda t: True):
            a = t.ast
            emptiness = dotted(a) == dp or (isinstance(a, ast.Call) and dotted(a.func) == 'len' and a.args and dotted(a.args[0]) == dp) or \
                (isinstance(a, ast.Compare) and isinstance(a.left, ast.Call) and dotted(a.left.func) == 'len' and a.left.args and dotted(a.left.args[0]) == dp
                 and const(a.comparators[0]) == 0)
            run.ob('R16.1', un, a, 'the reset of %s is skipped for an empty payload at most' % w, emptiness, slot='reset-guard:%s' % w,
                   message='_update_network_status resets %s only if %s: a replacement document for which that is false leaves the whole previous relay view in place' % (w, src(a)[:60]))
    # the previous document's relays are kept aside for identity reuse, not merged
    ok = 'self._old_routers' in reset and dotted(assign_to(reset['self._old_routers'].ast, 'self._old_routers')) == 'self.routers'
    run.ob('R16.1', un, un.node, 'the previous relay map is moved to _old_routers (identity reuse) before the reset', ok, slot='old-routers', message='_old_routers not taken from self.routers')
    # done() flushes the last entry
    dn = g.nodes_where(lambda n: any(isinstance(a, ast.Call) and callee_attr(a) == 'done' for a in node_asts(n)))
    ok = bool(dn) and all(not g.escapes(f, lambda n: n in dn, exits=g.normal_exits()) for f in feed)
    run.ob('R16.1', un, un.node, 'the parser is flushed (done) after the last line', ok, slot='parser-done', message='_update_network_status does not call done() after feeding')
    # every line of the document is fed, in order
    loops = [n for n in walk_unit(un) if isinstance(n, ast.For) and any(isinstance(c, ast.Call) and callee_attr(c) == 'feed_line' for c in ast.walk(n))]
    ok = len(loops) == 1 and src(loops[0].iter) in ("data.split('\\n')", "data.splitlines()")
    run.ob('R16.1', un, un.node, 'every line of the document is fed once, in order', ok, slot='feed-all', message='lines fed from %s' % [src(l.iter) for l in loops])


def r16_2(run):
    cr = TU(run, '_create_router')
    g = cfg_of(cr)
    rc = run.idx.cls('Router', 'router')
    upd = run.idx.find_method(rc, 'update')
    upd_sets = set(dotted(t) for n in walk_unit(upd) if isinstance(n, ast.Assign) for t in n.targets if dotted(t))
    # the relay object variable
    rv = None
    for n in walk_unit(cr):
        if isinstance(n, ast.Assign) and isinstance(n.value, ast.Call) and dotted(n.value.func) == 'Router':
            rv = dotted(n.targets[0])
    if rv is None:
        raise AnchorVanished('_create_router: Router(...) construction')
    reused = any(isinstance(n, ast.Subscript) and dotted(n.value) == 'self._old_routers' for n in walk_unit(cr))
    run.ob('R16.2', cr, cr.node, 'a relay present in the previous document keeps its object identity', reused, slot='identity-reuse', message='_create_router no longer looks the relay up in _old_routers')
    k = 0
    for n in g.real_nodes():
        if n.kind != 'stmt':
            continue
        a = n.ast
        attr = None
        cumulative = False
        if isinstance(a, (ast.Assign, ast.AugAssign)):
            for t in (a.targets if isinstance(a, ast.Assign) else [a.target]):
                d = dotted(t)
                if d and d.startswith(rv + '.'):
                    attr = d
                    cumulative = isinstance(a, ast.AugAssign)
        for x in node_asts(n):
            if isinstance(x, ast.Call) and (dotted(x.func) or '').startswith(rv + '.') and callee_attr(x) in ('extend', 'append', 'add', 'update') \
                    and len(dotted(x.func).split('.')) == 3:
                attr = '.'.join(dotted(x.func).split('.')[:2])
                cumulative = True
        if attr is None or attr.split('.')[1] in ('from_consensus',):
            continue
        k += 1
        conditional = not _unconditional(g, n)
        fld = 'self.' + attr.split('.', 1)[1]
        # reset unconditionally here or in Router.update ?
        reset_here = any(m.kind == 'stmt' and isinstance(m.ast, ast.Assign) and any(dotted(t) == attr for t in m.ast.targets) and _unconditional(g, m)
                         and m is not n for m in g.real_nodes())
        reset_in_update = fld in upd_sets or fld.replace('self.', 'self._') in upd_sets
        ok = (not conditional and not cumulative) or reset_here or reset_in_update
        run.ob('R16.2', cr, a, '%s is fully determined by the current document' % attr, ok, slot='hygiene:%s' % attr,
               message='%s is written %s in _create_router and never reset: because Router objects are re-used across '
                       'documents, the value from an earlier consensus survives / accumulates' %
                       (attr, 'cumulatively' if cumulative else 'only when the document has the field'))
    run.floor('R16.2', 'router attribute writes in _create_router', k, 3)
    # update() is called with the document's fields
    uc = [c for c in calls_in(cr) if dotted(c.func) == rv + '.update']
    want = ["kw['nickname']", "kw['idhash']", "kw['orhash']", "kw['modified']", "kw['ip']", "kw['orport']", "kw['dirport']"]
    ok = len(uc) == 1 and [src(a) for a in uc[0].args] == want
    if not ok and len(uc) == 1:
        # the fields as named parameters instead of a **kw dict: the parser passes them by keyword, so the parameter names are the keys
        names = ['nickname', 'idhash', 'orhash', 'modified', 'ip', 'orport', 'dirport']
        ok = [dotted(a) for a in uc[0].args] == names and set(names) <= set(cr.params)
    run.ob('R16.2', cr, uc[0] if uc else cr.node, 'nickname, identity, address and ports come from the current entry', ok, slot='update-args', message='router.update(%s)' % ([src(a) for a in uc[0].args] if uc else ''))
    for c in uc:
        for n in g.nodes_containing(c):
            run.ob('R16.2', cr, c, 'every entry refreshes nickname, address and ports of its (possibly re-used) Router', _unconditional(g, n), slot='update-unconditional',
                   message='_create_router calls router.update(...) only on some paths: a re-used Router keeps nickname / address / ports of an earlier document')
    params = upd.params[1:]
    assigns = dict((dotted(n.targets[0]), dotted(n.value)) for n in walk_unit(upd) if isinstance(n, ast.Assign) and dotted(n.value) in params)
    ok = assigns.get('self.name') == params[0] and assigns.get('self.ip') == params[4] and assigns.get('self.or_port') == params[5] and assigns.get('self.dir_port') == params[6]
    run.ob('R16.2', upd, upd.node, 'Router.update stores name / ip / ports from its arguments in order', ok, slot='update-body', message='Router.update assigns %s' % assigns)


def _unconditional(g, n):
    """n lies on every normal path of the function"""
    r = g.reachable([g.entry], avoid=lambda x: x is n, follow_exc=False)
    return not any(e in r for e in g.normal_exits())


# ------------------------------------------------------------------ R16.3
CLASSES = [('r', 'r ', False), ('a', 'a ', False), ('s', 's ', False), ('w', 'w ', False), ('p', 'p ', False),
           ('dot', '.', True), ('ok', 'OK', True), ('empty', '', True), ('nskey', 'ns/all=', True), ('other', 'm abc', False)]
IGN = ('dot', 'ok', 'empty', 'nskey')
ORACLE = {
    'waiting_r': {'r': ('waiting_s', 'begin')},
    'waiting_s': {'a': ('waiting_s', 'address'), 's': ('waiting_w', 'flags')},
    'waiting_w': {'w': ('waiting_p', 'bandwidth'), 'p': ('waiting_r', 'policy'), 'r': ('waiting_s', 'begin')},
    'waiting_p': {'p': ('waiting_r', 'policy'), 'r': ('waiting_s', 'begin')},
}
HANDLER_ROLE = {'self._router_begin': 'begin', 'self._router_address': 'address', 'self._router_flags': 'flags',
                'self._router_bandwidth': 'bandwidth', 'self._router_policy': 'policy'}


def r16_3(run):
    mp = run.idx.cls('MicrodescriptorParser', '_microdesc_parser')
    init = run.idx.find_method(mp, '__init__')
    tab = SpaghettiTable(init)
    run.floor('R16.3', 'microdescriptor FSM states', len(tab.states), 4)
    run.floor('R16.3', 'microdescriptor FSM transitions', len(tab.trans), 18)
    nested = dict(init.module.functions)      # (a matcher / handler may live at module level instead of inside __init__)
    nested.update((c.name, c) for c in init.children)
    lambdas = dict((id(c.node), c) for c in init.children if isinstance(c.node, ast.Lambda))

    def resolver(call, unit):
        f = call.func
        if isinstance(f, ast.Name) and f.id in nested:
            return nested[f.id]
        return None

    def matcher_fn(m):
        if isinstance(m, ast.Lambda):
            u = lambdas.get(id(m))
        elif isinstance(m, ast.Name) and m.id in nested:
            u = nested[m.id]
        else:
            u = None
        if u is None:
            raise Undecided('matcher %s not resolvable' % src(m))
        return lambda line: Interp(resolve_call=resolver).call_unit(u, [line])
    name_of = tab.states
    for var, sname in sorted(tab.states.items(), key=lambda kv: kv[1]):
        trans = tab.of_state(var)
        for cname, prefix, exact in CLASSES:
            fired = None
            for t in trans:
                r = classify(matcher_fn(t['matcher']), prefix, exact)
                if r is None or isinstance(r, tuple):
                    run.ob('R16.3', init, t['node'], 'matcher decided on class %s in %s' % (cname, sname), None,
                           message='matcher %s is not constant on line class %r (%s)' % (src(t['matcher'])[:40], prefix, r))
                    fired = 'undecided'
                    break
                if r:
                    fired = t
                    break
            if fired == 'undecided':
                continue
            if fired is None:
                run.ob('R16.3', init, init.node, 'some transition fires for class %s in %s' % (cname, sname), False, slot='nofire:%s:%s' % (sname, cname),
                       message='no transition of %s matches a %r line' % (sname, prefix))
                continue
            h = fired['handler']
            if h is not None and is_none(h):
                h = None
            hd = dotted(h) if h is not None else None
            is_die = isinstance(h, ast.Call) and dotted(h.func) == 'die'
            nxt = name_of.get(fired['next'], fired['next'])
            want = ORACLE.get(sname, {}).get(cname)
            if want is not None:
                ok = (not is_die) and nxt == want[0] and HANDLER_ROLE.get(hd) == want[1]
                run.ob('R16.3', init, fired['node'], '%s + "%s" line -> %s (%s)' % (sname, cname, want[0], want[1]), ok, slot='trans:%s:%s' % (sname, cname),
                       message='in %s a "%s" line (allowed there by dir-spec 3.4.1: r a* s [w] [p]) %s' % (
                           sname, prefix.strip(), 'is rejected by the die transition' if is_die else 'goes to %s via %s' % (nxt, hd)))
            elif cname in IGN:
                ok = (not is_die) and h is None
                run.ob('R16.3', init, fired['node'], '%s ignores %r' % (sname, prefix), ok, slot='ignore:%s:%s' % (sname, cname),
                       message='%s handles ignorable line %r with %s' % (sname, prefix, src(h) if h is not None else None))
            else:
                run.ob('R16.3', init, fired['node'], '%s rejects a "%s" line (out of order)' % (sname, cname), is_die, slot='reject:%s:%s' % (sname, cname),
                       message='in %s a "%s" line is out of dir-spec order but is accepted (-> %s via %s)' % (sname, prefix.strip(), nxt, hd))
    # first-match semantics of the machine itself (spaghetti.State.process)
    sp = run.idx.find_method(run.idx.cls('State', 'spaghetti'), 'process')
    loops = [n for n in walk_unit(sp) if isinstance(n, ast.For) and dotted(n.iter) == 'self.transitions']
    ok = len(loops) == 1 and any(isinstance(x, ast.Return) for x in ast.walk(loops[0]))
    run.ob('R16.3', sp, sp.node, 'State.process returns at the first matching transition', ok, slot='first-match', message='State.process no longer returns at the first match')
    # handlers store what the line says
    for hn, key, idx_ in (('_router_flags', 'flags', None), ('_router_bandwidth', 'bandwidth', None)):
        h = run.idx.find_method(mp, hn)
        ok = any(isinstance(n, ast.Assign) and isinstance(n.targets[0], ast.Subscript) and const(n.targets[0].slice) == key for n in walk_unit(h))
        run.ob('R16.3', h, h.node, '%s records %s of the current entry' % (hn, key), ok, slot='handler:%s' % hn, message='%s does not store %s' % (hn, key))
    ra = run.idx.find_method(mp, '_router_address')
    acc = any(isinstance(n, ast.Call) and callee_attr(n) in ('extend', 'append') and "'ip_v6'" in src(n) for n in walk_unit(ra)) or \
        any(isinstance(n, ast.AugAssign) and "'ip_v6'" in src(n.target) for n in walk_unit(ra)) or \
        any(isinstance(n, ast.Call) and callee_attr(n) == 'setdefault' and "'ip_v6'" in src(n) for n in walk_unit(ra))
    run.ob('R16.3', ra, ra.node, 'every "a" line of an entry adds to its IPv6 addresses (a relay may have several)', acc, slot='a-lines-accumulate',
           message='_router_address overwrites ip_v6 instead of accumulating: a relay with two "a" lines keeps only the last address')
    rb = run.idx.find_method(mp, '_router_begin')
    g = cfg_of(rb)
    first = [n for n in g.real_nodes() if n.kind == 'stmt' and not is_noise(n.ast)]
    ok = bool(first) and any(is_call_to(a, 'self._maybe_callback_router') for a in node_asts(sorted(first, key=lambda n: n.lineno)[0]))
    run.ob('R16.3', rb, rb.node, 'a new "r" line first emits the previous entry', ok, slot='emit-previous', message='_router_begin does not flush the previous relay first')
    dct = [n for n in walk_unit(rb) if isinstance(n, ast.Assign) and assign_to(n, 'self._relay_attrs') is not None]
    def _kv(v):
        # dict(k=e, ...) or {'k': e, ...}
        if isinstance(v, ast.Call) and dotted(v.func) == 'dict' and not v.args:
            return [(k.arg, k.value) for k in v.keywords]
        if isinstance(v, ast.Dict) and all(isinstance(k, ast.Constant) for k in v.keys):
            return [(k.value, e) for k, e in zip(v.keys, v.values)]
        return None
    argnames = dict((nm, 'args') for nm in names_defined_by(rb, lambda v: 'split()' in src(v) or (isinstance(v, ast.Call) and not isinstance(v.func, ast.Attribute) and 'data' in src(v))))
    if len(dct) == 1 and _kv(dct[0].value) is None:
        raise Undecided('_router_begin: the attribute set is built by %s' % src(dct[0].value)[:60])
    ok = len(dct) == 1 and \
        dict((k, norm_src(e, argnames)) for k, e in _kv(dct[0].value)) == {
            'nickname': 'args[0]', 'idhash': 'args[1]', 'orhash': 'args[2]', 'modified': "args[3] + ' ' + args[4]", 'ip': 'args[5]', 'orport': 'args[6]', 'dirport': 'args[7]'}
    run.ob('R16.3', rb, rb.node, 'an "r" line starts a fresh attribute set with the fields in dir-spec order', ok, slot='r-fields', message='_router_begin builds %s' % (src(dct[0].value)[:80] if dct else None))
    mc = run.idx.find_method(mp, '_maybe_callback_router')
    ok = any(isinstance(n, ast.Assign) and assign_to(n, 'self._relay_attrs') is not None and is_none(n.value) for n in walk_unit(mc)) and \
        any(isinstance(c, ast.Call) and dotted(c.func) == 'self._create_relay' and c.keywords and c.keywords[0].arg is None for c in walk_unit(mc))
    run.ob('R16.3', mc, mc.node, 'an emitted entry is cleared (emitted once)', ok, slot='emit-once', message='_maybe_callback_router does not clear the entry after emitting it')


def r16_4(run):
    h2x = run.idx.unit('router.hexIdFromHash')
    x2h = run.idx.unit('router.hashFromHexId')
    r1 = [r for r in walk_unit(h2x) if isinstance(r, ast.Return)]
    r2 = [r for r in walk_unit(x2h) if isinstance(r, ast.Return)]
    s1 = src(r1[0].value) if r1 else ''
    s2 = src(r2[0].value) if r2 else ''
    # upper-case hex of the decoded digest: hexlify / b2a_hex + .upper(), or b16encode (upper-case by definition)
    ok1 = s1.startswith("'$' +") and "+ '=')" in s1 and ((('b2a_hex(b64decode(' in s1 or 'hexlify(b64decode(' in s1) and '.upper()' in s1) or
                                                         ('b16encode(b64decode(' in s1 and '.lower()' not in s1))
    run.ob('R16.4', h2x, h2x.node, "hexIdFromHash = '$' + HEX(b64decode(hash + '='))", ok1, slot='to-hex', message='hexIdFromHash returns %s' % s1)
    ok2 = 'b64encode(a2b_hex(' in s2 and '[:-1]' in s2
    strips = any(isinstance(n, ast.Compare) and const(n.comparators[0]) == '$' for n in walk_unit(x2h)) and \
        (any(isinstance(n, ast.Assign) and src(n.value) == '%s[1:]' % x2h.params[0] for n in walk_unit(x2h)) or
         any(isinstance(n, ast.IfExp) and src(n.body) == '%s[1:]' % x2h.params[0] and src(n.orelse) == x2h.params[0] and
             isinstance(n.test, ast.Compare) and isinstance(n.test.ops[0], ast.Eq) and const(n.test.comparators[0]) == '$' for n in walk_unit(x2h)))
    ok2 = ok2 or ('b64encode(a2b_hex(' in s2 and s2.rstrip().endswith('[:-1]'))
    run.ob('R16.4', x2h, x2h.node, "hashFromHexId = b64encode(a2b_hex(hex without '$')) without the '=' pad", ok2 and strips, slot='to-hash', message='hashFromHexId returns %s' % s2)


def r16_5(run):
    cr = TU(run, '_create_router')
    g = cfg_of(cr)
    # the two collections are filled on BOTH delivery paths of a document: the initial "GETINFO ns/all" listing (lines fed
    # straight to the parser by _bootstrap) and NEWCONSENSUS (_update_network_status).  The only code common to both is the
    # parser's per-relay callback _create_router; filling them elsewhere must be reachable from both.
    ts_ = TS(run)
    for coll in ('self.guards', 'self.authorities'):
        holders = []
        for u in class_units(run.idx, ts_):
            for n in walk_unit(u):
                if isinstance(n, ast.Assign) and any(isinstance(t, ast.Subscript) and dotted(t.value) == coll for t in n.targets):
                    holders.append(u)
                if isinstance(n, ast.Assign) and any(dotted(t) == coll for t in n.targets) and isinstance(n.value, (ast.DictComp, ast.Call)) and not (
                        isinstance(n.value, ast.Call) and not n.value.args and not n.value.keywords):
                    holders.append(u)
        if holders and cr not in holders:
            bs = TU(run, '_bootstrap')
            reach = set(x.qual for x in reach_units(run.idx, [bs]))
            okb = any(h.qual in reach for h in holders)
            run.ob('R16.5', holders[0], holders[0].node, '%s is filled for the initial relay listing too' % coll, okb, slot='filled-on-both-paths:%s' % coll,
                   message='%s is only filled in %s, which the bootstrap listing (GETINFO ns/all fed line by line to the parser) never runs: until the first '
                           'NEWCONSENSUS the collection is empty' % (coll, sorted(set(h.short for h in holders))))
    for coll, flag in (('self.guards', 'guard'), ('self.authorities', 'authority')):
        st = [n for n in g.real_nodes() if n.kind == 'stmt' and isinstance(n.ast, ast.Assign) and isinstance(n.ast.targets[0], ast.Subscript) and dotted(n.ast.targets[0].value) == coll]
        run.floor('R16.5', 'stores into %s' % coll, len(st), 1)
        for n in st:
            gd = g.guarded_by(n, lambda t: isinstance(t, ast.Compare) and isinstance(t.ops[0], ast.In) and (dotted(t.comparators[0]) or '').endswith('.flags'))
            ok = any(lab == 'T' and const(t.ast.left) == flag for t, lab in gd)
            run.ob('R16.5', cr, n.ast, '%s holds exactly the relays with the (lower-cased) %s flag' % (coll, flag), ok, slot='flag:%s' % coll,
                   message='%s membership is not keyed on the lower-case flag %r the flags setter produces' % (coll, flag))
            # ... *exactly*: the store depends on that one test and on nothing else (a further condition - "and running" - leaves
            # relays that carry the flag out of the collection)
            extra = [(t, lab) for t, lab in g.guarded_by(n, lambda t_: True) if not (isinstance(t.ast, ast.Compare) and const(t.ast.left) == flag and lab == 'T')]
            run.ob('R16.5', cr, n.ast, 'membership in %s depends on the %s flag alone' % (coll, flag), not extra, slot='flag-alone:%s' % coll,
                   message='%s is filled only when also %s: relays of the latest document that carry the %s flag are missing from the collection'
                           % (coll, ['%s%s' % ('' if lab == 'T' else 'not ', src(t.ast)[:40]) for t, lab in extra][:3], flag))
    # nothing but the per-document reset removes a relay from the two collections (a relay whose *nickname* is ambiguous still
    # carries its flag)
    for u in class_units(run.idx, ts_):
        for n in walk_unit(u):
            hit = None
            if isinstance(n, ast.Call) and dotted(n.func) in ('self.guards.pop', 'self.authorities.pop', 'self.guards.popitem', 'self.authorities.popitem',
                                                              'self.guards.clear', 'self.authorities.clear') and u.name != '_update_network_status':
                hit = src(n)
            if isinstance(n, ast.Call) and dotted(n.func) in ('self.guards.pop', 'self.authorities.pop', 'self.guards.popitem', 'self.authorities.popitem'):
                hit = src(n)
            if isinstance(n, ast.Delete) and any(isinstance(t, ast.Subscript) and dotted(t.value) in ('self.guards', 'self.authorities') for t in n.targets):
                hit = src(n)
            if hit:
                run.ob('R16.5', u, n, 'relays leave the guard / authority collections only through the per-document reset', False, slot='flag-collection-removal@%s' % u.short,
                       message='%s removes single entries from a flag collection (%s): a relay that carries the flag in the latest document disappears from it' % (u.short, hit[:40]))
    rc = run.idx.cls('Router', 'router')
    fs = [u for u in run.idx.all_units() if u.owner_cls is rc and u.name == 'flags' and any('setter' in d for d in u.decorators())]
    ok = bool(fs) and any(isinstance(n, ast.ListComp) and 'lower()' in src(n.elt) for n in walk_unit(fs[0]))
    if fs and not ok:
        # the same as a loop: every element appended to what becomes self._flags is <x>.lower()
        apps = [c for c in calls_in(fs[0]) if callee_attr(c) == 'append' and c.args]
        ok = bool(apps) and all('lower()' in src(c.args[0]) for c in apps)
    run.ob('R16.5', fs[0] if fs else rc.file, fs[0].node if fs else rc.node, 'the flags setter lower-cases every flag', ok, slot='setter-lower', message='Router.flags setter does not lower-case')
    # flags assigned after reuse lookup, before membership tests
    fa = [n for n in g.real_nodes() if n.kind == 'stmt' and isinstance(n.ast, ast.Assign) and any((dotted(t) or '').endswith('.flags') for t in n.ast.targets)]
    tests = [t for t in g.live if t.kind == 'test' and isinstance(t.ast, ast.Compare) and (dotted(t.ast.comparators[0]) or '').endswith('.flags')]
    ok = bool(fa) and all(any(g.dominates(a, t) for a in fa) for t in tests)
    run.ob('R16.5', cr, cr.node, "membership is decided on the current document's flags", ok, slot='flags-before-tests', message='flag membership tested before the flags are assigned')
    # nickname lookup: unique names map to the relay, duplicates to None; lookup by identity always stored
    stores = [n for n in walk_unit(cr) if isinstance(n, ast.Assign) and isinstance(n.targets[0], ast.Subscript) and dotted(n.targets[0].value) == 'self.routers']
    keys = sorted(set(src(n.targets[0].slice) for n in stores))
    ok = any(k.endswith('.name') for k in keys) and any(k.endswith('id_hex') or k == 'id_hex' for k in keys)
    run.ob('R16.5', cr, cr.node, 'relays are indexed by identity and by nickname', ok, slot='index-keys', message='self.routers keyed by %s' % keys)
    dup = [n for n in stores if is_none(n.value)]
    okd = False
    for n in dup:
        for cn in g.nodes_containing(n):
            okd = okd or established(g, cn, 'member', lambda t: dotted(t.comparators[0]) == 'self.routers', positive=True)
    # the same decision written as a conditional expression: routers[name] = None if <name already there> else router
    defs_cr = local_defs(cr)
    for n in stores:
        v = n.value
        if isinstance(v, ast.IfExp):
            tst = v.test
            neg = False
            if isinstance(tst, ast.UnaryOp) and isinstance(tst.op, ast.Not):
                tst, neg = tst.operand, True
            if isinstance(tst, ast.Name) and single_def(defs_cr, tst.id) and single_def(defs_cr, tst.id)[0] == 'expr':
                tst = single_def(defs_cr, tst.id)[1]
            if isinstance(tst, ast.Compare) and len(tst.ops) == 1 and isinstance(tst.ops[0], (ast.In, ast.NotIn)) and dotted(tst.comparators[0]) == 'self.routers':
                member_true = isinstance(tst.ops[0], ast.In) != neg
                none_leg = v.body if member_true else v.orelse
                okd = okd or is_none(none_leg)
    run.ob('R16.5', cr, cr.node, 'a nickname seen twice in the document resolves to nothing', okd, slot='dup-nick', message='duplicate nicknames are not blanked')
    # ... for every bearer of it: a relay is filed under its nickname only where "not yet in the index" is established (no further
    # condition - flags, listing order - lets one bearer of a shared nickname keep it)
    for n in stores:
        if is_none(n.value) or isinstance(n.value, ast.IfExp) or not src(n.targets[0].slice).endswith('.name'):
            continue
        for cn in g.nodes_containing(n):
            okn = established(g, cn, 'member', lambda t: dotted(t.comparators[0]) == 'self.routers', positive=False)
            run.ob('R16.5', cr, n, 'a relay is filed under its nickname only if no other relay of the document has it', okn, slot='nick-only-if-new',
                   message='_create_router files a relay under its nickname on a path where "nickname not yet in the index" is not established: with a shared nickname the '
                           'lookup then resolves to one of its bearers instead of to nothing')
    idst = [n for n in g.real_nodes() if n.kind == 'stmt' and n.ast in stores and not src(n.ast.targets[0].slice).endswith('.name') and not is_none(n.ast.value)]
    ok = bool(idst) and any(_unconditional(g, n) for n in idst)
    run.ob('R16.5', cr, cr.node, 'lookup by identity is stored unconditionally', ok, slot='id-always', message='identity key not stored on every path')


def r16_8(run):
    """the per-line handlers of the document parser take every token after the one-letter keyword (s: all flags, a: all
    addresses, w: all key=value items); the blanked duplicate nicknames are removed from the nickname index at the end"""
    pc = run.idx.cls('MicrodescriptorParser', '_microdesc_parser')
    k = 0
    for name in ('_router_flags', '_router_address', '_router_bandwidth'):
        u = run.idx.find_method(pc, name)
        if u is None:
            raise AnchorVanished('MicrodescriptorParser.' + name)
        p = u.params[1]
        for n in walk_unit(u):
            if isinstance(n, ast.Subscript) and isinstance(n.value, ast.Call) and callee_attr(n.value) == 'split' and dotted(receiver(n.value)) == p and isinstance(n.slice, ast.Slice):
                k += 1
                ok = const(n.slice.lower) == 1 and n.slice.upper is None and not n.value.args
                run.ob('R16.8', u, n, '%s takes every token after the keyword' % name, ok, slot='tokens:%s' % name,
                       message='%s takes %s: the first (or last) item of the line is lost - e.g. the Authority flag, which sorts first' % (name, src(n)))
    bw = run.idx.find_method(pc, '_router_bandwidth')
    for n in walk_unit(bw):
        if isinstance(n, ast.Assign) and isinstance(n.targets[0], ast.Subscript) and const(n.targets[0].slice) == 'bandwidth':
            bykey = any(isinstance(x, ast.Subscript) and const(x.slice) == 'Bandwidth' for x in ast.walk(n.value))
            run.ob('R16.8', bw, n, 'the bandwidth is the value of the Bandwidth= keyword of the w line', bykey, slot='bandwidth-by-keyword',
                   message='_router_bandwidth takes %s: on a line such as "w Bandwidth=20 Unmeasured=1" (dir-spec allows further keywords) another keyword\'s value is '
                           'reported as the bandwidth' % src(n.value)[:50])
            k += 1
    run.floor('R16.8', 'token slices in the line handlers', k, 3)
    un = TU(run, '_update_network_status')
    g = cfg_of(un)
    dels = [n for n in g.real_nodes() if n.kind == 'stmt' and isinstance(n.ast, ast.Delete) and any(isinstance(t, ast.Subscript) and dotted(t.value) == 'self.routers' for t in n.ast.targets)]
    run.ob('R16.8', un, un.node, 'blanked (ambiguous) nicknames are removed from the nickname index', bool(dels), slot='dup-removed',
           message='_update_network_status no longer deletes the None placeholders: an ambiguous nickname resolves to None instead of being unknown')
    # the parser hands a relay over lazily (on the next "r" line or on done()): the flush precedes the pass that reads the
    # indexes, otherwise the last relay of the document is indexed after its ambiguous nickname should have been removed
    flush = g.nodes_where(lambda n: any(isinstance(a, ast.Call) and callee_attr(a) == 'done' for a in node_asts(n)))
    readers = [n for n in g.live if n.kind == 'iter' and isinstance(n.ast, ast.For) and 'self.routers' in src(n.ast.iter)]
    for rd in readers:
        r_ = g.reachable([g.entry], avoid=lambda n: n in flush, follow_exc=False)
        # paths that fed no line (empty payload) have nothing to flush: only paths through a feed count
        feeds = g.nodes_where(lambda n: any(isinstance(a, ast.Call) and callee_attr(a) == 'feed_line' for a in node_asts(n)))
        late = any(rd in g.reachable([s_ for _, s_ in f_.succ], avoid=lambda n: n in flush, follow_exc=False) for f_ in feeds)
        run.ob('R16.8', un, rd.ast, 'the document parser is flushed before the nickname index is post-processed', not late, slot='flush-before-dup-pass',
               message='_update_network_status walks self.routers for ambiguous nicknames before calling done() on the parser: the last relay of the document is created '
                       'afterwards, so a duplicate nickname carried by the last entry keeps its None placeholder')
    for dn in dels:
        lp = [x for x in walk_unit(un) if isinstance(x, ast.For) and any(y is dn.ast for y in ast.walk(x))]
        if lp and isinstance(lp[0].iter, ast.Name):
            coll = lp[0].iter.id
            adds = [n for n in g.real_nodes() if any(isinstance(a, ast.Call) and dotted(a.func) == coll + '.add' for a in node_asts(n))]
            okg = bool(adds) and all(any(lab == 'T' for t, lab in g.guarded_by(a, lambda t: isinstance(t, ast.Compare) and is_none(t.comparators[0]) and isinstance(t.ops[0], ast.Is)))
                                     for a in adds)
            run.ob('R16.8', un, dn.ast, 'exactly the names whose entry is the None placeholder are removed', okg, slot='dup-removed-exact',
                   message='the set of names to remove is not filled under "value is None"')


def r16_10(run):
    """the nickname index holds None for an ambiguous nickname until the end-of-document pass removes it - and that pass does not
    run after the initial ns/all listing, so placeholders can be live in self.routers (and in whatever aliases it) at any time.
    Contradiction rule: one walk over the index tests "is None"; every other walk over it (or an alias) that dereferences the
    entry must do the same, or the AttributeError aborts the replacement and the stale view stays"""
    ts = TS(run)
    units = [m for m in ts.methods.values()]
    holders = set()
    for u in units:
        for n in walk_unit(u):
            if isinstance(n, ast.Assign) and isinstance(n.targets[0], ast.Subscript) and (dotted(n.targets[0].value) or '').startswith('self.') and \
                    (is_none(n.value) or (isinstance(n.value, ast.IfExp) and (is_none(n.value.body) or is_none(n.value.orelse)))):
                holders.add(dotted(n.targets[0].value))
    if not holders:
        raise AnchorVanished('None placeholder store into a TorState index')
    changed = True
    while changed:
        changed = False
        for u in units:
            for n in walk_unit(u):
                if isinstance(n, ast.Assign) and dotted(n.value) in holders:
                    for t in n.targets:
                        if (dotted(t) or '').startswith('self.') and dotted(t) not in holders:
                            holders.add(dotted(t))
                            changed = True
    k = checked = 0
    for u in units:
        g = None
        for lp in [n for n in walk_unit(u) if isinstance(n, ast.For)]:
            it = lp.iter
            v = None
            if isinstance(it, ast.Call) and callee_attr(it) == 'values' and dotted(receiver(it)) in holders and isinstance(lp.target, ast.Name):
                v = lp.target.id
            elif isinstance(it, ast.Call) and callee_attr(it) == 'items' and dotted(receiver(it)) in holders and isinstance(lp.target, (ast.Tuple, ast.List)) \
                    and len(lp.target.elts) == 2 and isinstance(lp.target.elts[1], ast.Name):
                v = lp.target.elts[1].id
            if v is None:
                continue
            k += 1
            g = g or cfg_of(u)
            for x in [x for b in lp.body for x in ast.walk(b) if isinstance(x, ast.Attribute) and isinstance(x.value, ast.Name) and x.value.id == v]:
                for n in g.nodes_containing(x):
                    checked += 1
                    gd = g.guarded_by(n, lambda t: (isinstance(t, ast.Compare) and dotted(t.left) == v and len(t.ops) == 1 and is_none(t.comparators[0])) or dotted(t) == v)
                    ok = any((isinstance(t.ast, ast.Compare) and ((lab == 'F') == isinstance(t.ast.ops[0], (ast.Is, ast.Eq)))) or (not isinstance(t.ast, ast.Compare) and lab == 'T')
                             for t, lab in gd)
                    run.ob('R16.10', u, x, 'an entry of the nickname index is dereferenced only after a None test', ok, slot='placeholder-deref@%s' % u.name,
                           message='%s walks %s and uses %s without testing it for None: an ambiguous nickname left by the initial listing makes the walk raise '
                                   'AttributeError, the event dispatcher swallows it and the replacement consensus is dropped' % (u.name, src(it), src(x)))
    run.floor('R16.10', 'walks over the nickname index (or an alias)', k, 1)
    run.ob('R16.10', units[0], ts.node, 'indexes that may hold the None placeholder: %s; %d walks, %d dereferences' % (sorted(holders), k, checked), True)


def r16_6(run):
    k = dropped_deferreds(run, 'R16.6', [TU(run, '_bootstrap')], 'the state bootstrap')
    run.floor('R16.6', 'suspension points in TorState._bootstrap', k, 4)


def r16_9(run):
    """a replacement consensus reaches the relay view at all: the NEWCONSENSUS event's text is dispatched uncut (rule R02.1, shared) -
    a document that lists no relay is the two lines "NEWCONSENSUS" / "OK", and shortening it makes the event name unrecognisable,
    so every relay of the previous document is carried over"""
    from . import c02
    borrow(run, c02.r02_1, 'R16.9')


def r16_11(run):
    """lookup by identity always works: router_from_id files and finds relays under the 41-character "$fingerprint" prefix of
    whatever spelling it is given ($FP, $FP~nick, $FP=nick) - rule R07.4, shared"""
    from . import c07
    borrow(run, c07.r07_4, 'R16.11')


RULES = [
    ('R16.6', 'no dropped Deferred in TorState._bootstrap (ns/all is loaded before the state is declared ready)', r16_6),
    ('R16.9', 'the NEWCONSENSUS event text is dispatched uncut (R02.1 borrowed): an empty replacement document still replaces the view', r16_9),
    ('R16.1', 'writer/resetter set agreement: every index _create_router fills is rebound/cleared before the document is fed; parser flushed', r16_1),
    ('R16.2', 'reuse hygiene: every Router attribute written conditionally or cumulatively is reset unconditionally (objects are re-used across documents)', r16_2),
    ('R16.3', 'FSM table x line classes against dir-spec 3.4.1 order r a* s [w] [p] (first-match, matcher ASTs interpreted on class representatives)', r16_3),
    ('R16.8', 'line handlers take data.split()[1:]; ambiguous nicknames deleted after the document', r16_8),
    ('R16.10', 'contradiction rule: the nickname index may hold None placeholders (one walk tests for it); every walk over it or an alias dereferences entries only after a None test', r16_10),
    ('R16.11', 'router_from_id keys relays by the $fingerprint prefix for every spelling of a router id (R07.4 borrowed)', r16_11),
    ('R16.4', 'identity codec pair composed of mutually inverse primitives', r16_4),
    ('R16.5', 'guards/authorities keyed on the lower-cased flags; nickname index blanks duplicates; identity always indexed', r16_5),
]

from ..selftest import M  # noqa: E402
FT, FP, FR = 'txtorcon/torstate.py', 'txtorcon/_microdesc_parser.py', 'txtorcon/router.py'
MUTANTS = [
    M('old-routers-walk-derefs-placeholder', 'txtorcon/torstate.py', "            self._old_routers = self.routers\n", "            self._old_routers = self.routers\n            for router in self._old_routers.values():\n                router.from_consensus = False\n", ['R16.10']),
    M('ok-line-cut-from-events-too', 'txtorcon/torcontrolprotocol.py', ["        self.response = ''\n        if self.code is None:", "            if resp.endswith('\\nOK'):\n                resp = resp[:-3]\n            self.defer.callback(resp)"], ["        self.response = ''\n        if resp.endswith('\\nOK'):\n            resp = resp[:-3]\n        if self.code is None:", "            self.defer.callback(resp)"], ['R16.9/R02.1']),
    M('guards-need-running-too', 'txtorcon/torstate.py', "        if 'guard' in router.flags:\n", "        if 'guard' in router.flags and 'running' in router.flags:\n", ['R16.5']),
    M('authority-dropped-with-dup-nick', FT, "        for k in remove_keys:\n            del self.routers[k]\n", "        for k in remove_keys:\n            del self.routers[k]\n            self.authorities.pop(k, None)\n", ['R16.5']),
    M('flush-after-dup-pass', FT, ["                self._network_status_parser.feed_line(line)\n            self._network_status_parser.done()\n", "        for k in remove_keys:\n            del self.routers[k]\n"], ["                self._network_status_parser.feed_line(line)\n", "        for k in remove_keys:\n            del self.routers[k]\n        self._network_status_parser.done()\n"], ['R16.8']),
    M('bandwidth-last-equals', FP, "        args = data.split()[1:]\n        kw = find_keywords(args)\n        self._relay_attrs['bandwidth'] = kw['Bandwidth']", "        self._relay_attrs['bandwidth'] = data.rpartition('=')[2]", ['R16.8']),
    M('first-flag-lost', FP, "    def _router_flags(self, data):\n        args = data.split()[1:]", "    def _router_flags(self, data):\n        args = data.split()[2:]", ['R16.8']),
    M('dup-names-kept', FT, "        for k in remove_keys:\n            del self.routers[k]\n", "", ['R16.8']),
    M('ok-only-document-skipped', FT, "        if len(data):\n            self._old_routers = self.routers", "        if len(data) and data.strip() != 'OK':\n            self._old_routers = self.routers", ['R16.1']),
    M('update-only-for-new', FT, "            router = Router(self.protocol)\n\n        self.routers[id_hex] = router\n        router.from_consensus = True\n        router.update(", "            router = Router(self.protocol)\n\n        self.routers[id_hex] = router\n        router.from_consensus = True\n        if router.id_hex is None:\n          router.update(", ['R16.2']),
    M('guards-not-reset', FT, "            self.guards = dict()\n            self.authorities = dict()\n", "            self.authorities = dict()\n", ['R16.1']),
    M('by-name-not-reset', FT, "            self.routers_by_name = dict()\n", "", ['R16.1']),
    M('no-done', FT, "            self._network_status_parser.done()\n", "", ['R16.1']),
    M('ipv6-accumulates', FT, "        router.ip_v6 = list(kw.get('ip_v6', []))", "        router.ip_v6.extend(kw.get('ip_v6', []))", ['R16.2']),
    M('bandwidth-conditional', FT, "        router.bandwidth = kw.get('bandwidth', 0)", "        if 'bandwidth' in kw:\n            router.bandwidth = kw['bandwidth']", ['R16.2']),
    M('no-identity-reuse', FT, "        try:\n            router = self._old_routers[id_hex]\n        except KeyError:\n            router = Router(self.protocol)", "        router = Router(self.protocol)", ['R16.2']),
    M('p-after-s-dies', FP, "        waiting_w.add_transition(Transition(waiting_r, lambda x: x.startswith('p '), self._router_policy))  # ...so \"p\" may follow \"s\"\n", "", ['R16.3']),
    M('die-before-a', FP, ["        waiting_s.add_transition(Transition(waiting_s, lambda x: x.startswith('a '), self._router_address))\n", "        waiting_s.add_transition(Transition(waiting_r, lambda x: not x.startswith('s ') and not x.startswith('a '), die('Expected \"s \" while parsing routers not \"%s\"')))\n"], ["", "        waiting_s.add_transition(Transition(waiting_r, lambda x: not x.startswith('s ') and not x.startswith('a '), die('Expected \"s \" while parsing routers not \"%s\"')))\n        waiting_s.add_transition(Transition(waiting_s, lambda x: x.startswith('a '), self._router_address))\n"], None),
    M('s-needs-no-space', FP, "        waiting_s.add_transition(Transition(waiting_w, lambda x: x.startswith('s '), self._router_flags))", "        waiting_s.add_transition(Transition(waiting_w, lambda x: x.startswith('s'), self._router_flags))", None),
    M('r-optional-in-waiting_r', FP, "        waiting_r.add_transition(Transition(waiting_r, lambda x: not x.startswith('r '), die('Expected \"r \" while parsing routers not \"%s\"')))", "        waiting_r.add_transition(Transition(waiting_r, lambda x: not x.startswith('r '), None))", ['R16.3']),
    M('w-goes-back-to-r', FP, "        waiting_w.add_transition(Transition(waiting_p, lambda x: x.startswith('w '), self._router_bandwidth))", "        waiting_w.add_transition(Transition(waiting_r, lambda x: x.startswith('w '), self._router_bandwidth))", ['R16.3']),
    M('begin-no-flush', FP, "    def _router_begin(self, data):\n        self._maybe_callback_router()\n", "    def _router_begin(self, data):\n", ['R16.3']),
    M('fields-swapped', FP, "            orport=args[6],\n            dirport=args[7],", "            orport=args[7],\n            dirport=args[6],", ['R16.3']),
    M('hex-no-pad', FR, "b64decode(thehash + '=')", "b64decode(thehash)", ['R16.4']),
    M('guard-capitalised', FT, "        if 'guard' in router.flags:", "        if 'Guard' in router.flags:", ['R16.5']),
    M('dup-nick-kept', FT, "        if router.name in self.routers:\n            self.routers[router.name] = None\n\n        else:\n            self.routers[router.name] = router", "        self.routers[router.name] = router", ['R16.5']),
]
MUTANTS = [m for m in MUTANTS if m.name not in ('die-before-a', 's-needs-no-space')]
TWINS = [
    M('clear-instead-of-rebind', FT, "            self.guards = dict()\n            self.authorities = dict()\n", "            self.guards = {}\n            self.authorities = {}\n"),
    M('x2-slice-form', FP, "        waiting_w.add_transition(Transition(waiting_r, lambda x: x.startswith('p '), self._router_policy))", "        waiting_w.add_transition(Transition(waiting_r, lambda x: x[:2] == 'p ', self._router_policy))"),
]
